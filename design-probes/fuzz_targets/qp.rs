#![no_main]
use libfuzzer_sys::fuzz_target;
use std::sync::Once;
static HOOK: Once = Once::new();
fuzz_target!(|data: &[u8]| {
    HOOK.call_once(|| { std::panic::set_hook(Box::new(|_| {})); });
    let s = String::from_utf8_lossy(data);
    if s.matches('(').count() > 40 { return; }
    let strict = std::panic::catch_unwind(|| tantivy_query_grammar::parse_query(&s));
    let strict = match strict {
        Ok(r) => r,
        Err(p) => { let msg = p.downcast_ref::<String>().cloned().or_else(|| p.downcast_ref::<&str>().map(|x| x.to_string())).unwrap_or_default(); if msg.contains("Exist query without a field") { return; } eprintln!("NEW PANIC strict {s:?}: {msg}"); std::process::abort(); }
    };
    let lenient = std::panic::catch_unwind(|| tantivy_query_grammar::parse_query_lenient(&s));
    let (ast, errs) = match lenient { Ok(r) => r, Err(p) => { let msg = p.downcast_ref::<String>().cloned().or_else(|| p.downcast_ref::<&str>().map(|x| x.to_string())).unwrap_or_default(); eprintln!("NEW PANIC lenient {s:?}: {msg}"); std::process::abort(); } };
    if s.contains('/') { return; } // known finding: unterminated regex start
    if let Ok(a) = strict {
        if !errs.is_empty() { eprintln!("DISAGREE errs on strict-ok {s:?}: {errs:?}"); std::process::abort(); }
        if a != ast { eprintln!("DISAGREE ast {s:?}: strict={a:?} lenient={ast:?}"); std::process::abort(); }
    }
});
