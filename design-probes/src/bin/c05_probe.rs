// Throw-away probe for C05/C10: concurrent reloads vs commits/merges/GC on SimDir, with a reader held mid-reload.
use scratch::*;
use std::sync::atomic::{AtomicBool, AtomicUsize, Ordering};
use std::sync::{Arc, Mutex};
use std::time::Duration;
use tantivy::collector::DocSetCollector;
use tantivy::query::AllQuery;
use tantivy::schema::*;
use tantivy::{doc, Index, IndexWriter, ReloadPolicy, Searcher, Term};

fn fingerprint(s: &Searcher) -> Result<Vec<u64>, String> {
    let hits = s.search(&AllQuery, &DocSetCollector).map_err(|e| format!("search {e:?}"))?;
    let mut ids = vec![];
    for a in hits {
        let d: tantivy::TantivyDocument = s.doc(a).map_err(|e| format!("doc {e:?}"))?;
        let stored = d.get_first(s.schema().get_field("id").unwrap()).and_then(|v| v.as_u64()).ok_or("no stored id")?;
        let ff = s.segment_reader(a.segment_ord).fast_fields().u64("id").map_err(|e| format!("{e:?}"))?.first(a.doc_id).ok_or("no ff")?;
        if ff != stored { return Err(format!("ff {ff} != stored {stored}")); }
        ids.push(stored);
    }
    ids.sort();
    Ok(ids)
}
fn main() {
    let rounds: usize = std::env::args().nth(1).map(|s| s.parse().unwrap()).unwrap_or(10);
    let mut total_reloads = 0usize; let mut overlapped = 0usize;
    for round in 0..rounds {
        let mut sb = Schema::builder();
        let id = sb.add_u64_field("id", FAST | INDEXED | STORED);
        let dir = SimDir::new();
        let index = Index::create(dir.clone(), sb.build(), Default::default()).unwrap();
        let states: Arc<Mutex<Vec<Vec<u64>>>> = Arc::new(Mutex::new(vec![vec![]]));
        let stop = Arc::new(AtomicBool::new(false));
        let violations: Arc<Mutex<Vec<String>>> = Default::default();
        let reloads = Arc::new(AtomicUsize::new(0));
        let mut handles = vec![];
        for rid in 0..3 {
            let (dir2, states, stop, violations, reloads) = (dir.clone(), states.clone(), stop.clone(), violations.clone(), reloads.clone());
            let index_r = if rid == 0 { index.clone() } else { Index::open(dir2.clone()).unwrap() };
            handles.push(std::thread::Builder::new().name(format!("reader-{rid}")).spawn(move || {
                let reader = index_r.reader_builder().reload_policy(ReloadPolicy::Manual).try_into().unwrap();
                let mut last_j = 0usize;
                let mut held: Vec<(Searcher, Vec<u64>)> = vec![];
                let mut it = 0usize;
                while !stop.load(Ordering::Relaxed) {
                    it += 1;
                    if rid == 2 && it % 5 == 0 && std::env::var("GATE").is_ok() { dir2.arm_gate("reader-2", K::OpenRead, ".store"); let d3 = dir2.clone(); std::thread::spawn(move || { if d3.wait_gate(Duration::from_millis(300)) { std::thread::sleep(Duration::from_millis(30)); } d3.open_gate(); }); }
                    if let Err(e) = reader.reload() { let log = dir2.st.lock().unwrap().log.clone(); let tail: Vec<String> = log.iter().rev().filter(|o| o.path.to_str().unwrap().contains("meta.lock")).take(12).map(|o| format!("{}:{:?}", o.thread, o.kind)).collect(); violations.lock().unwrap().push(format!("reader-{rid}: reload error {e:?} lock-ops(latest first)={tail:?}")); break; }
                    reloads.fetch_add(1, Ordering::Relaxed);
                    let s = reader.searcher();
                    let fp = match fingerprint(&s) { Ok(f) => f, Err(e) => { violations.lock().unwrap().push(format!("reader-{rid}: fingerprint error {e}")); break; } };
                    let st = states.lock().unwrap().clone();
                    // which commit is this? (states are distinct by construction)
                    match st.iter().rposition(|x| *x == fp) {
                        Some(j) => { if j < last_j { violations.lock().unwrap().push(format!("reader-{rid}: went back from {last_j} to {j}")); } last_j = j; }
                        None => {
                            // maybe a commit that is in progress: its state is published only after commit returns; re-check shortly
                            std::thread::sleep(Duration::from_millis(50));
                            let st2 = states.lock().unwrap().clone();
                            match st2.iter().rposition(|x| *x == fp) { Some(j) => { last_j = j; } None => { violations.lock().unwrap().push(format!("reader-{rid}: saw {fp:?} which is no commit (known {} commits)", st2.len())); } }
                        }
                    }
                    if it % 3 == 0 { held.push((s, fp)); }
                    if held.len() > 6 { let (hs, hfp) = held.remove(0); match fingerprint(&hs) { Ok(f) if f == hfp => {}, other => violations.lock().unwrap().push(format!("reader-{rid}: held searcher changed: {other:?} vs {hfp:?}")) } }
                }
                for (hs, hfp) in held { match fingerprint(&hs) { Ok(f) if f == hfp => {}, other => violations.lock().unwrap().push(format!("reader-{rid}: held searcher changed at end: {other:?}")) } }
            }).unwrap());
        }
        // writer
        let mut w: IndexWriter = index.writer_with_num_threads(2, 30_000_000).unwrap();
        let mut live: Vec<u64> = vec![]; let mut next = 0u64;
        for c in 1..=25usize {
            for _ in 0..(1 + c % 4) { w.add_document(doc!(id=>next)).unwrap(); live.push(next); next += 1; }
            if c % 3 == 0 && live.len() > 2 { let v = live.remove(c % live.len()); w.delete_term(Term::from_field_u64(id, v)); }
            // publish state *before* commit returns would be wrong for monotonic check; publish after, readers tolerate lag
            let mut pc = w.prepare_commit().unwrap(); pc.set_payload(&format!("c{c}"));
            // make the state known just before the commit lands so that readers can match an in-progress commit
            states.lock().unwrap().push(live.clone());
            pc.commit().unwrap();
            if c % 5 == 0 { let ids = index.searchable_segment_ids().unwrap(); if ids.len() >= 2 { let _ = w.merge(&ids).wait(); } }
            if c % 7 == 0 { w.add_document(doc!(id=>100000 + next)).unwrap(); w.rollback().unwrap(); }
            if c % 4 == 0 { let _ = w.garbage_collect_files().wait(); }
        }
        w.wait_merging_threads().unwrap();
        std::thread::sleep(Duration::from_millis(100));
        stop.store(true, Ordering::Relaxed);
        dir.open_gate();
        for h in handles { h.join().unwrap(); }
        let v = violations.lock().unwrap();
        total_reloads += reloads.load(Ordering::Relaxed);
        // overlap metric: reader ops interleaved with segment_updater ops in the log
        let log = dir.st.lock().unwrap().log.clone();
        overlapped += log.windows(2).filter(|w| w[0].thread.starts_with("reader") != w[1].thread.starts_with("reader")).count();
        if !v.is_empty() { println!("round {round}: VIOLATIONS {:?}", &v[..v.len().min(3)]); }
    }
    println!("rounds={rounds} reloads={total_reloads} thread_switches_in_log={overlapped}");
}
