// Throw-away probe for C17 (+C04 attachment): sorted index keeps segments sorted; records stay attached.
use proptest::prelude::*;
use proptest::test_runner::{Config, RngSeed, TestRunner};
use std::collections::BTreeMap;
use tantivy::postings::Postings;
use tantivy::schema::*;
use tantivy::{DocSet, Index, IndexSettings, IndexSortByField, IndexWriter, Order, TantivyDocument, Term, TERMINATED};

#[derive(Clone, Debug)]
enum Op { Add(Option<i64>, u8), Del(usize), DelW(u8), Commit, Merge(usize) }
fn main() {
    let cases: u32 = std::env::args().nth(1).map(|s| s.parse().unwrap()).unwrap_or(200);
    let seed: u64 = std::env::args().nth(2).map(|s| s.parse().unwrap()).unwrap_or(1);
    let op = prop_oneof![
        10 => (prop::option::weighted(0.8, prop_oneof![4 => -5i64..6, 1 => prop::sample::select(vec![i64::MIN, i64::MAX])]), 0u8..4).prop_map(|(k, w)| Op::Add(k, w)),
        2 => (0usize..1000).prop_map(Op::Del), 1 => (0u8..4).prop_map(Op::DelW), 3 => Just(Op::Commit), 1 => (0usize..8).prop_map(Op::Merge)];
    let strat = (prop::collection::vec(op, 1..60), 0u8..6, any::<bool>());
    let cfg = Config { cases, rng_seed: RngSeed::Fixed(seed), failure_persistence: None, max_shrink_iters: 3000, ..Config::default() };
    let mut runner = TestRunner::new(cfg);
    let segs_checked = std::cell::Cell::new(0usize);
    let res = runner.run(&strat, |(ops, kind, desc)| {
        // kind: 0 i64, 1 u64, 2 f64, 3 date, 4 str, 5 bytes
        let mut sb = Schema::builder();
        let uid = sb.add_u64_field("uid", FAST | INDEXED | STORED);
        let body = sb.add_text_field("body", TEXT | STORED);
        match kind { 0 => { sb.add_i64_field("k", FAST | STORED); } 1 => { sb.add_u64_field("k", FAST | STORED); } 2 => { sb.add_f64_field("k", FAST | STORED); } 3 => { sb.add_date_field("k", FAST | STORED); } 4 => { sb.add_text_field("k", STRING | FAST | STORED); } _ => { sb.add_bytes_field("k", FAST | STORED); } }
        let schema = sb.build();
        let kf = schema.get_field("k").unwrap();
        let settings = IndexSettings { sort_by_field: Some(IndexSortByField { field: "k".into(), order: if desc { Order::Desc } else { Order::Asc } }), ..Default::default() };
        let index = Index::builder().schema(schema.clone()).settings(settings).create_in_ram().map_err(|e| TestCaseError::fail(format!("{e:?}")))?;
        let mut w: IndexWriter = index.writer_with_num_threads(1, 15_000_000).unwrap();
        w.set_merge_policy(Box::new(tantivy::merge_policy::NoMergePolicy));
        let mut pending: BTreeMap<u64, (Option<i64>, u8)> = BTreeMap::new();
        let mut next = 0u64; let mut all: Vec<u64> = vec![];
        let norm = |k: i64| -> i64 { match kind { 1 => (k as i128 - i64::MIN as i128).min(u64::MAX as i128) as i64 /*placeholder*/, _ => k } };
        let _ = norm;
        let keyval = |k: i64| -> (i128, Vec<u8>) { // sortable representation used by the oracle
            match kind { 1 => (((k as i128) - (i64::MIN as i128)), vec![]), 2 => ((k.clamp(-1_000_000_000, 1_000_000_000) as i128), vec![]), 3 => ((k.clamp(-1_000_000, 1_000_000) as i128), vec![]), 4 | 5 => (0, format!("{:+021}", k.clamp(-9, 9) + 10).into_bytes()), _ => (k as i128, vec![]) }
        };
        let mut check = |index: &Index, pending: &BTreeMap<u64, (Option<i64>, u8)>| -> Result<(), TestCaseError> {
            let searcher = index.reader().unwrap().searcher();
            let mut seen: BTreeMap<u64, u8> = BTreeMap::new();
            for r in searcher.segment_readers() {
                segs_checked.set(segs_checked.get() + 1);
                let uc = r.fast_fields().u64("uid").unwrap();
                let store = r.get_store_reader(10).unwrap();
                let inv = r.inverted_index(body).unwrap();
                let mut prev: Option<Option<(i128, Vec<u8>)>> = None;
                for d in 0..r.max_doc() {
                    let u = uc.first(d).unwrap();
                    // order check over all docs (incl. deleted ones: they keep their place)
                    let stored: TantivyDocument = store.get(d).unwrap();
                    let su = stored.get_first(uid).unwrap().as_u64().unwrap();
                    prop_assert_eq!(su, u, "stored uid vs fast uid at doc {}", d);
                    // model lookup: the doc may be deleted; find its key from all docs ever added
                    let alive = r.alive_bitset().map(|b| b.is_alive(d)).unwrap_or(true);
                    if alive { prop_assert!(seen.insert(u, 0).is_none(), "uid {} twice", u); prop_assert!(pending.contains_key(&u), "uid {} should not be alive", u); }
                    // key from stored field
                    let key: Option<(i128, Vec<u8>)> = stored.get_first(kf).map(|v| match kind {
                        0 => (v.as_i64().unwrap() as i128, vec![]), 1 => (v.as_u64().unwrap() as i128, vec![]), 2 => ((v.as_f64().unwrap() * 4.0) as i128, vec![]), 3 => (v.as_datetime().unwrap().into_timestamp_nanos() as i128, vec![]),
                        4 => (0, v.as_str().unwrap().as_bytes().to_vec()), _ => (0, v.as_bytes().unwrap().to_vec()) });
                    if alive { let (mk, mw) = pending[&u]; let exp = mk.map(|k| keyval(k)); let expn = exp.clone().map(|(a, b)| match kind { 2 => (a, b), 3 => (a * 1_000_000_000, b), _ => (a, b) }); prop_assert!(key == expn || kind == 2 && key.as_ref().map(|x| x.0) == exp.as_ref().map(|x| x.0 * 1), "key mismatch uid {}: {:?} vs {:?}", u, key, expn);
                        // postings attachment: term w{mw} must contain doc d
                        let term = Term::from_field_text(body, &format!("w{mw}"));
                        let mut p = inv.read_postings(&term, IndexRecordOption::WithFreqsAndPositions).unwrap().ok_or_else(|| TestCaseError::fail("term missing"))?;
                        prop_assert_eq!(p.seek(d), d, "posting of w{} missing doc {} (uid {})", mw, d, u);
                        let sb: String = stored.get_first(body).unwrap().as_str().unwrap().to_string();
                        prop_assert_eq!(sb, format!("w{mw} x{u}"), "stored body");
                        let term2 = Term::from_field_text(body, &format!("x{u}"));
                        let mut p2 = inv.read_postings(&term2, IndexRecordOption::WithFreqsAndPositions).unwrap().ok_or_else(|| TestCaseError::fail("uid term missing"))?;
                        prop_assert_eq!(p2.doc(), d, "uid term posting doc"); prop_assert_eq!(p2.advance(), TERMINATED);
                    }
                    // fast field key equals stored key
                    if let Some(p) = &prev {
                        let ord = match (p, &key) { (None, None) => std::cmp::Ordering::Equal, (None, Some(_)) => std::cmp::Ordering::Less, (Some(_), None) => std::cmp::Ordering::Greater, (Some(a), Some(b)) => a.cmp(b) };
                        if desc { prop_assert!(ord != std::cmp::Ordering::Less, "segment not sorted desc at doc {}: {:?} then {:?}", d, p, key); } else { prop_assert!(ord != std::cmp::Ordering::Greater, "segment not sorted asc at doc {}: {:?} then {:?}", d, p, key); }
                    }
                    prev = Some(key);
                }
            }
            prop_assert_eq!(seen.len(), pending.len(), "alive docs {} vs model {}", seen.len(), pending.len());
            Ok(())
        };
        for op in &ops {
            match op {
                Op::Add(k, wd) => {
                    let mut o = serde_json::Map::new();
                    o.insert("uid".into(), serde_json::json!(next)); o.insert("body".into(), serde_json::json!(format!("w{wd} x{next}")));
                    if let Some(k) = k { let (a, b) = keyval(*k); let v = match kind { 0 => serde_json::json!(*k), 1 => serde_json::json!(a as u64), 2 => serde_json::json!((a as f64) / 4.0), 3 => serde_json::json!(tantivy::DateTime::from_timestamp_secs(a as i64).into_utc().format(&tantivy::time::format_description::well_known::Rfc3339).unwrap()), 4 => serde_json::json!(String::from_utf8(b).unwrap()), _ => serde_json::json!(base64_encode(&b)) }; o.insert("k".into(), v); }
                    let d = TantivyDocument::parse_json(&schema, &serde_json::Value::Object(o).to_string()).map_err(|e| TestCaseError::fail(format!("parse {e:?}")))?;
                    w.add_document(d).unwrap(); pending.insert(next, (*k, *wd)); all.push(next); next += 1;
                }
                Op::Del(i) => { if !all.is_empty() { let u = all[i % all.len()]; w.delete_term(Term::from_field_u64(uid, u)); pending.remove(&u); } }
                Op::DelW(wd) => { w.delete_term(Term::from_field_text(body, &format!("w{wd}"))); pending.retain(|_, v| v.1 != *wd); }
                Op::Commit => { w.commit().map_err(|e| TestCaseError::fail(format!("commit {e:?}")))?; check(&index, &pending)?; }
                Op::Merge(n) => { w.commit().map_err(|e| TestCaseError::fail(format!("commit {e:?}")))?; let ids = index.searchable_segment_ids().unwrap(); if ids.len() >= 2 { let take = 2 + n % (ids.len() - 1); w.merge(&ids[..take.min(ids.len())]).wait().map_err(|e| TestCaseError::fail(format!("merge {e:?}")))?; } check(&index, &pending)?; }
            }
        }
        w.commit().unwrap(); check(&index, &pending)?;
        Ok(())
    });
    println!("segments_checked={} result={}", segs_checked.get(), match res { Ok(()) => "ok".to_string(), Err(e) => format!("{e:?}").chars().take(2000).collect() });
}
fn base64_encode(b: &[u8]) -> String {
    const T: &[u8] = b"ABCDEFGHIJKLMNOPQRSTUVWXYZabcdefghijklmnopqrstuvwxyz0123456789+/";
    let mut s = String::new();
    for c in b.chunks(3) { let n = (c[0] as u32) << 16 | (*c.get(1).unwrap_or(&0) as u32) << 8 | *c.get(2).unwrap_or(&0) as u32; s.push(T[(n >> 18) as usize & 63] as char); s.push(T[(n >> 12) as usize & 63] as char); s.push(if c.len() > 1 { T[(n >> 6) as usize & 63] as char } else { '=' }); s.push(if c.len() > 2 { T[n as usize & 63] as char } else { '=' }); }
    s
}
