// Throw-away probe for C15: sstable Dictionary vs BTreeMap.
use proptest::prelude::*;
use proptest::test_runner::{Config, RngSeed, TestRunner};
use std::collections::BTreeMap;
use std::ops::Bound;
use tantivy_common::OwnedBytes;
use tantivy_sstable::{Dictionary, MonotonicU64SSTable, TermOrdHit};

fn keystrat() -> impl Strategy<Value = Vec<u8>> {
    let byte = prop_oneof![6 => 97u8..101, 1 => Just(0u8), 1 => Just(255u8), 1 => any::<u8>()];
    prop_oneof![
        8 => prop::collection::vec(byte.clone(), 0..6),
        2 => (prop::collection::vec(byte.clone(), 0..3), 10usize..40, prop::collection::vec(byte, 0..4)).prop_map(|(a, n, b)| { let mut k = a; k.extend(std::iter::repeat(b'x').take(n)); k.extend(b); k }),
    ]
}
fn main() {
    let cases: u32 = std::env::args().nth(1).map(|s| s.parse().unwrap()).unwrap_or(2000);
    let seed: u64 = std::env::args().nth(2).map(|s| s.parse().unwrap()).unwrap_or(1);
    let strat = (prop::collection::btree_set(keystrat(), 0..120), prop_oneof![Just(16usize), Just(64), Just(300), Just(4000)], prop::collection::vec((keystrat(), keystrat(), 0u8..4, 0u8..4, prop::option::of(0u64..10)), 1..10));
    let cfg = Config { cases, rng_seed: RngSeed::Fixed(seed), failure_persistence: None, max_shrink_iters: 5000, ..Config::default() };
    let mut runner = TestRunner::new(cfg);
    let multi_block = std::cell::Cell::new(0usize);
    let res = runner.run(&strat, |(keys, block_len, probes)| {
        let model: BTreeMap<Vec<u8>, u64> = keys.iter().cloned().enumerate().map(|(i, k)| (k, i as u64 * 3)).collect();
        let mut buf = Vec::new();
        {
            let mut w = Dictionary::<MonotonicU64SSTable>::builder(&mut buf).unwrap();
            w.set_block_len(block_len);
            for (k, v) in &model { w.insert(k, v).unwrap(); }
            w.finish().unwrap();
        }
        if buf.len() > block_len * 2 { multi_block.set(multi_block.get() + 1); }
        let d = Dictionary::<MonotonicU64SSTable>::from_bytes(OwnedBytes::new(buf)).map_err(|e| TestCaseError::fail(format!("open {e:?}")))?;
        prop_assert_eq!(d.num_terms(), model.len());
        let sorted: Vec<(&Vec<u8>, &u64)> = model.iter().collect();
        // full stream
        let mut st = d.stream().unwrap();
        let mut i = 0;
        while st.advance() { prop_assert!(i < sorted.len()); prop_assert_eq!(st.key(), &sorted[i].0[..]); prop_assert_eq!(st.value(), sorted[i].1); prop_assert_eq!(st.term_ord(), i as u64); i += 1; }
        prop_assert_eq!(i, sorted.len());
        let mut bytes = Vec::new();
        for (i, (k, v)) in sorted.iter().enumerate() {
            prop_assert_eq!(d.get(k).unwrap(), Some(**v));
            prop_assert_eq!(d.term_ord(k).unwrap(), Some(i as u64));
            prop_assert!(d.ord_to_term(i as u64, &mut bytes).unwrap()); prop_assert_eq!(&bytes, *k);
            prop_assert_eq!(d.term_info_from_ord(i as u64).unwrap(), Some(**v));
        }
        prop_assert!(!d.ord_to_term(sorted.len() as u64, &mut bytes).unwrap_or(false), "ord_to_term past end returned true");
        for (a, b, lk, uk, limit) in &probes {
            // point lookups on absent keys
            prop_assert_eq!(d.get(a).unwrap(), model.get(a).cloned(), "get {:?}", a);
            prop_assert_eq!(d.term_ord(a).unwrap(), sorted.iter().position(|(k, _)| *k == a).map(|x| x as u64));
            let hit = d.term_ord_or_next(a).unwrap();
            let pos = sorted.iter().position(|(k, _)| *k >= a);
            match (hit, pos) {
                (TermOrdHit::Exact(o), Some(p)) => { prop_assert!(sorted[p].0 == a && o == p as u64, "exact hit mismatch for {:?}", a); }
                (TermOrdHit::Next(o), Some(p)) => { prop_assert!(sorted[p].0 != a && o == p as u64, "next hit for {:?}: got {} expected {}", a, o, p); }
                (TermOrdHit::Next(_), None) => {}
                (TermOrdHit::Exact(_), None) => prop_assert!(false, "exact hit past the end"),
            }
            // ranges
            let lo: Bound<&Vec<u8>> = match lk { 0 => Bound::Unbounded, 1 => Bound::Included(a), _ => Bound::Excluded(a) };
            let hi: Bound<&Vec<u8>> = match uk { 0 => Bound::Unbounded, 1 => Bound::Included(b), _ => Bound::Excluded(b) };
            let expected: Vec<(Vec<u8>, u64)> = model.iter().filter(|(k, _)| (match lo { Bound::Unbounded => true, Bound::Included(x) => *k >= x, Bound::Excluded(x) => *k > x }) && (match hi { Bound::Unbounded => true, Bound::Included(x) => *k <= x, Bound::Excluded(x) => *k < x })).map(|(k, v)| (k.clone(), *v)).collect();
            if std::env::var("NOINV").is_ok() && *lk != 0 && *uk != 0 && a > b { continue; }
            let mut rb = d.range();
            rb = match lo { Bound::Unbounded => rb, Bound::Included(x) => rb.ge(x), Bound::Excluded(x) => rb.gt(x) };
            rb = match hi { Bound::Unbounded => rb, Bound::Included(x) => rb.le(x), Bound::Excluded(x) => rb.lt(x) };
            if let Some(l) = limit { rb = rb.limit(*l); }
            let mut st = rb.into_stream().unwrap();
            let mut got = vec![];
            while st.advance() { got.push((st.key().to_vec(), *st.value(), st.term_ord())); }
            match limit {
                None => { prop_assert!(got.iter().map(|g| (g.0.clone(), g.1)).collect::<Vec<_>>() == expected, "range {:?}..{:?}: got {} expected {}", lo, hi, got.len(), expected.len()); }
                Some(l) => { let need = (*l as usize).min(expected.len()); prop_assert!(got.len() >= need && got.len() <= expected.len(), "limit {}: got {} of {}", l, got.len(), expected.len()); prop_assert!(got.iter().map(|g| (g.0.clone(), g.1)).collect::<Vec<_>>()[..] == expected[..got.len()], "limited range not a prefix"); }
            }
            for g in &got { prop_assert_eq!(Some(g.2), sorted.iter().position(|(k, _)| **k == g.0).map(|x| x as u64), "term_ord in range stream"); }
            // prefix
            let mut st = d.prefix_range(a).into_stream().unwrap();
            let mut gotp = vec![];
            while st.advance() { gotp.push(st.key().to_vec()); }
            let expp: Vec<Vec<u8>> = model.keys().filter(|k| k.starts_with(a)).cloned().collect();
            prop_assert!(gotp == expp, "prefix {:?}: got {:?} expected {:?}", a, gotp, expp);
        }
        Ok(())
    });
    println!("multi_block_cases={} result={}", multi_block.get(), match res { Ok(()) => "ok".to_string(), Err(e) => format!("{e:?}").chars().take(2500).collect() });
}
