// Throw-away probe for C08: columnar writer -> reader -> merge vs Vec model.
use proptest::prelude::*;
use proptest::test_runner::{Config, RngSeed, TestRunner};
use std::net::Ipv6Addr;
use tantivy::columnar::{ColumnarReader, ColumnarWriter, DynamicColumn, MergeRowOrder, RowAddr, ShuffleMergeOrder, StackMergeOrder, merge_columnar};

#[derive(Clone, Debug, PartialEq)]
enum Num { I(i64), U(u64), F(f64) }
#[derive(Clone, Debug, Default)]
struct Row { n: Vec<Num>, s: Vec<String>, b: Vec<bool>, ip: Vec<u128> }

fn numstrat(kind: u8) -> BoxedStrategy<Num> {
    match kind {
        0 => prop_oneof![3 => (-50i64..50).prop_map(Num::I), 1 => prop::sample::select(vec![i64::MIN, i64::MAX, 0, -1]).prop_map(Num::I)].boxed(),
        1 => prop_oneof![3 => (0u64..100).prop_map(Num::U), 1 => prop::sample::select(vec![u64::MAX, 0, 1u64 << 63, (1u64 << 63) - 1]).prop_map(Num::U), 1 => (0u64..20).prop_map(|x| Num::U(1000 + x * 7))].boxed(),
        2 => prop_oneof![3 => (-50i32..50).prop_map(|x| Num::F(x as f64 / 4.0)), 1 => prop::sample::select(vec![0.0f64, -0.0, f64::INFINITY, f64::NEG_INFINITY, f64::MAX, f64::MIN_POSITIVE]).prop_map(Num::F)].boxed(),
        _ => prop_oneof![(-5i64..50).prop_map(Num::I), (0u64..50).prop_map(Num::U), (0i32..50).prop_map(|x| Num::F(x as f64 / 2.0))].boxed(),
    }
}
fn rowstrat(kind: u8, card: u8) -> impl Strategy<Value = Row> {
    let n = match card { 0 => 1usize..2, 1 => 0usize..2, _ => 0usize..4 };
    (prop::collection::vec(numstrat(kind), n.clone()), prop::collection::vec("[a-c]{0,3}", n.clone()), prop::collection::vec(any::<bool>(), n.clone()), prop::collection::vec(prop_oneof![0u128..5, Just(u128::MAX), Just(0xffff_0a00_0001u128)], n))
        .prop_map(|(n, s, b, ip)| Row { n, s, b, ip })
}
fn tablestrat() -> impl Strategy<Value = Vec<Row>> {
    (0u8..4, 0u8..3, prop_oneof![5 => 0usize..40, 2 => 60usize..70, 1 => 500usize..530]).prop_flat_map(|(k, c, n)| prop::collection::vec(rowstrat(k, c), n..n + 1))
}
fn write(rows: &[Row]) -> Vec<u8> {
    let mut w = ColumnarWriter::default();
    for (i, r) in rows.iter().enumerate() {
        let i = i as u32;
        for v in &r.n { match v { Num::I(x) => w.record_numerical(i, "n", *x), Num::U(x) => w.record_numerical(i, "n", *x), Num::F(x) => w.record_numerical(i, "n", *x) } }
        for v in &r.s { w.record_str(i, "s", v); }
        for v in &r.b { w.record_bool(i, "b", *v); }
        for v in &r.ip { w.record_ip_addr(i, "ip", Ipv6Addr::from(*v)); }
    }
    let mut buf = Vec::new();
    w.serialize(rows.len() as u32, None, &mut buf).unwrap();
    buf
}
fn as_f64(n: &Num) -> f64 { match n { Num::I(x) => *x as f64, Num::U(x) => *x as f64, Num::F(x) => *x } }
fn check(reader: &ColumnarReader, rows: &[Row], what: &str) -> Result<(), String> {
    if reader.num_docs() as usize != rows.len() { return Err(format!("{what}: num_docs {} != {}", reader.num_docs(), rows.len())); }
    // numeric
    let any_n = rows.iter().any(|r| !r.n.is_empty());
    let cols = reader.read_columns("n").map_err(|e| format!("{e:?}"))?;
    if any_n {
        if cols.len() != 1 { return Err(format!("{what}: expected one numeric column, got {}", cols.len())); }
        let col = cols[0].open().map_err(|e| format!("{e:?}"))?;
        let all: Vec<&Num> = rows.iter().flat_map(|r| r.n.iter()).collect();
        let all_i = all.iter().all(|n| match n { Num::I(_) => true, Num::U(x) => *x <= i64::MAX as u64, Num::F(_) => false });
        let all_u = all.iter().all(|n| match n { Num::U(_) => true, Num::I(x) => *x >= 0, Num::F(_) => false });
        for (i, r) in rows.iter().enumerate() {
            match &col {
                DynamicColumn::I64(c) => { if !all_i { return Err(format!("{what}: coerced to i64 although not representable")); } let got: Vec<i64> = c.values_for_doc(i as u32).collect(); let exp: Vec<i64> = r.n.iter().map(|n| match n { Num::I(x) => *x, Num::U(x) => *x as i64, Num::F(_) => unreachable!() }).collect(); if got != exp { return Err(format!("{what}: row {i} i64 {got:?} != {exp:?}")); } if got.iter().any(|v| *v < c.min_value() || *v > c.max_value()) { return Err(format!("{what}: min/max do not bound")); } }
                DynamicColumn::U64(c) => { if !all_u { return Err(format!("{what}: coerced to u64 although not representable")); } let got: Vec<u64> = c.values_for_doc(i as u32).collect(); let exp: Vec<u64> = r.n.iter().map(|n| match n { Num::U(x) => *x, Num::I(x) => *x as u64, Num::F(_) => unreachable!() }).collect(); if got != exp { return Err(format!("{what}: row {i} u64 {got:?} != {exp:?}")); } if got.iter().any(|v| *v < c.min_value() || *v > c.max_value()) { return Err(format!("{what}: min/max do not bound")); } }
                DynamicColumn::F64(c) => {  let got: Vec<u64> = c.values_for_doc(i as u32).map(|x| x.to_bits()).collect(); let exp: Vec<u64> = r.n.iter().map(|n| as_f64(n).to_bits()).collect(); if got != exp { return Err(format!("{what}: row {i} f64 bits {got:?} != {exp:?}")); } }
                other => return Err(format!("{what}: unexpected column {other:?}")),
            }
        }
    }
    // str
    if rows.iter().any(|r| !r.s.is_empty()) {
        let cols = reader.read_columns("s").map_err(|e| format!("{e:?}"))?;
        let Some(DynamicColumn::Str(c)) = cols.iter().map(|h| h.open().unwrap()).find(|c| matches!(c, DynamicColumn::Str(_))) else { return Err(format!("{what}: no str column")); };
        let mut prev: Option<Vec<u8>> = None;
        for ord in 0..c.num_terms() as u64 { let mut b = Vec::new(); c.ord_to_bytes(ord, &mut b).unwrap(); if let Some(p) = &prev { if *p >= b { return Err(format!("{what}: dictionary not strictly sorted")); } } prev = Some(b); }
        for (i, r) in rows.iter().enumerate() {
            let mut got = vec![];
            for ord in c.term_ords(i as u32) { let mut s = String::new(); c.ord_to_str(ord, &mut s).unwrap(); got.push(s); }
            if got != r.s { return Err(format!("{what}: row {i} str {got:?} != {:?}", r.s)); }
        }
        let used: std::collections::BTreeSet<&String> = rows.iter().flat_map(|r| r.s.iter()).collect();
        if c.num_terms() != used.len() { return Err(format!("{what}: dictionary has {} terms, used {}", c.num_terms(), used.len())); }
    }
    if rows.iter().any(|r| !r.b.is_empty()) {
        let cols = reader.read_columns("b").map_err(|e| format!("{e:?}"))?;
        let Some(DynamicColumn::Bool(c)) = cols.iter().map(|h| h.open().unwrap()).find(|c| matches!(c, DynamicColumn::Bool(_))) else { return Err(format!("{what}: no bool column")); };
        for (i, r) in rows.iter().enumerate() { let got: Vec<bool> = c.values_for_doc(i as u32).collect(); if got != r.b { return Err(format!("{what}: row {i} bool {got:?} != {:?}", r.b)); } }
    }
    if rows.iter().any(|r| !r.ip.is_empty()) {
        let cols = reader.read_columns("ip").map_err(|e| format!("{e:?}"))?;
        let Some(DynamicColumn::IpAddr(c)) = cols.iter().map(|h| h.open().unwrap()).find(|c| matches!(c, DynamicColumn::IpAddr(_))) else { return Err(format!("{what}: no ip column")); };
        for (i, r) in rows.iter().enumerate() { let got: Vec<u128> = c.values_for_doc(i as u32).map(u128::from).collect(); if got != r.ip { return Err(format!("{what}: row {i} ip {got:?} != {:?}", r.ip)); } }
    }
    Ok(())
}
fn main() {
    let cases: u32 = std::env::args().nth(1).map(|s| s.parse().unwrap()).unwrap_or(500);
    let seed: u64 = std::env::args().nth(2).map(|s| s.parse().unwrap()).unwrap_or(1);
    let strat = (prop::collection::vec(tablestrat(), 1..4), any::<bool>(), prop::collection::vec(any::<u32>(), 0..2000));
    let cfg = Config { cases, rng_seed: RngSeed::Fixed(seed), failure_persistence: None, max_shrink_iters: 3000, ..Config::default() };
    let mut runner = TestRunner::new(cfg);
    let res = runner.run(&strat, |(tables, shuffle, rnd)| {
        let bufs: Vec<Vec<u8>> = tables.iter().map(|t| write(t)).collect();
        let readers: Vec<ColumnarReader> = bufs.iter().map(|b| ColumnarReader::open(b.clone()).unwrap()).collect();
        for (r, t) in readers.iter().zip(tables.iter()) { check(r, t, "single").map_err(TestCaseError::fail)?; }
        let refs: Vec<&ColumnarReader> = readers.iter().collect();
        let mut out = Vec::new();
        let expected: Vec<Row>;
        if !shuffle {
            merge_columnar(&refs, &[], MergeRowOrder::Stack(StackMergeOrder::stack(&refs)), &mut out).map_err(|e| TestCaseError::fail(format!("merge stack {e:?}")))?;
            expected = tables.iter().flat_map(|t| t.iter().cloned()).collect();
        } else {
            // random subset + permutation
            let mut addrs: Vec<(u32, u32)> = vec![];
            for (ti, t) in tables.iter().enumerate() { for ri in 0..t.len() { addrs.push((ti as u32, ri as u32)); } }
            let mut keyed: Vec<(u32, (u32, u32))> = addrs.into_iter().enumerate().map(|(i, a)| (rnd.get(i).cloned().unwrap_or(i as u32), a)).collect();
            keyed.retain(|(k, _)| k % 4 != 0);
            keyed.sort();
            let alive: Vec<(u32, u32)> = keyed.iter().map(|x| x.1).collect();
            let mut bitsets = vec![];
            for (ti, t) in tables.iter().enumerate() {
                let mut bs = tantivy_common::BitSet::with_max_value(t.len() as u32);
                for (a, r) in &alive { if *a == ti as u32 { bs.insert(*r); } }
                bitsets.push(Some(tantivy_common::ReadOnlyBitSet::from(&bs)));
            }
            let order = ShuffleMergeOrder { new_row_id_to_old_row_id: alive.iter().map(|(s, r)| RowAddr { segment_ord: *s, row_id: *r }).collect(), alive_bitsets: bitsets };
            merge_columnar(&refs, &[], MergeRowOrder::Shuffled(order), &mut out).map_err(|e| TestCaseError::fail(format!("merge shuffle {e:?}")))?;
            expected = alive.iter().map(|(s, r)| tables[*s as usize][*r as usize].clone()).collect();
        }
        let merged = ColumnarReader::open(out).map_err(|e| TestCaseError::fail(format!("open merged {e:?}")))?;
        check(&merged, &expected, if shuffle { "shuffled" } else { "stacked" }).map_err(TestCaseError::fail)?;
        Ok(())
    });
    println!("result={}", match res { Ok(()) => "ok".to_string(), Err(e) => format!("{e:?}").chars().take(2500).collect() });
}
