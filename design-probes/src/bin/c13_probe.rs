// Throw-away probe for C13: call programs on scorers vs advance-only reference.
use proptest::prelude::*;
use proptest::test_runner::{Config, RngSeed, TestRunner};
use std::ops::Bound;
use tantivy::query::*;
use tantivy::schema::*;
use tantivy::{doc, DocSet, Index, IndexWriter, Term, TERMINATED};
use tantivy_common::TinySet;

fn lcg(x: &mut u64) -> u64 { *x = x.wrapping_mul(6364136223846793005).wrapping_add(1442695040888963407); *x >> 33 }

fn main() {
    let cases: u32 = std::env::args().nth(1).map(|s| s.parse().unwrap()).unwrap_or(300);
    let allow_score_after_fill = std::env::var("SCORE_AFTER_FILL").is_ok();
    let allow_danger = std::env::var("NO_DANGER").is_err();
    let mut sb = Schema::builder();
    let body = sb.add_text_field("body", TEXT);
    let num = sb.add_u64_field("num", FAST | INDEXED);
    let tag = sb.add_text_field("tag", STRING | FAST);
    let schema = sb.build();
    let index = Index::create_in_ram(schema);
    let mut w: IndexWriter = index.writer_with_num_threads(1, 50_000_000).unwrap();
    let mut seed = 4242u64;
    let n = 9000u64;
    for i in 0..n {
        let mut words: Vec<String> = vec![];
        if lcg(&mut seed) % 10 < 8 { words.push("a".into()); }
        if i % 3 == 0 { words.push("b".into()); }
        if lcg(&mut seed) % 50 == 0 { words.push("c".into()); }
        if (i / 500) % 2 == 0 { words.push("d".into()); }
        if lcg(&mut seed) % 1000 == 0 { words.push("e".into()); }
        if lcg(&mut seed) % 2 == 0 { words.push("a b".into()); }
        if lcg(&mut seed) % 7 == 0 { words.push(format!("pre{}", lcg(&mut seed) % 5)); }
        words.push("z".into());
        w.add_document(doc!(body=>words.join(" "), num=>lcg(&mut seed) % 100, tag=>format!("t{}", lcg(&mut seed) % 40))).unwrap();
    }
    w.commit().unwrap();
    let searcher = index.reader().unwrap().searcher();
    let tq = |s: &str| -> Box<dyn Query> { Box::new(TermQuery::new(Term::from_field_text(body, s), IndexRecordOption::WithFreqs)) };
    let rq = |lo: u64, hi: u64| -> Box<dyn Query> { Box::new(RangeQuery::new(Bound::Included(Term::from_field_u64(num, lo)), Bound::Included(Term::from_field_u64(num, hi)))) };
    let queries: Vec<(&str, Box<dyn Query>)> = vec![
        ("term a", tq("a")), ("term e", tq("e")),
        ("a|c", Box::new(BooleanQuery::union(vec![tq("a"), tq("c")]))),
        ("c|e|b", Box::new(BooleanQuery::union(vec![tq("c"), tq("e"), tq("b")]))),
        ("a&b", Box::new(BooleanQuery::intersection(vec![tq("a"), tq("b")]))),
        ("a&b&d", Box::new(BooleanQuery::intersection(vec![tq("a"), tq("b"), tq("d")]))),
        ("a&(c|e)", Box::new(BooleanQuery::intersection(vec![tq("a"), Box::new(BooleanQuery::union(vec![tq("c"), tq("e")]))]))),
        ("+a -b", Box::new(BooleanQuery::new(vec![(Occur::Must, tq("a")), (Occur::MustNot, tq("b"))]))),
        ("+a -b -c", Box::new(BooleanQuery::new(vec![(Occur::Must, tq("a")), (Occur::MustNot, tq("b")), (Occur::MustNot, tq("c"))]))),
        ("+d c", Box::new(BooleanQuery::new(vec![(Occur::Must, tq("d")), (Occur::Should, tq("c"))]))),
        ("min2(a,b,c,d)", Box::new(BooleanQuery::with_minimum_required_clauses(vec![(Occur::Should, tq("a")), (Occur::Should, tq("b")), (Occur::Should, tq("c")), (Occur::Should, tq("d"))], 2))),
        ("min3(a,b,c,d)+z", Box::new(BooleanQuery::with_minimum_required_clauses(vec![(Occur::Must, tq("z")), (Occur::Should, tq("a")), (Occur::Should, tq("b")), (Occur::Should, tq("c")), (Occur::Should, tq("d"))], 3))),
        ("phrase a b", Box::new(PhraseQuery::new(vec![Term::from_field_text(body, "a"), Term::from_field_text(body, "b")]))),
        ("phrase b a~2", Box::new({ let mut p = PhraseQuery::new(vec![Term::from_field_text(body, "b"), Term::from_field_text(body, "a")]); p.set_slop(2); p })),
        ("phraseprefix a pr", Box::new(PhrasePrefixQuery::new(vec![Term::from_field_text(body, "a"), Term::from_field_text(body, "pr")]))),
        ("phraseprefix b a pr", Box::new(PhrasePrefixQuery::new(vec![Term::from_field_text(body, "b"), Term::from_field_text(body, "a"), Term::from_field_text(body, "pr")]))),
        ("range 10..20", rq(10, 20)),
        ("a & range", Box::new(BooleanQuery::intersection(vec![tq("a"), rq(0, 5)]))),
        ("range & c", Box::new(BooleanQuery::intersection(vec![rq(0, 50), tq("c")]))),
        ("range | c", Box::new(BooleanQuery::union(vec![rq(0, 3), tq("c")]))),
        ("boost(a|c)", Box::new(BoostQuery::new(Box::new(BooleanQuery::union(vec![tq("a"), tq("c")])), 2.0))),
        ("const(c|e)", Box::new(ConstScoreQuery::new(Box::new(BooleanQuery::union(vec![tq("c"), tq("e")])), 3.0))),
        ("(a&b)|(c&d)", Box::new(BooleanQuery::union(vec![Box::new(BooleanQuery::intersection(vec![tq("a"), tq("b")])), Box::new(BooleanQuery::intersection(vec![tq("c"), tq("d")]))]))),
        ("+z +((a&b)|(c&d))", Box::new(BooleanQuery::intersection(vec![tq("z"), Box::new(BooleanQuery::union(vec![Box::new(BooleanQuery::intersection(vec![tq("a"), tq("b")])), Box::new(BooleanQuery::intersection(vec![tq("c"), tq("d")]))]))]))),
        ("all", Box::new(AllQuery)),
        ("+all -c", Box::new(BooleanQuery::new(vec![(Occur::Must, Box::new(AllQuery)), (Occur::MustNot, tq("c"))]))),
        ("termset", Box::new(TermSetQuery::new(vec![Term::from_field_text(body, "c"), Term::from_field_text(body, "e"), Term::from_field_text(body, "pre1")]))),
        ("regex pre[0-2]", Box::new(RegexQuery::from_pattern("pre[0-2]", body).unwrap())),
        ("fuzzy pre1~1", Box::new(FuzzyTermQuery::new(Term::from_field_text(body, "pre1"), 1, true))),
        ("exists tag", Box::new(ExistsQuery::new("tag".to_string(), false))),
        ("dismax(a,c)", Box::new(DisjunctionMaxQuery::with_tie_breaker(vec![tq("a"), tq("c")], 0.3))),
        ("-c only", Box::new(BooleanQuery::new(vec![(Occur::MustNot, tq("c"))]))),
        ("empty", Box::new(EmptyQuery)),
    ];
    let reader = searcher.segment_reader(0);
    for scoring in [true, false] {
        for (name, q) in &queries {
            let weight = match if scoring { q.weight(EnableScoring::enabled_from_searcher(&searcher)) } else { q.weight(EnableScoring::disabled_from_searcher(&searcher)) } { Ok(w) => w, Err(e) => { println!("scoring={scoring} {name}: weight error {e:?}"); continue; } };
            let single_clause = matches!(*name, "term a" | "term e" | "phrase a b" | "phrase b a~2" | "range 10..20" | "all" | "empty");
            let mut refdocs: Vec<(u32, f32)> = vec![];
            let mut sc = weight.scorer(reader, 1.0).unwrap();
            let mut d = sc.doc();
            while d != TERMINATED { refdocs.push((d, sc.score())); d = sc.advance(); }
            if sc.advance() != TERMINATED || sc.doc() != TERMINATED { println!("scoring={scoring} {name}: TERMINATED not sticky"); }
            let cfg = Config { cases, rng_seed: RngSeed::Fixed(3), failure_persistence: None, max_shrink_iters: 4000, ..Config::default() };
            let mut runner = TestRunner::new(cfg);
            // op: 0 advance, 1 seek(delta), 2 seek same, 3 fill_buffer, 4 seek_danger chain, 5 fill_bitset_block(delta), 6 count_including_deleted (terminal), 7 seek(TERMINATED)
            let ops = prop::collection::vec((prop_oneof![4 => Just(0u8), 4 => Just(1u8), 1 => Just(2u8), 2 => Just(3u8), 2 => Just(4u8), 2 => Just(5u8), 1 => Just(6u8), 1 => Just(7u8)], prop_oneof![0u32..4, 60u32..70, 120u32..135, 1000u32..1100, 4000u32..4200]), 1..40);
            let res = runner.run(&ops, |prog| {
                let mut sc = weight.scorer(reader, 1.0).unwrap();
                let first_ge = |t: u32| refdocs.iter().find(|(d, _)| *d >= t).map(|x| x.0).unwrap_or(TERMINATED);
                let mut score_ok = true;
                for (op, delta) in prog {
                    let cur = sc.doc();
                    prop_assert_eq!(cur, first_ge(cur), "{}: doc() {} not in reference", name, cur);
                    match op {
                        0 => { let nd = sc.advance(); let exp = if cur == TERMINATED { TERMINATED } else { first_ge(cur + 1) }; prop_assert_eq!(nd, exp, "{}: advance from {}", name, cur); score_ok = true; }
                        1 => { let t = cur.saturating_add(delta).min(TERMINATED); let nd = sc.seek(t); prop_assert_eq!(nd, first_ge(t), "{}: seek({}) from {}", name, t, cur); score_ok = true; }
                        2 => { let nd = sc.seek(cur); prop_assert_eq!(nd, cur, "{}: seek(cur)", name); }
                        7 => { let nd = sc.seek(TERMINATED); prop_assert_eq!(nd, TERMINATED); prop_assert_eq!(sc.doc(), TERMINATED); prop_assert_eq!(sc.advance(), TERMINATED); }
                        3 => { let mut buf = [0u32; 64]; let k = sc.fill_buffer(&mut buf); let exp: Vec<u32> = refdocs.iter().filter(|(d, _)| *d >= cur).take(64).map(|x| x.0).collect(); prop_assert!(&buf[..k] == &exp[..], "{}: fill_buffer from {} got {} docs, first diff at {:?}", name, cur, k, buf[..k].iter().zip(exp.iter()).position(|(a, b)| a != b)); if !allow_score_after_fill { score_ok = false; } }
                        5 => {
                            if cur == TERMINATED { continue; }
                            let min_doc = cur + delta.min(3000);
                            let mut mask = [TinySet::empty(); 16];
                            let next = sc.fill_bitset_block(min_doc, &mut mask);
                            let mut got = vec![];
                            for (i, ts) in mask.iter().enumerate() { for b in 0..64u32 { if ts.contains(b) { got.push(min_doc + i as u32 * 64 + b); } } }
                            let exp: Vec<u32> = refdocs.iter().map(|x| x.0).filter(|d| *d >= min_doc && *d < min_doc + 1024).collect();
                            prop_assert!(got == exp, "{}: fill_bitset_block({}) got {} exp {}", name, min_doc, got.len(), exp.len());
                            prop_assert_eq!(next, first_ge(min_doc + 1024), "{}: fill_bitset_block return", name);
                            prop_assert_eq!(sc.doc(), next, "{}: doc after fill_bitset_block", name);
                            score_ok = true;
                        }
                        6 => { let c = sc.count_including_deleted(); let exp = refdocs.iter().filter(|(d, _)| *d >= cur).count() as u32; prop_assert_eq!(c, exp, "{}: count_including_deleted from {}", name, cur); return Ok(()); }
                        _ => {
                            if !allow_danger { continue; }
                            let mut t = cur.saturating_add(delta).min(TERMINATED);
                            loop {
                                let r = format!("{:?}", sc.seek_danger(t));
                                if r == "Found" { prop_assert_eq!(first_ge(t), t, "{}: seek_danger({}) Found but not in ref", name, t); prop_assert_eq!(sc.doc(), t, "{}: doc after Found", name); break; }
                                let lb: u32 = r.trim_start_matches("SeekLowerBound(").trim_end_matches(')').parse().unwrap();
                                prop_assert!(t >= TERMINATED || first_ge(t) != t, "{}: seek_danger({}) missed a present doc", name, t);
                                prop_assert!(lb > t || lb == TERMINATED, "{}: lower bound {} <= target {}", name, lb, t);
                                prop_assert!(lb <= first_ge(t), "{}: seek_danger({}) lower bound {} > true next {}", name, t, lb, first_ge(t));
                                if lb >= TERMINATED { return Ok(()); }
                                t = lb;
                            }
                            score_ok = true;
                        }
                    }
                    if score_ok && sc.doc() != TERMINATED {
                        let s = sc.score();
                        let rs = refdocs.iter().find(|(d, _)| *d == sc.doc()).unwrap().1;
                        if single_clause { prop_assert!(s == rs, "{}: score at {} = {} ref {} (bit-exact expected)", name, sc.doc(), s, rs); }
                        else { prop_assert!((s - rs).abs() <= 1e-5 * rs.abs().max(1.0), "{}: score at {} = {} ref {}", name, sc.doc(), s, rs); }
                    }
                }
                Ok(())
            });
            match res { Ok(()) => println!("scoring={scoring} {name}: ok ({} docs)", refdocs.len()), Err(e) => { let m = format!("{e:?}"); let n = m.len(); println!("scoring={scoring} {name}: FAIL {} ... {}", &m[..300.min(n)], &m[n.saturating_sub(300)..]) } }
        }
    }
}
