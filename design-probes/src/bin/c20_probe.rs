// Throw-away probe for C20: every bit flip / truncation of every segment file must be detected.
use std::collections::HashSet;
use std::path::PathBuf;
use tantivy::directory::{Directory, RamDirectory};
use tantivy::schema::*;
use tantivy::{doc, Index, IndexWriter, Term};

fn main() {
    let mut sb = Schema::builder();
    let id = sb.add_u64_field("id", FAST | INDEXED | STORED);
    let body = sb.add_text_field("body", TEXT | STORED);
    let dir = RamDirectory::create();
    let index = Index::create(dir.clone(), sb.build(), Default::default()).unwrap();
    let mut w: IndexWriter = index.writer_with_num_threads(1, 15_000_000).unwrap();
    w.set_merge_policy(Box::new(tantivy::merge_policy::NoMergePolicy));
    for c in 0..2u64 { for i in 0..6u64 { w.add_document(doc!(id=>c * 10 + i, body=>format!("hello w{} w{}", i % 3, c))).unwrap(); } w.commit().unwrap(); }
    w.delete_term(Term::from_field_u64(id, 3)); w.commit().unwrap();
    drop(w);
    assert!(index.validate_checksum().unwrap().is_empty());
    let files: Vec<PathBuf> = index.searchable_segment_metas().unwrap().iter().flat_map(|m| m.list_files()).filter(|p| dir.exists(p).unwrap()).collect();
    println!("{} files", files.len());
    let (mut flips, mut undetected, mut wrong_report, mut errs) = (0usize, 0usize, 0usize, 0usize);
    let (mut truncs, mut trunc_undetected) = (0usize, 0usize);
    let mut panics: std::collections::BTreeSet<usize> = Default::default();
    std::panic::set_hook(Box::new(|_| {}));
    for f in &files {
        let orig = dir.atomic_read(f).unwrap();
        // footer: [json][len u32][magic u32]
        let flen = u32::from_le_bytes(orig[orig.len() - 8..orig.len() - 4].try_into().unwrap()) as usize;
        let body_len = orig.len() - 8 - flen;
        for bit in 0..body_len * 8 {
            let d2 = dir.deep_clone();
            let mut dam = orig.clone(); dam[bit / 8] ^= 1 << (bit % 8);
            d2.atomic_write(f, &dam).unwrap();
            let ix = Index::open(d2).unwrap();
            flips += 1;
            match ix.validate_checksum() { Ok(set) => { let exp: HashSet<PathBuf> = [f.clone()].into_iter().collect(); if set.is_empty() { undetected += 1; } else if set != exp { wrong_report += 1; } } Err(_) => errs += 1 }
        }
        // truncations of the body keeping the footer
        for cut in 0..body_len {
            let d2 = dir.deep_clone();
            let mut dam = orig[..cut].to_vec(); dam.extend_from_slice(&orig[body_len..]);
            d2.atomic_write(f, &dam).unwrap();
            truncs += 1;
            match Index::open(d2).unwrap().validate_checksum() { Ok(set) => { if !set.contains(f) { trunc_undetected += 1; if trunc_undetected < 4 { println!("undetected truncation of {f:?} body {body_len} -> {cut}"); } } } Err(_) => {} }
        }
        // whole-file truncation
        for cut in 0..orig.len() {
            let d2 = dir.deep_clone();
            d2.atomic_write(f, &orig[..cut]).unwrap();
            truncs += 1;
            let ix = Index::open(d2).unwrap();
            match std::panic::catch_unwind(std::panic::AssertUnwindSafe(|| ix.validate_checksum())) { Err(_) => { panics.insert(cut); } Ok(Ok(set)) => { if !set.contains(f) { trunc_undetected += 1; if trunc_undetected < 8 { println!("undetected whole-file truncation of {f:?} len {} -> {cut}", orig.len()); } } } Ok(Err(_)) => {} }
        }
        println!("{f:?}: body {body_len} bytes, footer {flen}");
    }
    println!("panics at whole-file truncation lengths {panics:?}"); println!("bit flips={flips} undetected={undetected} wrong_report={wrong_report} errors={errs}; truncations={truncs} undetected={trunc_undetected}");
}
