use std::collections::BTreeMap;
use std::ops::Bound;
use tantivy::collector::{Count, DocSetCollector};
use tantivy::query::*;
use tantivy::schema::*;
use tantivy::snippet::SnippetGenerator;
use tantivy::tokenizer::{NgramTokenizer, TextAnalyzer};
use tantivy::{doc, Index, IndexWriter, TantivyDocument, Term};
fn main() {
    // 10 grammar
    for q in ["+ *", "- *", "a AND  *", "f:*", "*"] { let r = std::panic::catch_unwind(|| tantivy::query_grammar::parse_query(q).map(|a| format!("{a:?}")).map_err(|_| "Err")); println!("parse {q:?}: {r:?}"); }
    // 12 snippet ngram
    let mut terms = BTreeMap::new(); terms.insert(" ".to_string(), 1.0f32); terms.insert("  ".to_string(), 1.0); terms.insert("  a".to_string(), 1.0);
    let g = SnippetGenerator::new(terms, TextAnalyzer::from(NgramTokenizer::all_ngrams(1, 3).unwrap()), Field::from_field_id(0), 2);
    let r = std::panic::catch_unwind(std::panic::AssertUnwindSafe(|| { let s = g.snippet("  a"); (s.fragment().to_string(), s.to_html()) })); println!("snippet ngram: {r:?}");
    // 9 json range
    let mut sb = Schema::builder(); let j = sb.add_json_field("j", FAST | STORED); let t = sb.add_text_field("t", STRING); let schema = sb.build();
    let index = Index::create_in_ram(schema.clone()); let mut w: IndexWriter = index.writer_with_num_threads(1, 15_000_000).unwrap();
    for v in [-3i64, -2, 2, 3] { w.add_document(TantivyDocument::parse_json(&schema, &format!(r#"{{"j": {{"a": {v}}}, "t": "x"}}"#)).unwrap()).unwrap(); }
    w.commit().unwrap();
    let s = index.reader().unwrap().searcher();
    let mk = |x: f64| { let mut t = Term::from_field_json_path(j, "a", false); t.append_type_and_fast_value(x); t };
    println!("a>=2.5 -> {} (expect 1); a<=-2.5 -> {} (expect 1); -2.5<=a<=2.5 -> {} (expect 2)", s.search(&RangeQuery::new(Bound::Included(mk(2.5)), Bound::Unbounded), &Count).unwrap(), s.search(&RangeQuery::new(Bound::Unbounded, Bound::Included(mk(-2.5))), &Count).unwrap(), s.search(&RangeQuery::new(Bound::Included(mk(-2.5)), Bound::Included(mk(2.5))), &Count).unwrap());
    // 3 boolean shortcut
    let q = BooleanQuery::with_minimum_required_clauses(vec![(Occur::Should, Box::new(TermQuery::new(Term::from_field_text(t, "x"), IndexRecordOption::Basic)) as Box<dyn Query>)], 2);
    println!("single should min=2: count={} docset={}", s.search(&q, &Count).unwrap(), s.search(&q, &DocSetCollector).unwrap().len());
    let q = BooleanQuery::with_minimum_required_clauses(vec![(Occur::Must, Box::new(TermQuery::new(Term::from_field_text(t, "x"), IndexRecordOption::Basic)) as Box<dyn Query>)], 1);
    println!("single must min=1: count={} docset={}", s.search(&q, &Count).unwrap(), s.search(&q, &DocSetCollector).unwrap().len());
    // 1 commit_opstamp
    let c = w.commit().unwrap(); println!("commit returned {c}, commit_opstamp()={}", w.commit_opstamp());
}
