// Throw-away probe for C01/C10: crash images at every op boundary, several persistence outcomes,
// recovery + new commit + GC + no-orphan predicate.
use scratch::*;
use std::collections::{BTreeMap, BTreeSet};
use std::sync::Arc;
use tantivy::collector::DocSetCollector;
use tantivy::query::AllQuery;
use tantivy::schema::*;
use tantivy::{doc, Index, IndexWriter, Term};

fn lcg(x: &mut u64) -> u64 { *x = x.wrapping_mul(6364136223846793005).wrapping_add(1442695040888963407); *x >> 33 }
fn ids_of(index: &Index) -> Result<Vec<u64>, String> {
    let reader: tantivy::IndexReader = index.reader_builder().reload_policy(tantivy::ReloadPolicy::Manual).try_into().map_err(|e: tantivy::TantivyError| format!("reader {e:?}"))?;
    let s = reader.searcher();
    let mut ids = vec![];
    for a in s.search(&AllQuery, &DocSetCollector).map_err(|e| format!("{e:?}"))? { ids.push(s.segment_reader(a.segment_ord).fast_fields().u64("id").map_err(|e| format!("{e:?}"))?.first(a.doc_id).ok_or("noid")?); }
    ids.sort();
    Ok(ids)
}
fn image_simdir(r: &Replay, mask: &dyn Fn(usize) -> bool, data_mode: u8, seed: &mut u64) -> SimDir {
    let mut durable = r.durable.clone();
    let mut atomic = r.atomic_durable.clone();
    for (i, p) in r.pending.iter().enumerate() { if mask(i) { apply(&mut durable, &mut atomic, p); } }
    let d = SimDir::new();
    let mut st = d.st.lock().unwrap();
    for (path, is_atomic) in durable.iter() {
        let content: Vec<u8> = if *is_atomic { atomic[path].clone() } else {
            let f = &r.data[path];
            match data_mode { 0 => f.written[..f.synced].to_vec(), 1 => f.written.clone(), _ => { let extra = f.written.len() - f.synced; let k = if extra == 0 { 0 } else { (lcg(seed) as usize) % (extra + 1) }; f.written[..f.synced + k].to_vec() } }
        };
        st.files.insert(path.clone(), Arc::new(content));
    }
    drop(st);
    d
}
fn check(dir: SimDir, acceptable: &[usize], models: &[Vec<u64>]) -> Result<(), (String, String)> {
    let index = Index::open(dir.clone()).map_err(|e| ("open".to_string(), format!("{e:?}")))?;
    let meta = index.load_metas().map_err(|e| ("load_metas".to_string(), format!("{e:?}")))?;
    let j: usize = meta.payload.as_deref().map(|p| p[1..].parse().unwrap()).unwrap_or(0);
    if !acceptable.contains(&j) { return Err(("wrong_commit".into(), format!("recovered {j} acceptable {acceptable:?}"))); }
    match index.validate_checksum() { Ok(d) if d.is_empty() => {}, other => return Err(("checksum".into(), format!("{other:?}"))) }
    let ids = ids_of(&index).map_err(|e| ("search".to_string(), e))?;
    if ids != models[j] { return Err(("content".into(), format!("commit {j}: {ids:?} vs {:?}", models[j]))); }
    let mut w: IndexWriter = index.writer_with_num_threads(1, 15_000_000).map_err(|e| ("new_writer".to_string(), format!("{e:?}")))?;
    w.set_merge_policy(Box::new(tantivy::merge_policy::NoMergePolicy));
    w.add_document(doc!(index.schema().get_field("id").unwrap() => 777_777u64)).map_err(|e| ("add".to_string(), format!("{e:?}")))?;
    w.commit().map_err(|e| ("new_commit".to_string(), format!("{e:?}")))?;
    w.garbage_collect_files().wait().map_err(|e| ("gc".to_string(), format!("{e:?}")))?;
    let mut exp = models[j].clone(); exp.push(777_777);
    let ids = ids_of(&index).map_err(|e| ("search2".to_string(), e))?;
    if ids != exp { return Err(("content_after_commit".into(), format!("{ids:?} vs {exp:?}"))); }
    // no-orphan predicate
    let present: BTreeSet<String> = dir.st.lock().unwrap().files.keys().map(|p| p.to_str().unwrap().to_string()).filter(|p| !p.starts_with('.')).collect();
    let mut expected: BTreeSet<String> = index.searchable_segment_metas().unwrap().iter().flat_map(|m| m.list_files()).map(|p| p.to_str().unwrap().to_string()).filter(|p| present.contains(p)).collect();
    expected.insert("meta.json".into());
    let orphans: Vec<&String> = present.difference(&expected).collect();
    if !orphans.is_empty() { let managed = index.directory().list_managed_files(); let unmanaged = orphans.iter().filter(|p| !managed.contains(&std::path::PathBuf::from(p.to_string()))).count(); return Err((if unmanaged > 0 { "orphan_unmanaged".into() } else { "orphan_managed".into() }, format!("{orphans:?}"))); }
    Ok(())
}
fn main() {
    let histories: usize = std::env::args().nth(1).map(|s| s.parse().unwrap()).unwrap_or(3);
    let mut seed = 2024u64;
    let mut classes: BTreeMap<String, (usize, String)> = BTreeMap::new();
    let mut images = 0usize;
    let t0 = std::time::Instant::now();
    for h in 0..histories {
        let mut sb = Schema::builder();
        let id = sb.add_u64_field("id", FAST | INDEXED | STORED);
        let body = sb.add_text_field("body", TEXT | STORED);
        let dir = SimDir::new();
        let index = Index::create(dir.clone(), sb.build(), Default::default()).unwrap();
        let mut w: IndexWriter = index.writer_with_num_threads(1 + h % 2, 15_000_000 * (1 + h % 2)).unwrap();
        let created_at = dir.log_len();
        let mut models: Vec<Vec<u64>> = vec![vec![]];
        let mut live: Vec<u64> = vec![]; let mut next = 0u64;
        let mut acks: Vec<(usize, usize, usize)> = vec![];
        for c in 1..=5usize {
            if lcg(&mut seed) % 4 == 0 { w.add_document(doc!(id=>900_000 + next, body=>"x")).unwrap(); w.rollback().unwrap(); }
            for _ in 0..(1 + lcg(&mut seed) % 5) { w.add_document(doc!(id=>next, body=>format!("hello w{}", next % 3))).unwrap(); live.push(next); next += 1; }
            if lcg(&mut seed) % 2 == 0 && !live.is_empty() { let v = live.remove((lcg(&mut seed) as usize) % live.len()); w.delete_term(Term::from_field_u64(id, v)); }
            let start = dir.log_len();
            let mut pc = w.prepare_commit().unwrap(); pc.set_payload(&format!("c{c}")); pc.commit().unwrap();
            let end = dir.log_len();
            models.push(live.clone()); acks.push((c, start, end));
            if lcg(&mut seed) % 3 == 0 { let segs = index.searchable_segment_ids().unwrap(); if segs.len() >= 2 { let _ = w.merge(&segs).wait(); } }
        }
        w.wait_merging_threads().unwrap();
        let log = dir.st.lock().unwrap().log.clone();
        for b in created_at..=log.len() {
            let last_acked = acks.iter().filter(|(_, _, end)| *end <= b).map(|(c, _, _)| *c).max().unwrap_or(0);
            let mut acceptable = vec![last_acked];
            for (c, start, end) in &acks { if *start <= b && b < *end { acceptable.push(*c); } }
            let r = replay(&log[..b]);
            let np = r.pending.len();
            let rnd_mask: Vec<bool> = (0..np).map(|_| lcg(&mut seed) % 2 == 0).collect();
            let prefix = if np == 0 { 0 } else { (lcg(&mut seed) as usize) % (np + 1) };
            let variants: Vec<(&str, Box<dyn Fn(usize) -> bool>, u8)> = vec![
                ("MIN", Box::new(|_| false), 0), ("MAX", Box::new(|_| true), 1), ("ORDERED", Box::new(move |i| i < prefix), 2),
                ("INDEP", Box::new(move |i| rnd_mask[i]), 2),
            ];
            for (name, mask, dm) in variants {
                images += 1;
                let img = image_simdir(&r, &*mask, dm, &mut seed);
                if let Err((class, detail)) = check(img, &acceptable, &models) {
                    let thread = if b > 0 { log[b - 1].thread.clone() } else { String::new() };
                    classes.entry(format!("{name}:{class}")).and_modify(|e| e.0 += 1).or_insert((1, format!("history {h} b={b} after {:?} {:?} by {thread}: {}", log.get(b.wrapping_sub(1)).map(|o| o.kind), log.get(b.wrapping_sub(1)).map(|o| o.path.clone()), detail.chars().take(200).collect::<String>())));
                }
            }
        }
    }
    println!("histories={histories} images={images} elapsed={:?}", t0.elapsed());
    for (k, (n, first)) in &classes { println!("{n:6} {k}\n         first: {first}"); }
    if classes.is_empty() { println!("all images recovered correctly"); }
}
