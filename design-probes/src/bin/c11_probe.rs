// Throw-away probe for C11: fault injection at op k, each case in a child process.
use scratch::*;
use std::process::Command;
use std::time::{Duration, Instant};
use tantivy::collector::DocSetCollector;
use tantivy::directory::Directory;
use tantivy::query::AllQuery;
use tantivy::schema::*;
use tantivy::{doc, Index, IndexWriter, Term};

fn ids_of(index: &Index) -> Result<Vec<u64>, String> {
    let reader = index.reader().map_err(|e| format!("reader: {e:?}"))?;
    let s = reader.searcher();
    let hits = s.search(&AllQuery, &DocSetCollector).map_err(|e| format!("search: {e:?}"))?;
    let mut ids = vec![];
    for a in hits {
        let col = s.segment_reader(a.segment_ord).fast_fields().u64("id").map_err(|e| format!("{e:?}"))?;
        ids.push(col.first(a.doc_id).ok_or("no id")?);
    }
    ids.sort();
    Ok(ids)
}
fn kinds_of(code: usize) -> Vec<K> {
    match code { 0 => vec![], 1 => vec![K::Create], 2 => vec![K::Append], 3 => vec![K::Terminate, K::Flush], 4 => vec![K::AtomicWrite], 5 => vec![K::SyncDir], 6 => vec![K::Delete], 7 => vec![K::OpenRead, K::AtomicRead], _ => vec![] }
}
fn child(nth: usize, kcode: usize, permanent: bool) -> i32 {
    let mut sb = Schema::builder();
    let id = sb.add_u64_field("id", FAST | INDEXED | STORED);
    let body = sb.add_text_field("body", TEXT | STORED);
    let dir = SimDir::new();
    let index = Index::create(dir.clone(), sb.build(), Default::default()).unwrap();
    let mut w: IndexWriter = index.writer_with_num_threads(2, 30_000_000).unwrap();
    let mut states: Vec<Vec<u64>> = vec![vec![]];
    let mut live: Vec<u64> = vec![];
    for i in 0..10u64 { w.add_document(doc!(id=>i, body=>"hello world")).unwrap(); live.push(i); }
    let mut pc = w.prepare_commit().unwrap(); pc.set_payload("c1"); pc.commit().unwrap();
    states.push(live.clone());
    let mut last_ok = 1usize;
    let mut failed_commits: Vec<usize> = vec![];
    let mut trace: Vec<String> = vec![];
    dir.set_fault(Some(FaultPlan { nth, kinds: kinds_of(kcode), permanent }));
    // phase B
    let mut writer_alive = true;
    for c in 2..=4usize {
        let base = (c as u64) * 10;
        for i in 0..8u64 {
            if writer_alive { match w.add_document(doc!(id=>base + i, body=>"hello again")) { Ok(_) => { live.push(base + i); } Err(e) => { trace.push(format!("add err {}", format!("{e:?}").chars().take(60).collect::<String>())); writer_alive = false; } } }
        }
        if writer_alive { let v = live.remove(0); w.delete_term(Term::from_field_u64(id, v)); }
        if !writer_alive { break; }
        match w.prepare_commit() {
            Ok(mut pc) => { pc.set_payload(&format!("c{c}")); match pc.commit() { Ok(_) => { states.push(live.clone()); last_ok = c; trace.push(format!("commit{c} ok")); } Err(e) => { states.push(live.clone()); failed_commits.push(c); trace.push(format!("commit{c} err {}", format!("{e:?}").chars().take(80).collect::<String>())); writer_alive = false; } } }
            Err(e) => { states.push(live.clone()); failed_commits.push(c); trace.push(format!("prepare{c} err {}", format!("{e:?}").chars().take(80).collect::<String>())); writer_alive = false; }
        }
        if writer_alive && c == 3 {
            let segs = index.searchable_segment_ids().unwrap_or_default();
            if segs.len() >= 2 { match w.merge(&segs).wait() { Ok(_) => trace.push("merge ok".into()), Err(e) => trace.push(format!("merge err {}", format!("{e:?}").chars().take(60).collect::<String>())) } }
        }
        if writer_alive { match ids_of(&index) { Ok(ids) => { if ids != states[last_ok] { println!("VIOLATION reader saw {ids:?} after commit {last_ok}, expected {:?}", states[last_ok]); return 3; } } Err(e) => trace.push(format!("reload err {}", e.chars().take(60).collect::<String>())) } }
    }
    let fired = dir.st.lock().unwrap().faults_fired;
    // after an Ok commit, the durable image must hold it (checked at the end for the last ok commit)
    dir.set_fault(None);
    if writer_alive { let _ = w.rollback(); }
    drop(w);
    // recovery on same storage
    let index2 = match Index::open(dir.clone()) { Ok(i) => i, Err(e) => { println!("VIOLATION reopen failed: {e:?} trace={trace:?}"); return 3; } };
    let meta = index2.load_metas().unwrap();
    let j: usize = meta.payload.as_deref().map(|p| p[1..].parse().unwrap()).unwrap_or(0);
    if !(j == last_ok || failed_commits.contains(&j) && j > last_ok) { println!("VIOLATION recovered commit {j}, last_ok {last_ok}, failed {failed_commits:?} trace={trace:?}"); return 3; }
    match ids_of(&index2) { Ok(ids) => { if ids != states[j] { println!("VIOLATION recovered content {ids:?} != state {j} {:?} trace={trace:?}", states[j]); return 3; } } Err(e) => { println!("VIOLATION recovered index unreadable: {e} trace={trace:?}"); return 3; } }
    match index2.validate_checksum() { Ok(d) if d.is_empty() => {}, other => { println!("VIOLATION checksum {other:?}"); return 3; } }
    // durable image of last ok commit
    let log = dir.st.lock().unwrap().log.clone();
    let r = replay(&log);
    let img = image(&r, &|_| false, false);
    match Index::open(img) { Ok(ix) => { let jj: usize = ix.load_metas().unwrap().payload.as_deref().map(|p| p[1..].parse().unwrap()).unwrap_or(0); if jj < last_ok { println!("KNOWN6 durable image has commit {jj} < last ok {last_ok}"); } else { match ids_of(&ix) { Ok(ids) if ids == states[jj] => {}, other => { println!("VIOLATION durable image content {other:?} vs state {jj}"); return 3; } } } } Err(e) => { println!("VIOLATION durable image unopenable {e:?}"); return 3; } }
    // new writer continues
    let mut w2: IndexWriter = match index2.writer_with_num_threads(1, 15_000_000) { Ok(w) => w, Err(e) => { println!("VIOLATION cannot create new writer: {e:?} trace={trace:?}"); return 3; } };
    w2.add_document(doc!(id=>999u64, body=>"new")).unwrap();
    if let Err(e) = w2.commit() { println!("VIOLATION new writer commit failed {e:?}"); return 3; }
    let mut exp = states[j].clone(); exp.push(999);
    match ids_of(&index2) { Ok(ids) if ids == exp => {}, other => { println!("VIOLATION after new commit {other:?} expected {exp:?}"); return 3; } }
    println!("OK fired={fired} last_ok={last_ok} recovered={j} trace={}", trace.join("; "));
    let _ = dir.exists(std::path::Path::new("meta.json"));
    0
}
fn main() {
    let args: Vec<String> = std::env::args().collect();
    if args.get(1).map(|s| s.as_str()) == Some("child") {
        let code = child(args[2].parse().unwrap(), args[3].parse().unwrap(), args[4] == "1");
        std::process::exit(code);
    }
    let exe = std::env::current_exe().unwrap();
    let maxn: usize = args.get(1).map(|s| s.parse().unwrap()).unwrap_or(120);
    let mut summary: std::collections::BTreeMap<String, usize> = Default::default();
    let t0 = Instant::now();
    let mut shown = 0;
    for kcode in 0..8usize {
        for permanent in [false, true] {
            let mut nofire = 0;
            for nth in 0..maxn {
                let mut ch = Command::new(&exe).args(["child", &nth.to_string(), &kcode.to_string(), if permanent { "1" } else { "0" }]).stdout(std::process::Stdio::piped()).stderr(std::process::Stdio::piped()).spawn().unwrap();
                let start = Instant::now();
                let status = loop { if let Some(s) = ch.try_wait().unwrap() { break Some(s); } if start.elapsed() > Duration::from_secs(20) { let _ = ch.kill(); break None; } std::thread::sleep(Duration::from_millis(5)); };
                let out = ch.wait_with_output().unwrap();
                let so = String::from_utf8_lossy(&out.stdout).to_string();
                let se = String::from_utf8_lossy(&out.stderr).to_string();
                let class = match status { None => "HANG".to_string(), Some(s) if s.success() => { if so.contains("fired=0") { nofire += 1; "ok-nofire".into() } else if so.contains("KNOWN6") { "ok+known6".into() } else { "ok".into() } }, Some(s) => { if so.contains("VIOLATION") { format!("VIOLATION:{}", so.lines().find(|l| l.contains("VIOLATION")).unwrap_or("").chars().take(60).collect::<String>()) } else { format!("CRASH:{:?}:{}", s.code(), se.lines().filter(|l| l.contains("panicked") || l.contains("abort")).next().unwrap_or("").chars().take(100).collect::<String>()) } } };
                if !class.starts_with("ok") && shown < 25 { shown += 1; println!("k={kcode} perm={permanent} nth={nth}: {class}\n    stdout: {}\n    stderr: {}", so.lines().last().unwrap_or("").chars().take(400).collect::<String>(), se.lines().filter(|l| l.contains("panicked")).take(2).collect::<Vec<_>>().join(" | ").chars().take(300).collect::<String>()); }
                *summary.entry(class).or_default() += 1;
                if nofire >= 2 { break; }
            }
        }
    }
    println!("elapsed {:?}", t0.elapsed());
    for (k, v) in summary { println!("{v:6}  {k}"); }
}
