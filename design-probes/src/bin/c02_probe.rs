// Throw-away probe for C02: histories vs sequential model.
use proptest::prelude::*;
use proptest::test_runner::{Config, RngSeed, TestRunner};
use std::collections::BTreeMap;
use tantivy::collector::DocSetCollector;
use scratch::SimDir;
use std::collections::BTreeSet;
use tantivy::indexer::UserOperation;
use tantivy::query::AllQuery;
use tantivy::schema::*;
use tantivy::{doc, Index, IndexWriter, TantivyDocument, Term};

#[derive(Clone, Debug)]
enum Op {
    Add(u8),              // group
    DelUid(usize),        // index into previously added uids
    DelGroup(u8),
    Batch(Vec<(bool, u8)>), // (is_add, group or delgroup)
    Commit,
    PrepareAbort,
    Rollback,
    MergeAll,
    Reopen,
}
fn opstrat() -> impl Strategy<Value = Op> {
    prop_oneof![
        10 => (0u8..4).prop_map(Op::Add),
        3 => (0usize..1000).prop_map(Op::DelUid),
        2 => (0u8..4).prop_map(Op::DelGroup),
        2 => prop::collection::vec((any::<bool>(), 0u8..4), 0..5).prop_map(Op::Batch),
        4 => Just(Op::Commit),
        1 => Just(Op::PrepareAbort),
        1 => Just(Op::Rollback),
        1 => Just(Op::MergeAll),
        1 => Just(Op::Reopen),
    ]
}
type Model = BTreeMap<u64, u8>; // uid -> group

fn content(index: &Index) -> Result<Vec<(u64, u8)>, String> {
    let reader: tantivy::IndexReader = index.reader_builder().reload_policy(tantivy::ReloadPolicy::Manual).try_into().map_err(|e: tantivy::TantivyError| format!("{e:?}"))?;
    let s = reader.searcher();
    let mut out = vec![];
    for a in s.search(&AllQuery, &DocSetCollector).map_err(|e| format!("{e:?}"))? {
        let d: TantivyDocument = s.doc(a).map_err(|e| format!("{e:?}"))?;
        let uid = d.get_first(index.schema().get_field("uid").unwrap()).and_then(|v| v.as_u64()).ok_or("no uid")?;
        let grp = d.get_first(index.schema().get_field("grp").unwrap()).and_then(|v| v.as_str().map(|s| s.to_string())).ok_or("no grp")?;
        let ff = s.segment_reader(a.segment_ord).fast_fields().u64("uid").unwrap().first(a.doc_id).unwrap();
        if ff != uid { return Err(format!("fast field {ff} != stored {uid}")); }
        out.push((uid, grp[1..].parse::<u8>().unwrap()));
    }
    out.sort();
    Ok(out)
}

fn main() {
    let cases: u32 = std::env::args().nth(1).map(|s| s.parse().unwrap()).unwrap_or(200);
    let seed: u64 = std::env::args().nth(2).map(|s| s.parse().unwrap()).unwrap_or(1);
    let strat = (prop::collection::vec(opstrat(), 1..50), 1usize..5, any::<bool>());
    let cfg = Config { cases, rng_seed: RngSeed::Fixed(seed), failure_persistence: None, max_shrink_iters: 3000, ..Config::default() };
    let mut runner = TestRunner::new(cfg);
    let ncommits = std::cell::Cell::new(0usize);
    let retries = std::cell::Cell::new(0usize);
    let burn = std::env::args().nth(3).is_some();
    let res = runner.run(&strat, |(ops, threads, default_policy)| {
        let mut sb = Schema::builder();
        let uidf = sb.add_u64_field("uid", FAST | INDEXED | STORED);
        let grpf = sb.add_text_field("grp", STRING | STORED);
        let simdir = SimDir::new();
        let sorted = std::env::var("SORTED").is_ok();
        let settings = if sorted { tantivy::IndexSettings { sort_by_field: Some(tantivy::IndexSortByField { field: "uid".into(), order: tantivy::Order::Desc }), ..Default::default() } } else { Default::default() };
        let index = Index::create(simdir.clone(), sb.build(), settings).unwrap();
        let mk = |index: &Index| -> IndexWriter { let w: IndexWriter = index.writer_with_num_threads(threads, 15_000_000 * threads).unwrap(); if !default_policy { w.set_merge_policy(Box::new(tantivy::merge_policy::NoMergePolicy)); } if burn { w.run(Vec::<UserOperation>::new()).unwrap(); } w };
        let mut w = Some(mk(&index));
        let mut committed: Model = Model::new();
        let mut pending: Model = Model::new();
        let mut next_uid = 0u64;
        let mut all_uids: Vec<u64> = vec![];
        let mut last_op = 0u64;
        for op in &ops {
            let wr = w.as_mut().unwrap();
            match op {
                Op::Add(g) => {
                    let o = wr.add_document(doc!(uidf=>next_uid, grpf=>format!("g{g}"))).unwrap();
                    prop_assert!(o >= last_op, "opstamp went backwards {} < {}", o, last_op); last_op = o;
                    pending.insert(next_uid, *g); all_uids.push(next_uid); next_uid += 1;
                }
                Op::DelUid(i) => { if !all_uids.is_empty() { let u = all_uids[i % all_uids.len()]; let o = wr.delete_term(Term::from_field_u64(uidf, u)); prop_assert!(o >= last_op); last_op = o; pending.remove(&u); } }
                Op::DelGroup(g) => { let o = wr.delete_term(Term::from_field_text(grpf, &format!("g{g}"))); prop_assert!(o >= last_op); last_op = o; pending.retain(|_, gg| gg != g); }
                Op::Batch(items) => {
                    let mut uops = vec![];
                    for (is_add, g) in items {
                        if *is_add { uops.push(UserOperation::Add(doc!(uidf=>next_uid, grpf=>format!("g{g}")))); pending.insert(next_uid, *g); all_uids.push(next_uid); next_uid += 1; }
                        else { uops.push(UserOperation::Delete(Term::from_field_text(grpf, &format!("g{g}")))); pending.retain(|_, gg| gg != g); }
                    }
                    let o = wr.run(uops).unwrap(); prop_assert!(o >= last_op); last_op = o;
                }
                Op::Commit => {
                    let o = wr.commit().map_err(|e| TestCaseError::fail(format!("commit: {e:?}")))?;
                    prop_assert!(o >= last_op, "commit opstamp {} < last op {}", o, last_op); last_op = o;
                    prop_assert_eq!(index.load_metas().unwrap().opstamp, o);
                    committed = pending.clone();
                    ncommits.set(ncommits.get() + 1);
                    let got = content(&index).map_err(TestCaseError::fail)?;
                    let exp: Vec<(u64, u8)> = committed.iter().map(|(k, v)| (*k, *v)).collect();
                    prop_assert!(got == exp, "after commit: got {:?} expected {:?}", got, exp);
                    if !default_policy {
                        wr.garbage_collect_files().wait().unwrap();
                        for attempt in 0..6 {
                        let present: BTreeSet<String> = simdir.st.lock().unwrap().files.keys().map(|p| p.to_str().unwrap().to_string()).filter(|p| !p.starts_with('.')).collect();
                        let mut expected: BTreeSet<String> = index.searchable_segment_metas().unwrap().iter().flat_map(|m| m.list_files()).map(|p| p.to_str().unwrap().to_string()).filter(|p| present.contains(p) || !(p.ends_with(".del") || p.ends_with(".store.temp"))).collect();
                        expected.insert("meta.json".to_string());
                        let orphans: Vec<&String> = present.difference(&expected).collect();
                        let missing: Vec<&String> = expected.difference(&present).collect();
                        let temp: Vec<&String> = present.iter().filter(|p| p.ends_with(".store.temp")).collect();
                        if !(orphans.is_empty() && missing.is_empty() && temp.is_empty()) && attempt < 5 { retries.set(retries.get() + 1); std::thread::sleep(std::time::Duration::from_millis(40)); wr.garbage_collect_files().wait().unwrap(); continue; }
                        prop_assert!(orphans.is_empty() && missing.is_empty() && temp.is_empty(), "quiescence (after {} retries): orphans={:?} missing={:?} temp={:?}", attempt, orphans, missing, temp);
                        let managed: BTreeSet<String> = index.directory().list_managed_files().iter().map(|p| p.to_str().unwrap().to_string()).collect();
                        prop_assert!(managed == present, "managed list != present files: only_managed={:?} only_present={:?}", managed.difference(&present).collect::<Vec<_>>(), present.difference(&managed).collect::<Vec<_>>());
                        break; }
                    }
                }
                Op::PrepareAbort => { let pc = wr.prepare_commit().unwrap(); pc.abort().unwrap(); if burn { wr.run(Vec::<UserOperation>::new()).unwrap(); } pending = committed.clone(); let got = content(&index).map_err(TestCaseError::fail)?; let exp: Vec<(u64, u8)> = committed.iter().map(|(k, v)| (*k, *v)).collect(); prop_assert!(got == exp, "after abort: got {:?} expected {:?}", got, exp); last_op = 0; }
                Op::Rollback => { wr.rollback().unwrap(); if burn { wr.run(Vec::<UserOperation>::new()).unwrap(); } pending = committed.clone(); last_op = 0; }
                Op::MergeAll => { let ids = index.searchable_segment_ids().unwrap(); if ids.len() >= 2 { let _ = wr.merge(&ids).wait(); } }
                Op::Reopen => { let old = w.take().unwrap(); old.wait_merging_threads().unwrap(); pending = committed.clone(); w = Some(mk(&index)); last_op = 0; }
            }
        }
        let wr = w.as_mut().unwrap();
        wr.commit().unwrap();
        committed = pending.clone();
        let got = content(&index).map_err(TestCaseError::fail)?;
        let exp: Vec<(u64, u8)> = committed.iter().map(|(k, v)| (*k, *v)).collect();
        prop_assert!(got == exp, "final: got {:?} expected {:?}", got, exp);
        Ok(())
    });
    println!("commits={} quiescence_retries={} result={}", ncommits.get(), retries.get(), match res { Ok(()) => "ok".to_string(), Err(e) => format!("{e:?}").chars().take(2500).collect() });
}
