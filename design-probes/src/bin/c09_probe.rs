// Throw-away probe for C09 (+C04 translation of stores/columns through merges): stored docs round trip.
use proptest::prelude::*;
use proptest::test_runner::{Config, RngSeed, TestRunner};
use serde_json::Value;
use tantivy::schema::Value as _;
use std::collections::BTreeMap;
use tantivy::collector::DocSetCollector;
use tantivy::query::AllQuery;
use tantivy::schema::*;
use tantivy::store::{Compressor, ZstdCompressor};
use tantivy::{Document, Index, IndexSettings, IndexWriter, TantivyDocument, Term};

fn jstrat() -> impl Strategy<Value = Value> {
    let leaf = prop_oneof![any::<bool>().prop_map(Value::from), (-1000i64..1000).prop_map(Value::from), (0u64..5).prop_map(|x| Value::from(u64::MAX - x)), (-50i32..50).prop_map(|x| Value::from(x as f64 / 8.0)), "[a-zé中 ]{0,12}".prop_map(Value::from), Just(Value::Null)];
    leaf.prop_recursive(4, 24, 4, |inner| prop_oneof![prop::collection::vec(inner.clone(), 0..4).prop_map(Value::from), prop::collection::btree_map("[a-c]{1,2}", inner, 0..4).prop_map(|m| Value::Object(m.into_iter().collect()))])
}
fn main() {
    let cases: u32 = std::env::args().nth(1).map(|s| s.parse().unwrap()).unwrap_or(150);
    let seed: u64 = std::env::args().nth(2).map(|s| s.parse().unwrap()).unwrap_or(1);
    let docstrat = (prop::collection::vec("[a-z ]{0,30}", 0..3), prop::option::of(prop_oneof![4 => "[a-zé中😀 ]{0,60}".boxed(), 1 => "[a-z]{2000,6000}".boxed()]), prop::collection::vec(any::<i64>(), 0..3), prop::option::of(prop::collection::vec(any::<u8>(), 0..40)), prop::collection::btree_map("[a-d]{1,3}", jstrat(), 0..4), any::<bool>());
    let strat = (prop::collection::vec(docstrat, 0..120), prop::collection::vec(0usize..120, 0..5), prop::collection::vec(0usize..120, 0..8), 0u8..4, prop_oneof![Just(1usize), Just(64), Just(512), Just(16384), Just(100_000)], any::<bool>(), 0u8..3, prop_oneof![Just(1usize), Just(2), Just(50)]);
    let cfg = Config { cases, rng_seed: RngSeed::Fixed(seed), failure_persistence: None, max_shrink_iters: 1000, ..Config::default() };
    let mut runner = TestRunner::new(cfg);
    let fetched = std::cell::Cell::new(0usize);
    let res = runner.run(&strat, |(docs, cuts, dels, comp, blocksize, thread, merge_mode, cache)| {
        let mut sb = Schema::builder();
        let uid = sb.add_u64_field("uid", FAST | INDEXED | STORED);
        let t = sb.add_text_field("t", TEXT | STORED);
        let big = sb.add_text_field("big", STORED);
        let nums = sb.add_i64_field("nums", STORED | FAST);
        let by = sb.add_bytes_field("by", STORED);
        let js = sb.add_json_field("js", STORED);
        let hidden = sb.add_text_field("hidden", TEXT);
        let schema = sb.build();
        let compressor = match comp { 0 => Compressor::None, 1 => Compressor::Lz4, 2 => Compressor::Zstd(ZstdCompressor::default()), _ => Compressor::Zstd(ZstdCompressor { compression_level: Some(1) }) };
        let settings = IndexSettings { docstore_compression: compressor, docstore_blocksize: blocksize, docstore_compress_dedicated_thread: thread, ..Default::default() };
        let index = Index::builder().schema(schema.clone()).settings(settings).create_in_ram().map_err(|e| TestCaseError::fail(format!("{e:?}")))?;
        let mut w: IndexWriter = index.writer_with_num_threads(1, 15_000_000).unwrap();
        w.set_merge_policy(Box::new(tantivy::merge_policy::NoMergePolicy));
        let mut model: BTreeMap<u64, Value> = BTreeMap::new();
        for (i, (ts, bigv, ns, b, j, hid)) in docs.iter().enumerate() {
            if cuts.contains(&i) && i > 0 { w.commit().unwrap(); }
            let mut d = TantivyDocument::default();
            d.add_u64(uid, i as u64);
            for x in ts { d.add_text(t, x); }
            if let Some(x) = bigv { d.add_text(big, x); }
            for x in ns { d.add_i64(nums, *x); }
            if let Some(x) = b { d.add_bytes(by, x); }
            if !j.is_empty() { d.add_object(js, j.iter().map(|(k, v)| (k.clone(), tantivy::schema::OwnedValue::from(v.clone()))).collect()); }
            if *hid { d.add_text(hidden, "secret"); }
            let expected_json = d.to_json(&schema);
            let mut ev: Value = serde_json::from_str(&expected_json).unwrap();
            ev.as_object_mut().unwrap().remove("hidden");
            model.insert(i as u64, ev);
            w.add_document(d).unwrap();
        }
        w.commit().unwrap();
        for x in &dels { if !docs.is_empty() { let u = (x % docs.len()) as u64; if merge_mode != 1 { w.delete_term(Term::from_field_u64(uid, u)); model.remove(&u); } } }
        w.commit().unwrap();
        if merge_mode >= 1 { let ids = index.searchable_segment_ids().unwrap(); if ids.len() >= 2 { w.merge(&ids).wait().map_err(|e| TestCaseError::fail(format!("merge {e:?}")))?; } }
        let reader = index.reader_builder().doc_store_cache_num_blocks(cache).try_into().unwrap();
        let s: tantivy::Searcher = tantivy::IndexReader::searcher(&reader);
        let mut hits = s.search(&AllQuery, &DocSetCollector).unwrap().into_iter().collect::<Vec<_>>();
        hits.sort(); hits.reverse();
        let mut seen = 0;
        for a in hits.iter().chain(hits.iter().take(5)) {
            let d: TantivyDocument = s.doc(*a).map_err(|e| TestCaseError::fail(format!("doc {e:?}")))?;
            fetched.set(fetched.get() + 1);
            let got: Value = serde_json::from_str(&d.to_json(&schema)).unwrap();
            let u = got["uid"][0].as_u64().ok_or_else(|| TestCaseError::fail("no uid"))?;
            let exp = model.get(&u).ok_or_else(|| TestCaseError::fail(format!("uid {u} should be deleted")))?;
            prop_assert!(&got == exp, "doc {}: got {} expected {}", u, got, exp);
            seen += 1;
        }
        prop_assert_eq!(seen, model.len() + model.len().min(5));
        // store iteration in doc id order
        for r in s.segment_readers() {
            let store = r.get_store_reader(cache).unwrap();
            let col = r.fast_fields().u64("uid").unwrap();
            let alive: Vec<u64> = r.doc_ids_alive().map(|d| col.first(d).unwrap()).collect();
            let it: Vec<u64> = store.iter::<TantivyDocument>(r.alive_bitset()).map(|d| d.unwrap().get_first(uid).unwrap().as_u64().unwrap()).collect();
            prop_assert!(alive == it, "store iteration order {:?} vs {:?}", it, alive);
        }
        Ok(())
    });
    println!("fetched={} result={}", fetched.get(), match res { Ok(()) => "ok".to_string(), Err(e) => format!("{e:?}").chars().take(2000).collect() });
}
