// Throw-away probe for C03: random corpora x random query trees vs naive evaluator.
use proptest::prelude::*;
use proptest::test_runner::{Config, RngSeed, TestRunner};
use std::collections::BTreeSet;
use std::ops::Bound;
use tantivy::collector::{Count, DocSetCollector, TopDocs};
use tantivy::query::*;
use tantivy::schema::*;
use tantivy::{doc, Index, IndexWriter, Term};

#[derive(Clone, Debug)]
struct D {
    uid: u64,
    words: Vec<u8>, // word ids
    num: u64,
    tag: u8,
}
#[derive(Clone, Debug)]
enum Q {
    Term(u8),
    Tag(u8),
    Phrase(Vec<u8>, u32),
    Range(u64, u64, bool, bool),
    All,
    Empty,
    Bool(Vec<(u8, Q)>, Option<usize>), // occur: 0 must 1 should 2 mustnot
    Boost(Box<Q>),
    Const(Box<Q>),
    TermSet(Vec<u8>),
}
fn w(i: u8) -> String {
    format!("w{i}")
}
fn qstrat() -> impl Strategy<Value = Q> {
    let leaf = prop_oneof![
        5 => (0u8..8).prop_map(Q::Term),
        2 => (0u8..4).prop_map(Q::Tag),
        2 => (prop::collection::vec(0u8..5, 2..4), 0u32..3).prop_map(|(v, s)| { let mut d = v.clone(); d.sort(); d.dedup(); if d.len() != v.len() || v.len() > 2 { Q::Phrase(v, 0) } else { Q::Phrase(v, s) } }),
        2 => (0u64..30, 0u64..30, any::<bool>(), any::<bool>()).prop_map(|(a, b, x, y)| Q::Range(a, b, x, y)),
        1 => Just(Q::All),
        1 => Just(Q::Empty),
        1 => prop::collection::vec(0u8..8, 0..4).prop_map(Q::TermSet),
    ];
    leaf.prop_recursive(3, 24, 5, |inner| {
        prop_oneof![
            6 => (prop::collection::vec((0u8..3, inner.clone()), 1..5), prop::option::of(0usize..4)).prop_map(|(c, m)| if c.len() == 1 { Q::Bool(c, None) } else { Q::Bool(c, m) }),
            1 => inner.clone().prop_map(|q| Q::Boost(Box::new(q))),
            1 => inner.prop_map(|q| Q::Const(Box::new(q))),
        ]
    })
}
struct F {
    uid: Field,
    body: Field,
    num: Field,
    tag: Field,
}
fn build(q: &Q, f: &F) -> Box<dyn Query> {
    match q {
        Q::Term(i) => Box::new(TermQuery::new(Term::from_field_text(f.body, &w(*i)), IndexRecordOption::WithFreqs)),
        Q::Tag(i) => Box::new(TermQuery::new(Term::from_field_text(f.tag, &format!("t{i}")), IndexRecordOption::Basic)),
        Q::Phrase(ws, slop) => {
            let mut p = PhraseQuery::new(ws.iter().map(|i| Term::from_field_text(f.body, &w(*i))).collect());
            p.set_slop(*slop);
            Box::new(p)
        }
        Q::Range(a, b, ia, ib) => Box::new(RangeQuery::new(
            if *ia { Bound::Included(Term::from_field_u64(f.num, *a)) } else { Bound::Excluded(Term::from_field_u64(f.num, *a)) },
            if *ib { Bound::Included(Term::from_field_u64(f.num, *b)) } else { Bound::Excluded(Term::from_field_u64(f.num, *b)) },
        )),
        Q::All => Box::new(AllQuery),
        Q::Empty => Box::new(EmptyQuery),
        Q::Bool(cl, m) => {
            let subs: Vec<(Occur, Box<dyn Query>)> = cl.iter().map(|(o, q)| (match o { 0 => Occur::Must, 1 => Occur::Should, _ => Occur::MustNot }, build(q, f))).collect();
            match m {
                Some(m) => Box::new(BooleanQuery::with_minimum_required_clauses(subs, *m)),
                None => Box::new(BooleanQuery::new(subs)),
            }
        }
        Q::Boost(q) => Box::new(BoostQuery::new(build(q, f), 2.0)),
        Q::Const(q) => Box::new(ConstScoreQuery::new(build(q, f), 1.5)),
        Q::TermSet(ws) => Box::new(TermSetQuery::new(ws.iter().map(|i| Term::from_field_text(f.body, &w(*i))))),
    }
}
fn phrase_match(words: &[u8], ph: &[u8], slop: u32) -> bool {
    // min over position choices of sum |(p_{i+1}-(i+1)) - (p_i - i)| <= slop
    fn rec(words: &[u8], ph: &[u8], i: usize, prev_adj: Option<i64>, cost: i64, slop: i64) -> bool {
        if cost > slop { return false; }
        if i == ph.len() { return true; }
        for (p, w) in words.iter().enumerate() {
            if *w == ph[i] {
                let adj = p as i64 - i as i64;
                let c = match prev_adj { None => 0, Some(a) => (adj - a).abs() };
                if rec(words, ph, i + 1, Some(adj), cost + c, slop) { return true; }
            }
        }
        false
    }
    rec(words, ph, 0, None, 0, slop as i64)
}
fn eval(q: &Q, d: &D) -> bool {
    match q {
        Q::Term(i) => d.words.contains(i),
        Q::Tag(i) => d.tag == *i,
        Q::Phrase(ph, slop) => phrase_match(&d.words, ph, *slop),
        Q::Range(a, b, ia, ib) => (if *ia { d.num >= *a } else { d.num > *a }) && (if *ib { d.num <= *b } else { d.num < *b }),
        Q::All => true,
        Q::Empty => false,
        Q::Bool(cl, m) => {
            let must: Vec<&Q> = cl.iter().filter(|c| c.0 == 0).map(|c| &c.1).collect();
            let should: Vec<&Q> = cl.iter().filter(|c| c.0 == 1).map(|c| &c.1).collect();
            let not: Vec<&Q> = cl.iter().filter(|c| c.0 >= 2).map(|c| &c.1).collect();
            let min = match m {
                Some(m) => *m,
                None => {
                    // BooleanQuery::new default
                    let mut mr = 0;
                    for (o, _) in cl { match o { 1 => mr = 1, _ => { mr = 0; break; } } }
                    mr
                }
            };
            if not.iter().any(|q| eval(q, d)) { return false; }
            if !must.iter().all(|q| eval(q, d)) { return false; }
            let ns = should.iter().filter(|q| eval(q, d)).count();
            if ns < min { return false; }
            if must.is_empty() && ns == 0 { return false; }
            true
        }
        Q::Boost(q) | Q::Const(q) => eval(q, d),
        Q::TermSet(ws) => ws.iter().any(|i| d.words.contains(i)),
    }
}

fn main() {
    let cases: u32 = std::env::args().nth(1).map(|s| s.parse().unwrap()).unwrap_or(300);
    let seed: u64 = std::env::args().nth(2).map(|s| s.parse().unwrap()).unwrap_or(1);
    let big = std::env::var("BIG").is_ok();
    let docs = (if big { prop_oneof![1 => 1000usize..1400, 1 => 4100usize..5200].boxed() } else { (0usize..160).boxed() }).prop_flat_map(|n| prop::collection::vec((prop::collection::vec(prop_oneof![4 => 0u8..3, 2 => 3u8..6, 1 => 6u8..8], 0..7), 0u64..30, 0u8..4), n..n + 1));
    let strat = (docs, prop::collection::vec(0usize..1000, 0..4), prop::collection::vec(0usize..1000, 0..12), prop::collection::vec(qstrat(), 1..12), any::<bool>());
    let cfg = Config { cases, rng_seed: RngSeed::Fixed(seed), failure_persistence: None, max_shrink_iters: 2000, ..Config::default() };
    let mut runner = TestRunner::new(cfg);
    let nq = std::cell::Cell::new(0usize);
    let nontriv = std::cell::Cell::new(0usize);
    let res = runner.run(&strat, |(docs, cuts, dels, queries, do_merge)| {
        let mut sb = Schema::builder();
        let f = F {
            uid: sb.add_u64_field("uid", FAST | INDEXED | STORED),
            body: sb.add_text_field("body", TEXT),
            num: sb.add_u64_field("num", FAST | INDEXED),
            tag: sb.add_text_field("tag", STRING | FAST),
        };
        let index = Index::create_in_ram(sb.build());
        let mut wr: IndexWriter = index.writer_with_num_threads(1, 15_000_000).unwrap();
        wr.set_merge_policy(Box::new(tantivy::merge_policy::NoMergePolicy));
        let model: Vec<D> = docs.iter().enumerate().map(|(i, (ws, n, t))| D { uid: i as u64, words: ws.clone(), num: *n, tag: *t }).collect();
        let cutset: BTreeSet<usize> = cuts.iter().map(|c| if model.is_empty() { 0 } else { c % model.len() }).collect();
        for (i, d) in model.iter().enumerate() {
            if cutset.contains(&i) && i > 0 { wr.commit().unwrap(); }
            wr.add_document(doc!(f.uid=>d.uid, f.body=>d.words.iter().map(|x| w(*x)).collect::<Vec<_>>().join(" "), f.num=>d.num, f.tag=>format!("t{}", d.tag))).unwrap();
        }
        wr.commit().unwrap();
        let mut deleted = BTreeSet::new();
        for x in dels { if !model.is_empty() { let u = (x % model.len()) as u64; deleted.insert(u); wr.delete_term(Term::from_field_u64(f.uid, u)); } }
        wr.commit().unwrap();
        if do_merge {
            let ids = index.searchable_segment_ids().unwrap();
            if ids.len() >= 2 { wr.merge(&ids[..2]).wait().unwrap(); }
        }
        let searcher = index.reader().unwrap().searcher();
        let uid_of = |a: tantivy::DocAddress| searcher.segment_reader(a.segment_ord).fast_fields().u64("uid").unwrap().first(a.doc_id).unwrap();
        for q in &queries {
            nq.set(nq.get() + 1);
            let expected: BTreeSet<u64> = model.iter().filter(|d| !deleted.contains(&d.uid) && eval(q, d)).map(|d| d.uid).collect();
            let tq = build(q, &f);
            let got: BTreeSet<u64> = searcher.search(&*tq, &DocSetCollector).map_err(|e| TestCaseError::fail(format!("{e:?}")))?.into_iter().map(uid_of).collect();
            let cnt = searcher.search(&*tq, &Count).unwrap();
            let cnt2 = tq.count(&searcher).unwrap();
            let top: BTreeSet<u64> = searcher.search(&*tq, &TopDocs::with_limit(1_000_000).order_by_score()).unwrap().into_iter().map(|(_, a)| uid_of(a)).collect();
            if !expected.is_empty() && expected.len() < model.len() - deleted.len() { nontriv.set(nontriv.get() + 1); }
            prop_assert!(got == expected, "DOCSET q={:?} expected={:?} got={:?}", q, expected, got);
            prop_assert!(cnt == expected.len(), "COUNT q={:?} expected={} got={}", q, expected.len(), cnt);
            prop_assert!(cnt2 == expected.len(), "QCOUNT q={:?} expected={} got={}", q, expected.len(), cnt2);
            prop_assert!(top == expected, "TOPDOCS q={:?} expected={:?} got={:?}", q, expected, top);
        }
        Ok(())
    });
    println!("queries={} nontrivial={} result={}", nq.get(), nontriv.get(), match res { Ok(()) => "ok".to_string(), Err(e) => format!("{e:?}").chars().take(3000).collect() });
}
