use proptest::prelude::*;
use proptest::test_runner::{Config, RngSeed, TestRunner};
use tantivy::query::*;
use tantivy::schema::*;
use tantivy::{doc, DocSet, Index, IndexWriter, Term, TERMINATED};
use std::ops::Bound;

fn lcg(x: &mut u64) -> u64 { *x = x.wrapping_mul(6364136223846793005).wrapping_add(1442695040888963407); *x >> 33 }

fn main() {
    let mut sb = Schema::builder();
    let body = sb.add_text_field("body", TEXT);
    let num = sb.add_u64_field("num", FAST | INDEXED);
    let schema = sb.build();
    let index = Index::create_in_ram(schema);
    let mut w: IndexWriter = index.writer_with_num_threads(1, 50_000_000).unwrap();
    let mut seed = 99u64;
    let n = 9000u64;
    for i in 0..n {
        let mut words = vec![];
        // term a: dense, b: every 3rd, c: sparse, d: clustered, e: rare
        if lcg(&mut seed) % 10 < 8 { words.push("a"); }
        if i % 3 == 0 { words.push("b"); }
        if lcg(&mut seed) % 50 == 0 { words.push("c"); }
        if (i / 500) % 2 == 0 { words.push("d"); }
        if lcg(&mut seed) % 1000 == 0 { words.push("e"); }
        if lcg(&mut seed) % 2 == 0 { words.push("a b"); }
        words.push("z");
        w.add_document(doc!(body=>words.join(" "), num=>lcg(&mut seed) % 100)).unwrap();
    }
    w.commit().unwrap();
    let searcher = index.reader().unwrap().searcher();
    use tantivy::collector::{Count, DocSetCollector, TopDocs};
    use std::collections::BTreeSet;
    let terms = ["a", "b", "c", "d", "e", "z"];
    let tq = |s: &str| -> Box<dyn Query> { Box::new(TermQuery::new(Term::from_field_text(body, s), IndexRecordOption::WithFreqs)) };
    let set = |s: &str| -> BTreeSet<u32> { searcher.search(&*tq(s), &DocSetCollector).unwrap().into_iter().map(|a| a.doc_id).collect() };
    let sets: Vec<BTreeSet<u32>> = terms.iter().map(|t| set(t)).collect();
    let mut bad = 0; let mut total = 0;
    for x in 0..6 { for p in 0..6 { for q in 0..6 { for r in 0..6 { for t in 0..6 {
        if p >= q || r >= t || (p, q) >= (r, t) { continue; }
        let inner = BooleanQuery::union(vec![Box::new(BooleanQuery::intersection(vec![tq(terms[p]), tq(terms[q])])), Box::new(BooleanQuery::intersection(vec![tq(terms[r]), tq(terms[t])]))]);
        let query = BooleanQuery::intersection(vec![tq(terms[x]), Box::new(inner)]);
        let expected: BTreeSet<u32> = sets[x].iter().cloned().filter(|d| (sets[p].contains(d) && sets[q].contains(d)) || (sets[r].contains(d) && sets[t].contains(d))).collect();
        let got: BTreeSet<u32> = searcher.search(&query, &DocSetCollector).unwrap().into_iter().map(|a| a.doc_id).collect();
        let cnt = searcher.search(&query, &Count).unwrap();
        let top: BTreeSet<u32> = searcher.search(&query, &TopDocs::with_limit(20000).order_by_score()).unwrap().into_iter().map(|(_, a)| a.doc_id).collect();
        total += 1;
        if got != expected || cnt != expected.len() || top != expected {
            bad += 1;
            if bad <= 5 { println!("MISMATCH +{} +(({}&{})|({}&{})): expected {} docset {} count {} topdocs {} extra_docset={:?} missing_docset={:?}", terms[x], terms[p], terms[q], terms[r], terms[t], expected.len(), got.len(), cnt, top.len(), got.difference(&expected).take(5).collect::<Vec<_>>(), expected.difference(&got).take(5).collect::<Vec<_>>()); }
        }
    }}}}}
    println!("nested union-of-intersections: {bad} mismatching of {total}");
}
