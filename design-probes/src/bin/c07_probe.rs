// Throw-away probe for C07: read back every (term, doc, tf, positions) and compare with the model.
use proptest::prelude::*;
use proptest::test_runner::{Config, RngSeed, TestRunner};
use std::collections::BTreeMap;
use tantivy::postings::Postings;
use tantivy::schema::*;
use tantivy::{doc, DocSet, Index, IndexWriter, TERMINATED};

fn main() {
    let cases: u32 = std::env::args().nth(1).map(|s| s.parse().unwrap()).unwrap_or(100);
    let seed: u64 = std::env::args().nth(2).map(|s| s.parse().unwrap()).unwrap_or(1);
    // doc: two values of words; word ids skewed; plus num
    let word = prop_oneof![6 => 0u16..3, 3 => 3u16..10, 1 => 10u16..400];
    let value = prop::collection::vec(word, 0..12);
    let docs_small = prop::collection::vec((prop::collection::vec(value.clone(), 0..3), 0u64..5), 0..300);
    let docs_big = prop::collection::vec((prop::collection::vec(value, 0..2), 0u64..5), 1000..2500);
    let strat = (prop_oneof![4 => docs_small, 1 => docs_big], 0u8..3, any::<bool>(), prop::collection::vec((0u16..12, prop::collection::vec(0u32..3000, 1..12)), 0..8));
    let cfg = Config { cases, rng_seed: RngSeed::Fixed(seed), failure_persistence: None, max_shrink_iters: 500, ..Config::default() };
    let mut runner = TestRunner::new(cfg);
    let lists = std::cell::Cell::new(0usize);
    let longlists = std::cell::Cell::new(0usize);
    let res = runner.run(&strat, |(docs, opt, with_norms, seekprogs)| {
        let record = match opt { 0 => IndexRecordOption::Basic, 1 => IndexRecordOption::WithFreqs, _ => IndexRecordOption::WithFreqsAndPositions };
        let mut sb = Schema::builder();
        let body = sb.add_text_field("body", TextOptions::default().set_indexing_options(TextFieldIndexing::default().set_tokenizer("default").set_index_option(record).set_fieldnorms(with_norms)));
        let num = sb.add_u64_field("num", INDEXED);
        let index = Index::create_in_ram(sb.build());
        let mut w: IndexWriter = index.writer_with_num_threads(1, 50_000_000).unwrap();
        // model: term -> doc -> positions
        let mut model: BTreeMap<String, BTreeMap<u32, Vec<u32>>> = BTreeMap::new();
        let mut nummodel: BTreeMap<u64, Vec<u32>> = BTreeMap::new();
        let mut ntokens: Vec<u32> = vec![];
        for (d, (values, n)) in docs.iter().enumerate() {
            let mut doc = doc!(num => *n);
            let mut pos = 0u32; let mut count = 0u32; let mut first = true;
            for v in values {
                if !first { pos += 1; } // position gap between values
                first = false;
                let text: Vec<String> = v.iter().map(|w| format!("t{w}")).collect();
                doc.add_text(body, text.join(" "));
                for wd in v { model.entry(format!("t{wd}")).or_default().entry(d as u32).or_default().push(pos); pos += 1; count += 1; }
                if v.is_empty() { /* empty value: tantivy still adds gap? */ }
            }
            ntokens.push(count);
            nummodel.entry(*n).or_default().push(d as u32);
            w.add_document(doc).unwrap();
        }
        w.commit().unwrap();
        let searcher = index.reader().unwrap().searcher();
        if docs.is_empty() { return Ok(()); }
        prop_assert_eq!(searcher.segment_readers().len(), 1);
        let r = searcher.segment_reader(0);
        let inv = r.inverted_index(body).unwrap();
        // term dictionary == model terms, in order
        let mut st = inv.terms().stream().unwrap();
        let mut terms = vec![];
        while st.advance() { terms.push(String::from_utf8(st.key().to_vec()).unwrap()); }
        let expected_terms: Vec<String> = model.keys().cloned().collect();
        prop_assert!(terms == expected_terms, "terms differ: {} vs {}", terms.len(), expected_terms.len());
        prop_assert_eq!(inv.total_num_tokens(), ntokens.iter().map(|x| *x as u64).sum::<u64>(), "total_num_tokens");
        for (t, postings_model) in &model {
            lists.set(lists.get() + 1);
            if postings_model.len() > 128 { longlists.set(longlists.get() + 1); }
            let term = Term::from_field_text(body, t);
            prop_assert_eq!(inv.doc_freq(&term).unwrap() as usize, postings_model.len(), "doc_freq {}", t);
            let mut p = inv.read_postings(&term, IndexRecordOption::WithFreqsAndPositions).unwrap().unwrap();
            let mut positions = vec![];
            for (d, ps) in postings_model {
                prop_assert_eq!(p.doc(), *d, "term {} doc", t);
                if opt >= 1 { prop_assert_eq!(p.term_freq() as usize, ps.len(), "term {} doc {} tf", t, d); }
                if opt >= 2 { p.positions(&mut positions); prop_assert!(&positions == ps, "term {} doc {} positions {:?} vs {:?}", t, d, positions, ps); }
                p.advance();
            }
            prop_assert_eq!(p.doc(), TERMINATED);
        }
        // seek programs
        for (ti, targets) in &seekprogs {
            let t = format!("t{ti}");
            if let Some(pm) = model.get(&t) {
                let term = Term::from_field_text(body, &t);
                let mut p = inv.read_postings(&term, IndexRecordOption::WithFreqsAndPositions).unwrap().unwrap();
                let mut sorted = targets.clone(); sorted.sort();
                for tg in sorted {
                    if tg < p.doc() { continue; }
                    let got = p.seek(tg);
                    let exp = pm.range(tg..).next().map(|x| *x.0).unwrap_or(TERMINATED);
                    prop_assert_eq!(got, exp, "seek({}) on {}", tg, t);
                    if got != TERMINATED && opt >= 2 { let mut positions = vec![]; p.positions(&mut positions); prop_assert!(positions == pm[&got], "positions after seek"); }
                    if got == TERMINATED { break; }
                }
            }
        }
        // fieldnorms
        if with_norms { let fr = r.get_fieldnorms_reader(body).unwrap();
        for (d, c) in ntokens.iter().enumerate() {
            let exp = tantivy::fieldnorm::FieldNormReader::fieldnorm_to_id(*c);
            prop_assert_eq!(fr.fieldnorm_id(d as u32), exp, "fieldnorm id of doc {} ({} tokens)", d, c);
        } }
        // numeric terms
        let ninv = r.inverted_index(num).unwrap();
        for (n, ds) in &nummodel {
            let mut p = ninv.read_postings(&Term::from_field_u64(num, *n), IndexRecordOption::Basic).unwrap().unwrap();
            for d in ds { prop_assert_eq!(p.doc(), *d); p.advance(); }
            prop_assert_eq!(p.doc(), TERMINATED);
        }
        Ok(())
    });
    println!("lists={} long_lists={} result={}", lists.get(), longlists.get(), match res { Ok(()) => "ok".to_string(), Err(e) => format!("{e:?}").chars().take(1500).collect() });
}
