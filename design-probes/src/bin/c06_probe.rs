// Throw-away probe for C06 + C12: top-K vs exhaustive; BM25 independent evaluation; explain.
use proptest::prelude::*;
use proptest::test_runner::{Config, RngSeed, TestRunner};
use tantivy::collector::{Collector, SegmentCollector, TopDocs};
use tantivy::postings::Postings;
use tantivy::query::*;
use tantivy::schema::*;
use tantivy::{doc, DocAddress, DocId, DocSet, Index, IndexWriter, Order, Score, SegmentOrdinal, SegmentReader, Term, TERMINATED};

struct All;
struct AllSeg(SegmentOrdinal, Vec<(Score, DocAddress)>);
impl Collector for All {
    type Fruit = Vec<(Score, DocAddress)>;
    type Child = AllSeg;
    fn for_segment(&self, ord: SegmentOrdinal, _r: &SegmentReader) -> tantivy::Result<AllSeg> { Ok(AllSeg(ord, vec![])) }
    fn requires_scoring(&self) -> bool { true }
    fn merge_fruits(&self, f: Vec<Vec<(Score, DocAddress)>>) -> tantivy::Result<Vec<(Score, DocAddress)>> { Ok(f.into_iter().flatten().collect()) }
}
impl SegmentCollector for AllSeg {
    type Fruit = Vec<(Score, DocAddress)>;
    fn collect(&mut self, doc: DocId, score: Score) { self.1.push((score, DocAddress::new(self.0, doc))); }
    fn harvest(self) -> Self::Fruit { self.1 }
}
#[derive(Clone, Debug)]
enum Q { T(u8), Or(Vec<u8>), And(Vec<u8>), Mixed(u8, Vec<u8>), Boost(Vec<u8>) }
fn build(q: &Q, f: Field) -> Box<dyn Query> {
    let tq = |i: &u8| -> Box<dyn Query> { Box::new(TermQuery::new(Term::from_field_text(f, &format!("w{i}")), IndexRecordOption::WithFreqs)) };
    match q {
        Q::T(i) => tq(i),
        Q::Or(v) => Box::new(BooleanQuery::union(v.iter().map(tq).collect())),
        Q::And(v) => Box::new(BooleanQuery::intersection(v.iter().map(tq).collect())),
        Q::Mixed(m, v) => Box::new(BooleanQuery::new(std::iter::once((Occur::Must, tq(m))).chain(v.iter().map(|i| (Occur::Should, tq(i)))).collect())),
        Q::Boost(v) => Box::new(BoostQuery::new(Box::new(BooleanQuery::union(v.iter().map(tq).collect())), 2.5)),
    }
}
fn main() {
    let cases: u32 = std::env::args().nth(1).map(|s| s.parse().unwrap()).unwrap_or(100);
    let seed: u64 = std::env::args().nth(2).map(|s| s.parse().unwrap()).unwrap_or(1);
    // doc = list of (word, repeat)
    let big = std::env::var("BIG").is_ok();
    let docs = (if big { (1500usize..4000).boxed() } else { (1usize..400).boxed() }).prop_flat_map(|n| prop::collection::vec(prop::collection::vec((prop_oneof![5 => 0u8..3, 2 => 3u8..6], 1usize..4), 0..5), n..n + 1));
    let q = prop_oneof![(0u8..6).prop_map(Q::T), prop::collection::vec(0u8..6, 2..4).prop_map(Q::Or), prop::collection::vec(0u8..6, 2..4).prop_map(Q::And), (0u8..6, prop::collection::vec(0u8..6, 1..3)).prop_map(|(m, v)| Q::Mixed(m, v)), prop::collection::vec(0u8..6, 2..4).prop_map(Q::Boost)];
    let strat = (docs, prop::collection::vec(0usize..4000, 0..5), prop::collection::vec(0usize..4000, 0..10), prop::collection::vec((q, 1usize..12, 0usize..6), 1..10), any::<bool>());
    let cfg = Config { cases, rng_seed: RngSeed::Fixed(seed), failure_persistence: None, max_shrink_iters: 2000, ..Config::default() };
    let mut runner = TestRunner::new(cfg);
    let n = std::cell::Cell::new(0usize);
    let res = runner.run(&strat, |(docs, cuts, dels, queries, multi)| {
        let mut sb = Schema::builder();
        let uid = sb.add_u64_field("uid", FAST | INDEXED);
        let body = sb.add_text_field("body", TEXT);
        let mut index = Index::create_in_ram(sb.build());
        if multi { index.set_multithread_executor(3).unwrap(); }
        let mut w: IndexWriter = index.writer_with_num_threads(1, 15_000_000).unwrap();
        w.set_merge_policy(Box::new(tantivy::merge_policy::NoMergePolicy));
        for (i, d) in docs.iter().enumerate() {
            if cuts.contains(&i) && i > 0 { w.commit().unwrap(); }
            let text: Vec<String> = d.iter().flat_map(|(wd, rep)| std::iter::repeat(format!("w{wd}")).take(*rep)).collect();
            w.add_document(doc!(uid=>i as u64, body=>text.join(" "))).unwrap();
        }
        w.commit().unwrap();
        for x in &dels { w.delete_term(Term::from_field_u64(uid, (*x % docs.len()) as u64)); }
        w.commit().unwrap();
        let searcher = index.reader().unwrap().searcher();
        for (q, k, off) in &queries {
            n.set(n.get() + 1);
            let tq = build(q, body);
            let mut all = searcher.search(&*tq, &All).unwrap();
            all.sort_by(|a, b| b.0.partial_cmp(&a.0).unwrap().then(a.1.cmp(&b.1)));
            let single = matches!(q, Q::T(_));
            let top = searcher.search(&*tq, &TopDocs::with_limit(*k).and_offset(*off).order_by_score()).unwrap();
            let exp: Vec<(Score, DocAddress)> = all.iter().skip(*off).take(*k).cloned().collect();
            prop_assert_eq!(top.len(), exp.len(), "q={:?} k={} off={} len", q, k, off);
            if single { prop_assert!(top == exp, "q={:?} k={} off={}: top={:?} exp={:?}", q, k, off, top, exp); }
            else {
                // validity predicate with tolerance
                let tol = 1e-5f32;
                for w in top.windows(2) { prop_assert!(w[0].0 >= w[1].0, "not sorted"); if w[0].0 == w[1].0 { prop_assert!(w[0].1 < w[1].1, "tie not by address: {:?}", w); } }
                for (s, a) in &top { let es = all.iter().find(|x| x.1 == *a); prop_assert!(es.is_some(), "returned doc {:?} not a match", a); let es = es.unwrap().0; prop_assert!((s - es).abs() <= tol * es.abs().max(1.0), "score of {:?}: {} vs exhaustive {}", a, s, es); }
                if let Some(min) = top.last().map(|x| x.0) { if *off == 0 { for (es, a) in &all { if !top.iter().any(|t| t.1 == *a) { prop_assert!(*es <= min + tol * min.abs().max(1.0), "omitted {:?} score {} > min returned {} q={:?} k={}", a, es, min, q, k); } } } }
            }
            // explain == score, for first few matches
            for (s, a) in all.iter().take(5) {
                let ex = tq.explain(&searcher, *a).map_err(|e| TestCaseError::fail(format!("explain {e:?}")))?;
                prop_assert!((ex.value() - s).abs() <= 1e-5 * s.abs().max(1.0), "explain {} vs score {} q={:?}", ex.value(), s, q);
            }
            // independent BM25 for single term
            if let Q::T(t) = q {
                let term = Term::from_field_text(body, &format!("w{t}"));
                let nn: u64 = searcher.segment_readers().iter().map(|r| r.max_doc() as u64).sum();
                let df: u64 = searcher.doc_freq(&term).unwrap();
                let tot: u64 = searcher.segment_readers().iter().map(|r| r.inverted_index(body).unwrap().total_num_tokens()).sum();
                let avg = tot as f32 / nn as f32;
                let idf = (1.0f32 + ((nn - df) as f32 + 0.5) / (df as f32 + 0.5)).ln();
                for (s, a) in all.iter().take(8) {
                    let r = searcher.segment_reader(a.segment_ord);
                    let mut p = r.inverted_index(body).unwrap().read_postings(&term, IndexRecordOption::WithFreqs).unwrap().unwrap();
                    p.seek(a.doc_id);
                    let tf = p.term_freq() as f32;
                    let fid = r.get_fieldnorms_reader(body).unwrap().fieldnorm_id(a.doc_id);
                    let dl = tantivy::fieldnorm::FieldNormReader::id_to_fieldnorm(fid) as f32;
                    let model_len: usize = docs[searcher.segment_reader(a.segment_ord).fast_fields().u64("uid").unwrap().first(a.doc_id).unwrap() as usize].iter().map(|x| x.1).sum();
                    prop_assert_eq!(dl as usize, model_len, "fieldnorm (small lengths are exact)");
                    let e = idf * 2.2 * (tf / (tf + 1.2 * (1.0 - 0.75 + 0.75 * dl / avg)));
                    prop_assert!((e - s).abs() <= 1e-5 * s.abs().max(1.0), "bm25 independent {} vs {} (tf={} dl={} avg={} n={} df={})", e, s, tf, dl, avg, nn, df);
                }
            }
        }
        Ok(())
    });
    println!("queries={} result={}", n.get(), match res { Ok(()) => "ok".to_string(), Err(e) => format!("{e:?}").chars().take(1500).collect() });
    let _ = (Order::Asc, TERMINATED);
}
