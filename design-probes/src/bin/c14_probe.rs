// Throw-away probe for C14: partition independence of aggregations (metamorphic).
use proptest::prelude::*;
use proptest::test_runner::{Config, RngSeed, TestRunner};
use serde_json::{json, Value};
use tantivy::aggregation::agg_req::Aggregations;
use tantivy::aggregation::{AggContextParams, AggregationCollector, DistributedAggregationCollector};
use tantivy::query::AllQuery;
use tantivy::schema::*;
use tantivy::{Index, IndexWriter, TantivyDocument};

#[derive(Clone, Debug)]
struct D { n: Vec<i64>, f: Option<f64>, s: Vec<u8>, }

fn reqstrat() -> impl Strategy<Value = Value> {
    let metric = prop_oneof![
        Just(json!({"avg": {"field": "n"}})), Just(json!({"sum": {"field": "f"}})), Just(json!({"min": {"field": "n"}})), Just(json!({"max": {"field": "f"}})),
        Just(json!({"value_count": {"field": "n"}})), Just(json!({"stats": {"field": "n"}})), Just(json!({"extended_stats": {"field": "n"}})),
        Just(json!({"cardinality": {"field": "s"}})), Just(json!({"cardinality": {"field": "n"}})), Just(json!({"percentiles": {"field": "n", "percents": [50.0, 95.0]}})),
        Just(json!({"avg": {"field": "n", "missing": 7.0}})),
    ];
    let bucket = prop_oneof![
        (1u32..6, prop::option::of(0u32..3)).prop_map(|(i, o)| { let mut h = json!({"field": "n", "interval": i}); if let Some(o) = o { if o < i { h["offset"] = json!(o); } } json!({"histogram": h}) }),
        (1u32..4).prop_map(|i| json!({"histogram": {"field": "f", "interval": (i as f64) / 2.0, "min_doc_count": 1}})),
        Just(json!({"terms": {"field": "s"}})),
        (1u32..4, any::<bool>()).prop_map(|(sz, asc)| json!({"terms": {"field": "s", "size": sz, "segment_size": 1000, "order": {"_key": if asc {"asc"} else {"desc"}}}})),
        (0u64..3).prop_map(|m| json!({"terms": {"field": "n", "min_doc_count": m, "segment_size": 1000, "size": 1000}})),
        Just(json!({"terms": {"field": "s", "missing": "NA", "segment_size": 1000, "size": 1000}})),
        (-5i64..5, 0i64..8).prop_map(|(a, b)| json!({"range": {"field": "n", "ranges": [{"to": a}, {"from": a, "to": a + b}, {"from": a + b}]}})),
        Just(json!({"range": {"field": "f", "ranges": [{"to": 0.5}, {"from": 0.5, "to": 2.25}, {"from": 2.25}]}})),
    ];
    (bucket, prop::option::of(metric.clone()), metric).prop_map(|(mut b, sub, m)| {
        if let Some(sub) = sub { b["aggs"] = json!({"sub": sub}); }
        json!({"b": b, "m": m})
    })
}
fn build(docs: &[D], cuts: &[usize]) -> Index {
    let mut sb = Schema::builder();
    sb.add_i64_field("n", FAST);
    sb.add_f64_field("f", FAST);
    sb.add_text_field("s", STRING | FAST);
    let schema = sb.build();
    let index = Index::create_in_ram(schema.clone());
    let mut w: IndexWriter = index.writer_with_num_threads(1, 15_000_000).unwrap();
    w.set_merge_policy(Box::new(tantivy::merge_policy::NoMergePolicy));
    for (i, d) in docs.iter().enumerate() {
        if cuts.contains(&i) && i > 0 { w.commit().unwrap(); }
        let mut o = serde_json::Map::new();
        if !d.n.is_empty() { o.insert("n".into(), json!(d.n)); }
        if let Some(f) = d.f { o.insert("f".into(), json!(f)); }
        if !d.s.is_empty() { o.insert("s".into(), json!(d.s.iter().map(|x| format!("t{x}")).collect::<Vec<_>>())); }
        w.add_document(TantivyDocument::parse_json(&schema, &Value::Object(o).to_string()).unwrap()).unwrap();
    }
    w.commit().unwrap();
    index
}
fn norm_ties(v: &mut Value) {
    if let Some(b) = v.get_mut("b").and_then(|b| b.get_mut("buckets")).and_then(|b| b.as_array_mut()) {
        b.sort_by(|x, y| y["doc_count"].as_u64().cmp(&x["doc_count"].as_u64()).then(x["key"].to_string().cmp(&y["key"].to_string())));
    }
}
fn close(a: &Value, b: &Value, path: &str) -> Result<(), String> {
    match (a, b) {
        (Value::Number(x), Value::Number(y)) => { let (x, y) = (x.as_f64().unwrap(), y.as_f64().unwrap()); if x == y || (x - y).abs() <= 1e-9 * x.abs().max(y.abs()).max(1.0) { Ok(()) } else { Err(format!("{path}: {x} vs {y}")) } }
        (Value::Object(x), Value::Object(y)) => { if x.len() != y.len() { return Err(format!("{path}: key sets differ {:?} vs {:?}", x.keys().collect::<Vec<_>>(), y.keys().collect::<Vec<_>>())); } for (k, v) in x { close(v, y.get(k).ok_or(format!("{path}.{k} missing"))?, &format!("{path}.{k}"))?; } Ok(()) }
        (Value::Array(x), Value::Array(y)) => { if x.len() != y.len() { return Err(format!("{path}: array len {} vs {}", x.len(), y.len())); } for (i, (v, w)) in x.iter().zip(y).enumerate() { close(v, w, &format!("{path}[{i}]"))?; } Ok(()) }
        _ => if a == b { Ok(()) } else { Err(format!("{path}: {a} vs {b}")) },
    }
}
fn main() {
    let cases: u32 = std::env::args().nth(1).map(|s| s.parse().unwrap()).unwrap_or(300);
    let seed: u64 = std::env::args().nth(2).map(|s| s.parse().unwrap()).unwrap_or(1);
    let doc = (prop::collection::vec(-6i64..12, 0..3), prop::option::of((-8i32..16).prop_map(|x| x as f64 / 4.0)), prop::collection::vec(0u8..5, 0..3)).prop_map(|(n, f, s)| D { n, f, s });
    let strat = (prop::collection::vec(doc, 0..60), prop::collection::vec(0usize..60, 0..4), prop::collection::vec(reqstrat(), 1..6));
    let cfg = Config { cases, rng_seed: RngSeed::Fixed(seed), failure_persistence: None, max_shrink_iters: 2000, ..Config::default() };
    let mut runner = TestRunner::new(cfg);
    let nreq = std::cell::Cell::new(0usize);
    let res = runner.run(&strat, |(docs, cuts, reqs)| {
        let one = build(&docs, &[]);
        let many = build(&docs, &cuts);
        // also: separate indexes per partition
        let mut bounds: Vec<usize> = cuts.iter().cloned().filter(|c| *c > 0 && *c < docs.len()).collect(); bounds.sort(); bounds.dedup();
        let mut parts: Vec<Index> = vec![]; let mut start = 0;
        for b in bounds.iter().cloned().chain(std::iter::once(docs.len())) { parts.push(build(&docs[start..b], &[])); start = b; }
        for req in &reqs {
            nreq.set(nreq.get() + 1);
            let aggs: Aggregations = match serde_json::from_value(req.clone()) { Ok(a) => a, Err(e) => return Err(TestCaseError::fail(format!("bad req {req}: {e}"))) };
            let run = |ix: &Index| -> Result<Value, String> { let s = ix.reader().unwrap().searcher(); let c = AggregationCollector::from_aggs(aggs.clone(), AggContextParams::default()); s.search(&AllQuery, &c).map(|r| serde_json::to_value(r).unwrap()).map_err(|e| format!("{e:?}")) };
            let count_ordered = req["b"].get("terms").map(|t| t.get("order").is_none()).unwrap_or(false);
            let run = |ix: &Index| run(ix).map(|mut v| { if count_ordered { norm_ties(&mut v); } v });
            let r1 = run(&one); let r2 = run(&many);
            match (&r1, &r2) {
                (Ok(a), Ok(b)) => { close(a, b, "").map_err(|e| TestCaseError::fail(format!("SEGMENTATION req={req} diff {e}\n one={a}\n many={b}")))?; }
                (Err(_), Err(_)) => continue,
                _ => return Err(TestCaseError::fail(format!("req={req}: one={r1:?} many={r2:?}"))),
            }
            // distributed
            let mut acc = None;
            for p in parts.iter().rev() {
                let s = p.reader().unwrap().searcher();
                let c = DistributedAggregationCollector::from_aggs(aggs.clone(), AggContextParams::default());
                let inter = s.search(&AllQuery, &c).map_err(|e| TestCaseError::fail(format!("{e:?}")))?;
                match &mut acc { None => acc = Some(inter), Some(a) => a.merge_fruits(inter).map_err(|e| TestCaseError::fail(format!("merge {e:?}")))? }
            }
            let fin = acc.unwrap().into_final_result(aggs.clone(), Default::default()).map_err(|e| TestCaseError::fail(format!("final {e:?}")))?;
            let mut fin = serde_json::to_value(fin).unwrap();
            if count_ordered { norm_ties(&mut fin); }
            close(r1.as_ref().unwrap(), &fin, "").map_err(|e| TestCaseError::fail(format!("DISTRIBUTED req={req} diff {e}\n one={}\n dist={fin}", r1.as_ref().unwrap())))?;
        }
        Ok(())
    });
    println!("requests={} result={}", nreq.get(), match res { Ok(()) => "ok".to_string(), Err(e) => format!("{e:?}").chars().take(3500).collect() });
}
