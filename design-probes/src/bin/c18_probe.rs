// Throw-away probe for C18: writer lock lifecycle vs two-state model.
use proptest::prelude::*;
use proptest::test_runner::{Config, RngSeed, TestRunner};
use scratch::SimDir;
use tantivy::directory::{MmapDirectory, RamDirectory};
use tantivy::indexer::IndexWriterOptions;
use tantivy::schema::*;
use tantivy::{doc, Index, IndexWriter, TantivyError};

#[derive(Clone, Debug)]
enum Op { Create(u8), CreateBad(u8), Rollback, Drop, WaitMerge, AddCommit, Race(u8) }
fn main() {
    let cases: u32 = std::env::args().nth(1).map(|s| s.parse().unwrap()).unwrap_or(300);
    let seed: u64 = std::env::args().nth(2).map(|s| s.parse().unwrap()).unwrap_or(1);
    let op = prop_oneof![4 => (0u8..2).prop_map(Op::Create), 2 => (0u8..3).prop_map(Op::CreateBad), 2 => Just(Op::Rollback), 2 => Just(Op::Drop), 1 => Just(Op::WaitMerge), 2 => Just(Op::AddCommit), 1 => (2u8..6).prop_map(Op::Race)];
    let strat = (prop::collection::vec(op, 1..25), 0u8..3);
    let cfg = Config { cases, rng_seed: RngSeed::Fixed(seed), failure_persistence: None, max_shrink_iters: 2000, ..Config::default() };
    let mut runner = TestRunner::new(cfg);
    let res = runner.run(&strat, |(ops, dirkind)| {
        let mut sb = Schema::builder();
        let f = sb.add_u64_field("id", INDEXED);
        let schema = sb.build();
        let tmp = tempdir();
        let (i0, i1): (Index, Index) = match dirkind {
            0 => { let d = RamDirectory::create(); let a = Index::create(d.clone(), schema.clone(), Default::default()).unwrap(); let b = Index::open(d).unwrap(); (a, b) }
            1 => { let a = Index::create(MmapDirectory::open(&tmp).unwrap(), schema.clone(), Default::default()).unwrap(); let b = Index::open(MmapDirectory::open(&tmp).unwrap()).unwrap(); (a, b) }
            _ => { let d = SimDir::new(); let a = Index::create(d.clone(), schema.clone(), Default::default()).unwrap(); let b = Index::open(d).unwrap(); (a, b) }
        };
        let handles = [i0, i1];
        let mut holder: Option<IndexWriter> = None;
        for op in &ops {
            match op {
                Op::Create(h) => {
                    let r: tantivy::Result<IndexWriter> = handles[*h as usize].writer_with_num_threads(1, 15_000_000);
                    match (&holder, r) {
                        (None, Ok(w)) => holder = Some(w),
                        (Some(_), Err(TantivyError::LockFailure(..))) => {}
                        (None, Err(e)) => return Err(TestCaseError::fail(format!("creation failed although lock free: {e:?}"))),
                        (Some(_), Ok(_)) => return Err(TestCaseError::fail("second writer created while one is alive".to_string())),
                        (Some(_), Err(e)) => return Err(TestCaseError::fail(format!("unexpected error kind {e:?}"))),
                    }
                }
                Op::CreateBad(k) => {
                    let opts = match k { 0 => IndexWriterOptions::builder().memory_budget_per_thread(1000).build(), 1 => IndexWriterOptions::builder().num_worker_threads(0).build(), _ => IndexWriterOptions::builder().memory_budget_per_thread(usize::MAX / 2).build() };
                    let r: tantivy::Result<IndexWriter> = handles[0].writer_with_options(opts);
                    prop_assert!(r.is_err(), "bad options accepted");
                    if holder.is_none() { if let Err(TantivyError::LockFailure(..)) = r { return Err(TestCaseError::fail("LockFailure on bad options although lock free".to_string())); } }
                }
                Op::Rollback => { if let Some(w) = holder.as_mut() { w.add_document(doc!(f=>1u64)).unwrap(); w.rollback().map_err(|e| TestCaseError::fail(format!("rollback {e:?}")))?; } }
                Op::Drop => { holder = None; }
                Op::WaitMerge => { if let Some(w) = holder.take() { w.wait_merging_threads().map_err(|e| TestCaseError::fail(format!("{e:?}")))?; } }
                Op::AddCommit => { if let Some(w) = holder.as_mut() { w.add_document(doc!(f=>2u64)).unwrap(); w.commit().map_err(|e| TestCaseError::fail(format!("holder cannot commit: {e:?}")))?; } }
                Op::Race(n) => {
                    let results: Vec<tantivy::Result<IndexWriter>> = std::thread::scope(|s| { let hs: Vec<_> = (0..*n).map(|i| { let ix = &handles[(i % 2) as usize]; s.spawn(move || ix.writer_with_num_threads(1, 15_000_000)) }).collect(); hs.into_iter().map(|h| h.join().unwrap()).collect() });
                    let oks: Vec<IndexWriter> = results.into_iter().filter_map(|r| r.ok()).collect();
                    if holder.is_some() { prop_assert!(oks.is_empty(), "race: {} writers created while one alive", oks.len()); }
                    else { prop_assert!(oks.len() == 1, "race: {} writers created (expected exactly 1)", oks.len()); holder = oks.into_iter().next(); }
                }
            }
        }
        drop(holder);
        let w: tantivy::Result<IndexWriter> = handles[1].writer_with_num_threads(1, 15_000_000);
        prop_assert!(w.is_ok(), "cannot create writer at the end: {:?}", w.err());
        drop(w);
        let _ = std::fs::remove_dir_all(&tmp);
        Ok(())
    });
    println!("result={}", match res { Ok(()) => "ok".to_string(), Err(e) => format!("{e:?}").chars().take(1500).collect() });
}
fn tempdir() -> std::path::PathBuf {
    use std::sync::atomic::{AtomicUsize, Ordering};
    static N: AtomicUsize = AtomicUsize::new(0);
    let p = std::path::PathBuf::from(format!("/tmp/scratch/tmpdirs/{}-{}", std::process::id(), N.fetch_add(1, Ordering::Relaxed)));
    std::fs::create_dir_all(&p).unwrap();
    p
}
