// Throw-away probe for C04 (merge as translation) + C12 (segmentation independence of scores without deletes).
use proptest::prelude::*;
use proptest::test_runner::{Config, RngSeed, TestRunner};
use std::collections::BTreeMap;
use tantivy::collector::TopDocs;
use tantivy::postings::Postings;
use tantivy::query::TermQuery;
use tantivy::schema::*;
use tantivy::{doc, DocSet, Index, IndexWriter, Searcher, SegmentReader, Term, TERMINATED};

type Rec = (String, Vec<u64>, Vec<String>, u8, BTreeMap<String, (u32, Vec<u32>)>); // stored json, nums, tags, fieldnorm id, term -> (tf, positions)
fn dump_segment(r: &SegmentReader, schema: &Schema) -> Vec<(u64, Rec)> {
    let uidc = r.fast_fields().u64("uid").unwrap();
    let numc = r.fast_fields().u64("nums").unwrap();
    let tagc = r.fast_fields().str("tag").unwrap().unwrap();
    let body = schema.get_field("body").unwrap();
    let store = r.get_store_reader(10).unwrap();
    let fnr = r.get_fieldnorms_reader(body).unwrap();
    let inv = r.inverted_index(body).unwrap();
    let mut per_doc: BTreeMap<u32, BTreeMap<String, (u32, Vec<u32>)>> = BTreeMap::new();
    let mut st = inv.terms().stream().unwrap();
    while st.advance() {
        let key = String::from_utf8(st.key().to_vec()).unwrap();
        let mut p = inv.read_postings_from_terminfo(st.value(), IndexRecordOption::WithFreqsAndPositions).unwrap();
        let mut pos = vec![];
        let mut alive_count = 0;
        while p.doc() != TERMINATED {
            if r.alive_bitset().map(|b| b.is_alive(p.doc())).unwrap_or(true) { p.positions(&mut pos); per_doc.entry(p.doc()).or_default().insert(key.clone(), (p.term_freq(), pos.clone())); alive_count += 1; }
            p.advance();
        }
        let _ = alive_count;
    }
    let mut out = vec![];
    for d in r.doc_ids_alive() {
        let u = uidc.first(d).unwrap();
        let stored: TantivyDocument = store.get(d).unwrap();
        let mut tags = vec![];
        for ord in tagc.term_ords(d) { let mut s = String::new(); tagc.ord_to_str(ord, &mut s).unwrap(); tags.push(s); }
        out.push((u, (stored.to_json(schema), numc.values_for_doc(d).collect(), tags, fnr.fieldnorm_id(d), per_doc.remove(&d).unwrap_or_default())));
    }
    out
}
fn scores(s: &Searcher, f: Field, terms: &[String]) -> BTreeMap<(String, u64), u32> {
    let mut m = BTreeMap::new();
    for t in terms {
        let q = TermQuery::new(Term::from_field_text(f, t), IndexRecordOption::WithFreqs);
        for (sc, a) in s.search(&q, &TopDocs::with_limit(100000).order_by_score()).unwrap() {
            let u = s.segment_reader(a.segment_ord).fast_fields().u64("uid").unwrap().first(a.doc_id).unwrap();
            m.insert((t.clone(), u), sc.to_bits());
        }
    }
    m
}
fn main() {
    let cases: u32 = std::env::args().nth(1).map(|s| s.parse().unwrap()).unwrap_or(150);
    let seed: u64 = std::env::args().nth(2).map(|s| s.parse().unwrap()).unwrap_or(1);
    let docstrat = (prop::collection::vec(prop::collection::vec(0u8..8, 0..9), 0..3), prop::collection::vec(0u64..50, 0..3), prop::collection::vec(0u8..5, 0..3));
    let strat = (prop::collection::vec(docstrat, 1..200), prop::collection::vec(0usize..200, 1..6), prop::collection::vec(0usize..200, 0..10), any::<bool>(), prop::collection::vec(any::<u32>(), 8));
    let cfg = Config { cases, rng_seed: RngSeed::Fixed(seed), failure_persistence: None, max_shrink_iters: 1000, ..Config::default() };
    let mut runner = TestRunner::new(cfg);
    let merges = std::cell::Cell::new(0usize);
    let res = runner.run(&strat, |(docs, cuts, dels, with_deletes, pick)| {
        let mut sb = Schema::builder();
        let uid = sb.add_u64_field("uid", FAST | INDEXED | STORED);
        let body = sb.add_text_field("body", TEXT | STORED);
        let nums = sb.add_u64_field("nums", FAST | STORED);
        let tag = sb.add_text_field("tag", STRING | FAST | STORED);
        let schema = sb.build();
        let index = Index::create_in_ram(schema.clone());
        let mut w: IndexWriter = index.writer_with_num_threads(1, 15_000_000).unwrap();
        w.set_merge_policy(Box::new(tantivy::merge_policy::NoMergePolicy));
        for (i, (vals, ns, ts)) in docs.iter().enumerate() {
            if cuts.contains(&i) && i > 0 { w.commit().unwrap(); }
            let mut d = doc!(uid => i as u64);
            for v in vals { d.add_text(body, v.iter().map(|x| format!("w{x}")).collect::<Vec<_>>().join(" ")); }
            for n in ns { d.add_u64(nums, *n); }
            for t in ts { d.add_text(tag, format!("t{t}")); }
            w.add_document(d).unwrap();
        }
        w.commit().unwrap();
        if with_deletes { for x in &dels { w.delete_term(Term::from_field_u64(uid, (*x % docs.len()) as u64)); } w.commit().unwrap(); }
        let terms: Vec<String> = (0..8).map(|x| format!("w{x}")).collect();
        let before = index.reader().unwrap().searcher();
        let ids = index.searchable_segment_ids().unwrap();
        if ids.len() < 2 { return Ok(()); }
        // choose subset/order
        let mut order: Vec<usize> = (0..ids.len()).collect();
        order.sort_by_key(|i| pick[*i % pick.len()].wrapping_mul(*i as u32 + 1));
        let take = 2 + (pick[0] as usize) % (ids.len() - 1);
        let chosen: Vec<_> = order.iter().take(take).map(|i| ids[*i]).collect();
        let src_dump: Vec<(u64, Rec)> = chosen.iter().flat_map(|id| { let r = before.segment_readers().iter().find(|r| r.segment_id() == *id).unwrap(); dump_segment(r, &schema) }).collect();
        let score_before = if !with_deletes { Some(scores(&before, body, &terms)) } else { None };
        let merged_meta = w.merge(&chosen).wait().map_err(|e| TestCaseError::fail(format!("merge {e:?}")))?;
        merges.set(merges.get() + 1);
        let after = index.reader().unwrap().searcher();
        match merged_meta {
            None => prop_assert!(src_dump.is_empty(), "merge produced nothing but sources had {} live docs", src_dump.len()),
            Some(m) => {
                let r = after.segment_readers().iter().find(|r| r.segment_id() == m.id()).ok_or_else(|| TestCaseError::fail("merged segment not searchable"))?;
                prop_assert_eq!(r.num_deleted_docs(), 0);
                let dst = dump_segment(r, &schema);
                prop_assert_eq!(dst.len(), src_dump.len(), "live doc count");
                for (i, (a, b)) in src_dump.iter().zip(dst.iter()).enumerate() { prop_assert!(a == b, "doc #{} differs after merge:\n src={:?}\n dst={:?}", i, a, b); }
                // term dictionary has no dead terms, doc_freq exact
                let inv = r.inverted_index(body).unwrap();
                let mut st = inv.terms().stream().unwrap();
                while st.advance() { let key = String::from_utf8(st.key().to_vec()).unwrap(); let df = src_dump.iter().filter(|(_, rec)| rec.4.contains_key(&key)).count() as u32; prop_assert_eq!(st.value().doc_freq, df, "doc_freq of {}", key); prop_assert!(df > 0, "dead term {} kept", key); }
            }
        }
        if let Some(sb) = score_before { let sa = scores(&after, body, &terms); prop_assert!(sb == sa, "scores changed by a merge without deletes: {} vs {} entries; first diff {:?}", sb.len(), sa.len(), sb.iter().find(|(k, v)| sa.get(*k) != Some(*v))); }
        Ok(())
    });
    println!("merges={} result={}", merges.get(), match res { Ok(()) => "ok".to_string(), Err(e) => format!("{e:?}").chars().take(2500).collect() });
}
