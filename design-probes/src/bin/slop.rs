use tantivy::collector::Count;
use tantivy::query::PhraseQuery;
use tantivy::schema::*;
use tantivy::{doc, Index, IndexWriter, Term};
fn main() {
    let docs = ["a x b x c", "a b x x c", "a b b b c", "a x x b c", "a b b c", "a c b", "b a c", "c b a", "a b c", "a x b c", "a b x c", "a c", "a b a b c", "a a b c c", "b c a", "a x c b"];
    let mut sb = Schema::builder();
    let f = sb.add_text_field("t", TEXT);
    let index = Index::create_in_ram(sb.build());
    let mut w: IndexWriter = index.writer_with_num_threads(1, 15_000_000).unwrap();
    for d in docs { w.add_document(doc!(f=>d)).unwrap(); w.commit().unwrap(); }
    for d in docs {
        let index = Index::create_in_ram({ let mut sb = Schema::builder(); sb.add_text_field("t", TEXT); sb.build() });
        let mut w: IndexWriter = index.writer_with_num_threads(1, 15_000_000).unwrap();
        w.add_document(doc!(f=>d)).unwrap(); w.commit().unwrap();
        let s = index.reader().unwrap().searcher();
        let mut line = format!("{d:12}");
        for slop in 0..4 {
            let mut q = PhraseQuery::new(vec![Term::from_field_text(f, "a"), Term::from_field_text(f, "b"), Term::from_field_text(f, "c")]);
            q.set_slop(slop);
            line += &format!(" ~{slop}:{}", s.search(&q, &Count).unwrap());
        }
        println!("\"a b c\" vs {line}");
    }
}
