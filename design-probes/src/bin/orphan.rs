use scratch::SimDir;
use std::collections::BTreeSet;
use tantivy::schema::*;
use tantivy::{doc, Index, IndexWriter};
fn orphans(index: &Index, dir: &SimDir) -> Vec<String> {
    let present: BTreeSet<String> = dir.st.lock().unwrap().files.keys().map(|p| p.to_str().unwrap().to_string()).filter(|p| !p.starts_with('.')).collect();
    let mut expected: BTreeSet<String> = index.searchable_segment_metas().unwrap().iter().flat_map(|m| m.list_files()).map(|p| p.to_str().unwrap().to_string()).collect();
    expected.insert("meta.json".into());
    present.difference(&expected).cloned().collect()
}
fn main() {
    let mut bad = 0;
    for trial in 0..200 {
        let mut sb = Schema::builder();
        let f = sb.add_u64_field("id", INDEXED);
        let dir = SimDir::new();
        let index = Index::create(dir.clone(), sb.build(), Default::default()).unwrap();
        let mut w: IndexWriter = index.writer_with_num_threads(3, 45_000_000).unwrap();
        w.set_merge_policy(Box::new(tantivy::merge_policy::NoMergePolicy));
        let mut n = 0u64;
        let mut add = |w: &mut IndexWriter, k: usize| { for _ in 0..k { w.add_document(doc!(f=>n)).unwrap(); n += 1; } };
        add(&mut w, 4); w.commit().unwrap(); w.garbage_collect_files().wait().unwrap();
        add(&mut w, 1); w.prepare_commit().unwrap().abort().unwrap();
        w.set_merge_policy(Box::new(tantivy::merge_policy::NoMergePolicy));
        add(&mut w, 2); w.commit().unwrap(); w.garbage_collect_files().wait().unwrap();
        let o1 = orphans(&index, &dir);
        add(&mut w, 3); w.commit().unwrap(); w.garbage_collect_files().wait().unwrap();
        let o2 = orphans(&index, &dir);
        if !o1.is_empty() || !o2.is_empty() {
            bad += 1;
            let managed = index.directory().list_managed_files();
            let in_managed = o2.iter().filter(|p| managed.contains(&std::path::PathBuf::from(String::clone(p)))).count();
            std::thread::sleep(std::time::Duration::from_millis(200));
            w.garbage_collect_files().wait().unwrap();
            let o3 = orphans(&index, &dir);
            if bad <= 3 { println!("trial {trial}: orphans after 2nd commit {} after 3rd commit {} (managed {in_managed}); after sleep+gc {}", o1.len(), o2.len(), o3.len()); }
        }
    }
    println!("bad trials: {bad}/200");
}
