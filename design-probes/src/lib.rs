// Draft SimDir shared by the throw-away probes (design-time prototype).
use std::collections::{BTreeMap, HashMap};
use std::io::{self, BufWriter, Write};
use std::path::{Path, PathBuf};
use std::sync::{Arc, Condvar, Mutex};
use std::time::{Duration, Instant};

use tantivy::directory::error::{DeleteError, OpenReadError, OpenWriteError};
use tantivy::directory::{
    AntiCallToken, Directory, FileHandle, FileSlice, RamDirectory, TerminatingWrite, WatchCallback,
    WatchCallbackList, WatchHandle, WritePtr,
};

#[derive(Clone, Debug, PartialEq, Eq, Hash, PartialOrd, Ord, Copy)]
pub enum K {
    Create,
    Append,
    Flush,
    Terminate,
    AtomicWrite,
    AtomicRead,
    OpenRead,
    Exists,
    Delete,
    SyncDir,
}
#[derive(Clone, Debug)]
pub struct Op {
    pub thread: String,
    pub kind: K,
    pub path: PathBuf,
    pub data: Option<Vec<u8>>,
    pub failed: bool,
}
#[derive(Clone, Debug)]
pub struct FaultPlan {
    /// fail the n-th (0-based) op among those matching `kinds` (empty = all mutating kinds)
    pub nth: usize,
    pub kinds: Vec<K>,
    pub permanent: bool,
}
#[derive(Default)]
pub struct State {
    pub files: HashMap<PathBuf, Arc<Vec<u8>>>,
    pub log: Vec<Op>,
    pub fault: Option<FaultPlan>,
    pub fault_counter: usize,
    pub faults_fired: usize,
    pub gate: Option<(String, K, String)>, // thread prefix, kind, path suffix
    pub gate_reached: bool,
    pub gate_open: bool,
}
#[derive(Clone)]
pub struct SimDir {
    pub st: Arc<Mutex<State>>,
    pub cv: Arc<Condvar>,
    watch: Arc<WatchCallbackList>,
}
impl std::fmt::Debug for SimDir {
    fn fmt(&self, f: &mut std::fmt::Formatter<'_>) -> std::fmt::Result {
        write!(f, "SimDir")
    }
}
fn tname() -> String {
    std::thread::current().name().unwrap_or("?").to_string()
}
fn is_lock(p: &Path) -> bool {
    p.to_str().map(|s| s.ends_with(".lock")).unwrap_or(false)
}
impl SimDir {
    pub fn new() -> Self {
        SimDir { st: Default::default(), cv: Default::default(), watch: Default::default() }
    }
    pub fn log_len(&self) -> usize {
        self.st.lock().unwrap().log.len()
    }
    pub fn set_fault(&self, f: Option<FaultPlan>) {
        let mut st = self.st.lock().unwrap();
        st.fault = f;
        st.fault_counter = 0;
    }
    pub fn arm_gate(&self, thread_prefix: &str, kind: K, path_suffix: &str) {
        let mut st = self.st.lock().unwrap();
        st.gate = Some((thread_prefix.to_string(), kind, path_suffix.to_string()));
        st.gate_reached = false;
        st.gate_open = false;
    }
    pub fn wait_gate(&self, timeout: Duration) -> bool {
        let deadline = Instant::now() + timeout;
        let mut st = self.st.lock().unwrap();
        while !st.gate_reached {
            let now = Instant::now();
            if now >= deadline { return false; }
            st = self.cv.wait_timeout(st, deadline - now).unwrap().0;
        }
        true
    }
    pub fn open_gate(&self) {
        let mut st = self.st.lock().unwrap();
        st.gate_open = true;
        st.gate = None;
        self.cv.notify_all();
    }
    /// returns Err if the op must fail. Also handles gates. Logs the op.
    fn op(&self, kind: K, path: &Path, data: Option<&[u8]>) -> io::Result<()> {
        let mut st = self.st.lock().unwrap();
        let thread = tname();
        // gate
        let hit = match &st.gate { Some((tp, k, suf)) => thread.starts_with(tp.as_str()) && *k == kind && path.to_str().unwrap_or("").ends_with(suf.as_str()), None => false };
        if hit {
            st.gate = None;
            st.gate_reached = true;
            self.cv.notify_all();
            let deadline = Instant::now() + Duration::from_millis(400);
            while !st.gate_open && Instant::now() < deadline {
                st = self.cv.wait_timeout(st, Duration::from_millis(50)).unwrap().0;
            }
        }
        // fault
        let mut fail = false;
        if !is_lock(path) {
            if let Some(f) = st.fault.clone() {
                let matches = if f.kinds.is_empty() { !matches!(kind, K::Exists) } else { f.kinds.contains(&kind) };
                if matches {
                    let c = st.fault_counter;
                    st.fault_counter += 1;
                    if c == f.nth || (f.permanent && c > f.nth) { fail = true; st.faults_fired += 1; }
                }
            }
        }
        st.log.push(Op { thread, kind, path: path.to_path_buf(), data: data.map(|d| d.to_vec()), failed: fail });
        if fail { Err(io::Error::other("injected fault")) } else { Ok(()) }
    }
}
struct SimWriter {
    dir: SimDir,
    path: PathBuf,
    data: Vec<u8>,
}
impl Write for SimWriter {
    fn write(&mut self, buf: &[u8]) -> io::Result<usize> {
        self.dir.op(K::Append, &self.path, Some(buf))?;
        self.data.extend_from_slice(buf);
        Ok(buf.len())
    }
    fn flush(&mut self) -> io::Result<()> {
        self.dir.op(K::Flush, &self.path, None)?;
        self.dir.st.lock().unwrap().files.insert(self.path.clone(), Arc::new(self.data.clone()));
        Ok(())
    }
}
impl TerminatingWrite for SimWriter {
    fn terminate_ref(&mut self, _: AntiCallToken) -> io::Result<()> {
        self.dir.op(K::Terminate, &self.path, None)?;
        self.dir.st.lock().unwrap().files.insert(self.path.clone(), Arc::new(self.data.clone()));
        Ok(())
    }
}
impl Directory for SimDir {
    fn get_file_handle(&self, path: &Path) -> Result<Arc<dyn FileHandle>, OpenReadError> {
        self.op(K::OpenRead, path, None).map_err(|e| OpenReadError::wrap_io_error(e, path.to_path_buf()))?;
        let st = self.st.lock().unwrap();
        let data = st.files.get(path).ok_or_else(|| OpenReadError::FileDoesNotExist(path.to_path_buf()))?;
        Ok(Arc::new(FileSlice::from(data.to_vec())))
    }
    fn delete(&self, path: &Path) -> Result<(), DeleteError> {
        if !self.st.lock().unwrap().files.contains_key(path) {
            return Err(DeleteError::FileDoesNotExist(path.to_path_buf()));
        }
        self.op(K::Delete, path, None).map_err(|e| DeleteError::IoError { io_error: Arc::new(e), filepath: path.to_path_buf() })?;
        self.st.lock().unwrap().files.remove(path);
        Ok(())
    }
    fn exists(&self, path: &Path) -> Result<bool, OpenReadError> {
        Ok(self.st.lock().unwrap().files.contains_key(path))
    }
    fn open_write(&self, path: &Path) -> Result<WritePtr, OpenWriteError> {
        {
            let mut st = self.st.lock().unwrap();
            if st.files.contains_key(path) {
                return Err(OpenWriteError::FileAlreadyExists(path.to_path_buf()));
            }
            st.files.insert(path.to_path_buf(), Arc::new(Vec::new()));
        }
        if let Err(e) = self.op(K::Create, path, None) {
            self.st.lock().unwrap().files.remove(path);
            return Err(OpenWriteError::wrap_io_error(e, path.to_path_buf()));
        }
        Ok(BufWriter::new(Box::new(SimWriter { dir: self.clone(), path: path.to_path_buf(), data: Vec::new() })))
    }
    fn atomic_read(&self, path: &Path) -> Result<Vec<u8>, OpenReadError> {
        if !self.st.lock().unwrap().files.contains_key(path) {
            return Err(OpenReadError::FileDoesNotExist(path.to_path_buf()));
        }
        self.op(K::AtomicRead, path, None).map_err(|e| OpenReadError::wrap_io_error(e, path.to_path_buf()))?;
        let st = self.st.lock().unwrap();
        st.files.get(path).map(|d| d.to_vec()).ok_or_else(|| OpenReadError::FileDoesNotExist(path.to_path_buf()))
    }
    fn atomic_write(&self, path: &Path, data: &[u8]) -> io::Result<()> {
        self.op(K::AtomicWrite, path, Some(data))?;
        self.st.lock().unwrap().files.insert(path.to_path_buf(), Arc::new(data.to_vec()));
        if path == Path::new("meta.json") {
            drop(self.watch.broadcast());
        }
        Ok(())
    }
    fn sync_directory(&self) -> io::Result<()> {
        self.op(K::SyncDir, Path::new(""), None)
    }
    fn watch(&self, cb: WatchCallback) -> tantivy::Result<WatchHandle> {
        Ok(self.watch.subscribe(cb))
    }
}

// ---------- durability replay ----------
#[derive(Clone, Debug)]
pub enum Pending {
    Create(PathBuf),
    Rename(PathBuf, Vec<u8>),
    Unlink(PathBuf),
}
#[derive(Default, Clone)]
pub struct FileDur {
    pub written: Vec<u8>,
    pub synced: usize,
}
pub struct Replay {
    pub durable: BTreeMap<PathBuf, bool>, // path -> is_atomic
    pub atomic_durable: BTreeMap<PathBuf, Vec<u8>>,
    pub data: HashMap<PathBuf, FileDur>,
    pub pending: Vec<Pending>,
}
pub fn replay(log: &[Op]) -> Replay {
    let mut r = Replay { durable: BTreeMap::new(), atomic_durable: BTreeMap::new(), data: HashMap::new(), pending: vec![] };
    for op in log {
        if is_lock(&op.path) || op.failed {
            continue;
        }
        match op.kind {
            K::Create => {
                r.data.insert(op.path.clone(), FileDur::default());
                r.pending.push(Pending::Create(op.path.clone()));
            }
            K::Append => r.data.get_mut(&op.path).unwrap().written.extend_from_slice(op.data.as_ref().unwrap()),
            K::Terminate => {
                let f = r.data.get_mut(&op.path).unwrap();
                f.synced = f.written.len();
            }
            K::AtomicWrite => r.pending.push(Pending::Rename(op.path.clone(), op.data.clone().unwrap())),
            K::Delete => r.pending.push(Pending::Unlink(op.path.clone())),
            K::SyncDir => {
                for p in std::mem::take(&mut r.pending) {
                    apply(&mut r.durable, &mut r.atomic_durable, &p);
                }
            }
            _ => {}
        }
    }
    r
}
pub fn apply(durable: &mut BTreeMap<PathBuf, bool>, atomic: &mut BTreeMap<PathBuf, Vec<u8>>, p: &Pending) {
    match p {
        Pending::Create(path) => {
            durable.insert(path.clone(), false);
        }
        Pending::Rename(path, content) => {
            durable.insert(path.clone(), true);
            atomic.insert(path.clone(), content.clone());
        }
        Pending::Unlink(path) => {
            durable.remove(path);
            atomic.remove(path);
        }
    }
}
pub fn image(r: &Replay, mask: &dyn Fn(usize) -> bool, full_data: bool) -> RamDirectory {
    let mut durable = r.durable.clone();
    let mut atomic = r.atomic_durable.clone();
    for (i, p) in r.pending.iter().enumerate() {
        if mask(i) {
            apply(&mut durable, &mut atomic, p);
        }
    }
    let ram = RamDirectory::create();
    for (path, is_atomic) in durable.iter() {
        let content: Vec<u8> = if *is_atomic {
            atomic[path].clone()
        } else {
            let f = &r.data[path];
            if full_data { f.written.clone() } else { f.written[..f.synced].to_vec() }
        };
        ram.atomic_write(path, &content).unwrap();
    }
    ram
}
