//! Canonical logical dump of a segment through public readers only: per live document its stored
//! fields, every fast value, field-norm ids and, for every indexed term, (tf, positions).
use std::collections::BTreeMap;

use serde::Serialize;
use tantivy::postings::Postings;
use tantivy::schema::{FieldType, IndexRecordOption, Schema, Type};
use tantivy::{DocSet, Document, SegmentReader, TantivyDocument, TERMINATED};

use crate::engine::*;

#[derive(Clone, Debug, PartialEq, Serialize)]
pub struct DocDump {
    pub uid: u64,
    pub stored: String,
    /// field -> values rendered canonically (bit-exact for floats)
    pub fast: Vec<(String, Vec<String>)>,
    pub norms: Vec<(String, u8)>,
    /// (field, term bytes, tf, positions)
    pub terms: Vec<(String, Vec<u8>, u32, Vec<u32>)>,
}

#[derive(Clone, Debug, Default)]
pub struct SegDump {
    /// live documents in doc-id order
    pub docs: Vec<DocDump>,
    /// per field: (term bytes, doc_freq as stored in the dictionary)
    pub doc_freqs: Vec<(String, Vec<u8>, u32)>,
    pub max_doc: u32,
    pub num_deleted: u32,
}

pub fn record_option_of(ft: &FieldType) -> Option<IndexRecordOption> {
    match ft {
        FieldType::Str(o) => o.get_indexing_options().map(|i| i.index_option()),
        FieldType::JsonObject(o) => o.get_text_indexing_options().map(|i| i.index_option()),
        _ => {
            if ft.is_indexed() {
                Some(IndexRecordOption::Basic)
            } else {
                None
            }
        }
    }
}

pub fn dump_segment(seg: &SegmentReader, schema: &Schema, uid_field: &str) -> Result<SegDump, Failure> {
    let max_doc = seg.max_doc();
    let mut per_doc: BTreeMap<u32, DocDump> = BTreeMap::new();
    let uid_col = seg.fast_fields().u64(uid_field).or_fail("dump:uid_column")?;
    let store = seg.get_store_reader(4).or_fail("dump:store_reader")?;
    for doc in seg.doc_ids_alive() {
        let d: TantivyDocument = store.get(doc).or_fail("dump:store_get")?;
        let uid = uid_col.first(doc).unwrap_or(u64::MAX);
        per_doc.insert(doc, DocDump { uid, stored: d.to_json(schema), fast: vec![], norms: vec![], terms: vec![] });
    }
    let mut doc_freqs = vec![];
    for (field, entry) in schema.fields() {
        let name = entry.name().to_string();
        let ft = entry.field_type();
        // fast values
        if entry.is_fast() {
            let ff = seg.fast_fields();
            for (doc, dd) in per_doc.iter_mut() {
                let vals: Vec<String> = match ft.value_type() {
                    Type::U64 => ff.u64(&name).or_fail("dump:fast")?.values_for_doc(*doc).map(|v| v.to_string()).collect(),
                    Type::I64 => ff.i64(&name).or_fail("dump:fast")?.values_for_doc(*doc).map(|v| v.to_string()).collect(),
                    Type::F64 => ff.f64(&name).or_fail("dump:fast")?.values_for_doc(*doc).map(|v| format!("{:016x}", v.to_bits())).collect(),
                    Type::Bool => ff.bool(&name).or_fail("dump:fast")?.values_for_doc(*doc).map(|v| v.to_string()).collect(),
                    Type::Date => ff.date(&name).or_fail("dump:fast")?.values_for_doc(*doc).map(|v| v.into_timestamp_nanos().to_string()).collect(),
                    Type::IpAddr => ff.ip_addr(&name).or_fail("dump:fast")?.values_for_doc(*doc).map(|v| v.to_string()).collect(),
                    Type::Str => match ff.str(&name).or_fail("dump:fast")? {
                        Some(col) => {
                            let mut out = vec![];
                            for ord in col.term_ords(*doc) {
                                let mut s = String::new();
                                col.ord_to_str(ord, &mut s).or_fail("dump:ord_to_str")?;
                                out.push(s);
                            }
                            out
                        }
                        None => vec![],
                    },
                    Type::Bytes => match ff.bytes(&name).or_fail("dump:fast")? {
                        Some(col) => {
                            let mut out = vec![];
                            for ord in col.term_ords(*doc) {
                                let mut b = vec![];
                                col.ord_to_bytes(ord, &mut b).or_fail("dump:ord_to_bytes")?;
                                out.push(format!("{b:?}"));
                            }
                            out
                        }
                        None => vec![],
                    },
                    _ => vec![],
                };
                dd.fast.push((name.clone(), vals));
            }
        }
        // field norms
        if ft.is_indexed() && entry.has_fieldnorms() {
            let fnr = seg.get_fieldnorms_reader(field).or_fail("dump:fieldnorms")?;
            for (doc, dd) in per_doc.iter_mut() {
                dd.norms.push((name.clone(), fnr.fieldnorm_id(*doc)));
            }
        }
        // postings
        if let Some(opt) = record_option_of(ft) {
            let inv = seg.inverted_index(field).or_fail("dump:inverted_index")?;
            let mut stream = inv.terms().stream().or_fail("dump:term_stream")?;
            let mut reused: [Option<tantivy::postings::BlockSegmentPostings>; 3] = [None, None, None];
            while stream.advance() {
                let key = stream.key().to_vec();
                let ti = stream.value().clone();
                doc_freqs.push((name.clone(), key.clone(), ti.doc_freq));
                // a JSON field records frequencies / positions only for its text terms (key = path, 0, type code, value)
                let opt = if matches!(ft, FieldType::JsonObject(_)) {
                    let is_text = key.iter().position(|b| *b == 0).and_then(|p| key.get(p + 1)).map(|c| *c == Type::Str.to_code()).unwrap_or(false);
                    if is_text {
                        opt
                    } else {
                        IndexRecordOption::Basic
                    }
                } else {
                    opt
                };
                let mut postings = inv.read_postings_from_terminfo(&ti, opt).or_fail("dump:read_postings")?;
                let mut positions = vec![];
                let mut d = postings.doc();
                let mut all_docs: Vec<u32> = vec![];
                while d != TERMINATED {
                    all_docs.push(d);
                    if let Some(dd) = per_doc.get_mut(&d) {
                        let tf = if opt.has_freq() { postings.term_freq() } else { 0 };
                        positions.clear();
                        if opt.has_positions() {
                            postings.positions(&mut positions);
                        }
                        dd.terms.push((name.clone(), key.clone(), tf, positions.clone()));
                    }
                    d = postings.advance();
                }
                // the same list once more through a block cursor that is *reused* from term to term (one cursor per record
                // option, reset onto the next term after it has walked the previous list to its end)
                let slot = match opt {
                    IndexRecordOption::Basic => 0,
                    IndexRecordOption::WithFreqs => 1,
                    IndexRecordOption::WithFreqsAndPositions => 2,
                };
                // (not for JSON fields: their text and non-text terms are encoded differently, a cursor cannot be moved
                // from one kind to the other)
                if matches!(ft, FieldType::JsonObject(_)) {
                    continue;
                }
                match reused[slot].as_mut() {
                    None => reused[slot] = Some(inv.read_block_postings_from_terminfo(&ti, opt).or_fail("dump:read_block_postings")?),
                    Some(cursor) => inv.reset_block_postings_from_terminfo(&ti, cursor).or_fail("dump:reset_block_postings")?,
                }
                let cursor = reused[slot].as_mut().unwrap();
                let mut via_blocks: Vec<u32> = vec![];
                for _ in 0..(ti.doc_freq as usize / 64 + 4) {
                    let docs = cursor.docs();
                    if docs.is_empty() {
                        break;
                    }
                    via_blocks.extend_from_slice(docs);
                    cursor.advance();
                }
                if via_blocks != all_docs {
                    let pos = via_blocks.iter().zip(all_docs.iter()).position(|(a, b)| a != b).unwrap_or(via_blocks.len().min(all_docs.len()));
                    return Err(Failure::new(
                        "dump:reused_block_cursor_differs",
                        format!("field {name} term {key:?}: a block cursor reset onto this term yields {} docs, the postings {}; first difference at #{pos}: {:?} vs {:?}", via_blocks.len(), all_docs.len(), via_blocks.get(pos), all_docs.get(pos)),
                    ));
                }
            }
        }
    }
    Ok(SegDump { docs: per_doc.into_values().collect(), doc_freqs, max_doc, num_deleted: seg.num_deleted_docs() })
}
