//! Operation histories on an IndexWriter and the pure sequential model they are judged against.
//! Shared by C02 (model-based histories), C01 (crash images), C05, C10, C11 and C17.
use std::collections::{BTreeMap, BTreeSet};
use std::ops::Bound;
use std::path::PathBuf;

use proptest::prelude::*;
use serde::{Deserialize, Serialize};
use tantivy::collector::Count;
use tantivy::directory::MmapDirectory;
use tantivy::indexer::{LogMergePolicy, NoMergePolicy, UserOperation};
use tantivy::query::{BooleanQuery, Occur, Query, RangeQuery, TermQuery};
use tantivy::schema::*;
use tantivy::{Index, IndexReader, IndexSettings, IndexSortByField, IndexWriter, Order, ReloadPolicy, Searcher, TantivyDocument, Term};

use crate::engine::*;
use crate::simdir::SimDir;
use crate::util::{writer, WriterCfg};
use crate::{ensure, fail};

pub const NUM_GROUPS: u8 = 4;
pub const NUM_WORDS: u8 = 6;

#[derive(Clone, Debug, PartialEq, Eq, Serialize, Deserialize)]
pub struct DocRec {
    pub grp: u8,
    pub words: Vec<u8>,
    pub num: i64,
}
impl DocRec {
    pub fn body(&self) -> String {
        self.words.iter().map(|w| format!("w{w}")).collect::<Vec<_>>().join(" ")
    }
}
pub type Model = BTreeMap<u64, DocRec>;

#[derive(Clone, Debug, Serialize, Deserialize)]
pub struct AddSpec {
    pub grp: u8,
    pub words: Vec<u8>,
    pub num: i16,
}
#[derive(Clone, Debug, Serialize, Deserialize)]
pub enum BatchItem {
    Add(AddSpec),
    DelGroup(u8),
    DelUid(u16),
}
#[derive(Clone, Debug, Serialize, Deserialize)]
pub enum Op {
    Add(AddSpec),
    /// `n` documents each carrying ~60 000 unique tokens in the (non-stored) `bulk` field: several of them make an
    /// indexing worker reach its memory budget, i.e. the *real* "segment cut inside a transaction" path
    BigRun(AddSpec, u8),
    /// delete_term on the uid of a previously added document (index into all uids so far)
    DelUid(u16),
    DelGroup(u8),
    /// delete_query(num in [lo, hi])
    DelRange(i16, i16),
    /// delete_query(+grp:g +body:w)
    DelBool(u8, u8),
    Batch(Vec<BatchItem>),
    DeleteAll,
    Commit,
    /// prepare_commit, set_payload, then commit
    PrepareCommit,
    /// prepare_commit + payload, commit_future() (not awaited), delete_term(uid) - which belongs to the NEXT transaction -,
    /// then wait for the commit
    CommitThenDelete(u16),
    /// commit while the end of a merge of committed segments is in flight (SimDir only, otherwise a plain commit): the
    /// merge thread is held at its first file, the commit is started and held inside its meta.json write, the merge
    /// runs to its end (its end_merge task queues behind the commit), then the commit is released
    CommitDuringMergeEnd,
    /// prepare_commit, then abort
    PrepareAbort,
    Rollback,
    /// merge the searchable segments selected by the bit mask (at least two must be selected)
    Merge(u16),
    /// wait_merging_threads (consumes the writer), then a new writer
    WaitMerges,
    /// drop the writer, then a new writer
    Reopen,
    /// open the index again from its directory (new Index handle), new writer on it
    ReopenIndex,
    Gc,
}

pub fn add_strategy() -> impl Strategy<Value = AddSpec> {
    (0..NUM_GROUPS, prop::collection::vec(0..NUM_WORDS, 0..5), -20i16..20).prop_map(|(grp, words, num)| AddSpec { grp, words, num })
}
pub fn op_strategy(with_delete_all: bool) -> BoxedStrategy<Op> {
    let batch_item = prop_oneof![
        3 => add_strategy().prop_map(BatchItem::Add),
        1 => (0..NUM_GROUPS).prop_map(BatchItem::DelGroup),
        1 => any::<u16>().prop_map(BatchItem::DelUid),
    ];
    prop_oneof![
        24 => add_strategy().prop_map(Op::Add),
        5 => any::<u16>().prop_map(Op::DelUid),
        3 => (0..NUM_GROUPS).prop_map(Op::DelGroup),
        2 => (-20i16..20, 0i16..8).prop_map(|(lo, w)| Op::DelRange(lo, lo + w)),
        2 => (0..NUM_GROUPS, 0..NUM_WORDS).prop_map(|(g, w)| Op::DelBool(g, w)),
        4 => prop::collection::vec(batch_item, 0..6).prop_map(Op::Batch),
        1 => if with_delete_all { Just(Op::DeleteAll) } else { Just(Op::Gc) },
        9 => Just(Op::Commit),
        // rare and expensive (see Op::BigRun)
        if with_delete_all { 1 } else { 1 } => (add_strategy(), 6u8..11).prop_map(|(a, n)| Op::BigRun(a, n)),
        2 => Just(Op::PrepareCommit),
        2 => any::<u16>().prop_map(Op::CommitThenDelete),
        1 => Just(Op::CommitDuringMergeEnd),
        2 => Just(Op::PrepareAbort),
        2 => Just(Op::Rollback),
        3 => any::<u16>().prop_map(Op::Merge),
        1 => Just(Op::WaitMerges),
        2 => Just(Op::Reopen),
        1 => Just(Op::ReopenIndex),
        1 => Just(Op::Gc),
    ]
    .boxed()
}

#[derive(Clone, Copy, Debug, PartialEq, Eq, Serialize, Deserialize)]
pub enum DirKind {
    Ram,
    Mmap,
    Sim,
}
#[derive(Clone, Copy, Debug, PartialEq, Eq, Serialize, Deserialize)]
pub enum Policy {
    NoMerge,
    /// LogMergePolicy with min_num_segments = 2..4 and a tiny layer size: merges happen all the time
    LogSmall(u8),
    Default,
}
#[derive(Clone, Debug, Serialize, Deserialize)]
pub struct HistCfg {
    pub threads: u8,
    /// 0 = off; otherwise an indexing worker cuts its segment after that many documents (verif-hooks)
    pub flush_every: u16,
    pub policy: Policy,
    /// sort the index by `num` (None = unsorted)
    pub sorted: Option<bool>,
    pub dir: DirKind,
    /// doc store blocks of 48 bytes (every document closes a block: segments with many store blocks) instead of 16 KiB
    #[serde(default)]
    pub tiny_blocks: bool,
    /// SimDir only: writers accept at most 1000 bytes per write call (short writes, as `io::Write` allows)
    #[serde(default)]
    pub short_writes: bool,
    /// every new writer (initial, after drop / wait_merging_threads / Index reopen) switches the index's
    /// docstore_compression (lz4 <-> none): segments written with different codecs coexist and are merged
    #[serde(default)]
    pub codec_switch: bool,
    /// SimDir only: schedule jitter (short pseudo-random pauses before storage operations of the background threads)
    #[serde(default)]
    pub jitter: u16,
}
pub fn cfg_strategy(dirs: &'static [DirKind]) -> impl Strategy<Value = HistCfg> {
    (
        prop_oneof![3 => Just(1u8), 2 => Just(2u8), 1 => 3u8..=4, 1 => 5u8..=8],
        prop_oneof![3 => Just(0u16), 2 => Just(1u16), 2 => Just(2u16), 1 => Just(5u16)],
        prop_oneof![3 => Just(Policy::NoMerge), 2 => (2u8..4).prop_map(Policy::LogSmall), 1 => Just(Policy::Default)],
        prop_oneof![3 => Just(None), 1 => Just(Some(true)), 1 => Just(Some(false))],
        prop::sample::select(dirs),
        prop::bool::weighted(0.3),
        prop::bool::weighted(0.25),
        prop::bool::weighted(0.3),
        prop_oneof![2 => Just(0u16), 1 => 1u16..u16::MAX],
    )
        .prop_map(|(threads, flush_every, policy, sorted, dir, tiny_blocks, short_writes, codec_switch, jitter)| HistCfg { threads, flush_every, policy, sorted, dir, tiny_blocks, short_writes, codec_switch, jitter })
}

pub struct Fields {
    pub uid: Field,
    pub grp: Field,
    pub body: Field,
    pub num: Field,
    pub bulk: Field,
    /// stored-only filler (a function of the uid), present in `tiny_blocks` configurations: a few of them exceed the
    /// 8 KiB write buffer, so that a segment's doc store reaches the directory in several appends
    pub blob: Field,
}
/// 3000 hardly compressible characters derived from the uid
pub fn blob_of(uid: u64) -> String {
    let mut x = uid.wrapping_mul(0x9E3779B97F4A7C15) | 1;
    let mut s = String::with_capacity(3000);
    while s.len() < 3000 {
        x ^= x << 13;
        x ^= x >> 7;
        x ^= x << 17;
        s.push_str(&format!("{x:016x}"));
    }
    s.truncate(3000);
    s
}
pub fn hist_schema() -> (Schema, Fields) {
    let mut sb = Schema::builder();
    let uid = sb.add_u64_field("uid", FAST | INDEXED | STORED);
    let grp = sb.add_text_field("grp", STRING | STORED);
    let body = sb.add_text_field("body", TEXT | STORED);
    let num = sb.add_i64_field("num", FAST | INDEXED | STORED);
    let bulk = sb.add_text_field("bulk", TextOptions::default().set_indexing_options(TextFieldIndexing::default().set_tokenizer("whitespace").set_index_option(IndexRecordOption::Basic)));
    let blob = sb.add_text_field("blob", STORED);
    (sb.build(), Fields { uid, grp, body, num, bulk, blob })
}

pub enum DirHandle {
    Ram(tantivy::directory::RamDirectory),
    Mmap(PathBuf),
    Sim(SimDir),
}

pub fn tmp_root() -> PathBuf {
    let root = std::env::var("VERIF_ROOT").unwrap_or_else(|_| "/verif".to_string());
    let p = PathBuf::from(root).join("target").join("tmp");
    let _ = std::fs::create_dir_all(&p);
    p
}

/// The interpreter: executes ops against tantivy and against the sequential model.
pub struct Env {
    pub cfg: HistCfg,
    /// number of writers created so far (codec_switch: parity selects the doc store codec)
    pub writers_created: u32,
    pub dir: DirHandle,
    pub tempdir: Option<tempfile::TempDir>,
    pub index: Index,
    pub f: Fields,
    pub writer: Option<IndexWriter>,
    pub committed: Model,
    pub pending: Model,
    pub next_uid: u64,
    pub all_uids: Vec<u64>,
    /// last opstamp handed out in the current writer lifetime (None right after creation/rollback)
    pub last_opstamp: Option<u64>,
    /// number of successful commits so far (payloads are "c<n>")
    pub commits: u64,
    pub last_commit_opstamp: u64,
    /// model after commit n (index 0 = empty index)
    pub models: Vec<Model>,
    /// uncommitted operations exist (adds or deletes since the last commit/rollback)
    pub dirty: bool,
    pub stats: HistStats,
    /// check the full content after every commit (C02) or only when asked
    pub verify_each_commit: bool,
    /// check the quiescence (no-orphan) predicate when possible
    pub check_quiescence: bool,
    /// execute the first Op::BigRun with really big documents (memory-budget segment cut); off = plain documents
    pub allow_big: bool,
    /// never call delete_all_documents while operations are pending (C10 uses the histories for files only)
    pub skip_dirty_delete_all: bool,
    /// a writer was dropped (not waited for) under a merging policy and the index re-opened through a new handle
    pub zombie_merge_possible: bool,
    /// delete_all_documents was called while uncommitted operations were pending in this transaction
    pub delete_all_while_dirty: bool,
    /// (commit number j, SimDir log length when the commit call started, when it returned)
    pub commit_spans: Vec<(u64, usize, usize)>,
}
#[derive(Default, Clone, Debug)]
pub struct HistStats {
    pub commits: u32,
    pub rollbacks_with_work: u32,
    pub aborts_with_work: u32,
    pub same_txn_delete_hits: u32,
    pub merges: u32,
    pub merges_between_commits: u32,
    pub reopen: u32,
    pub quiescence_checks: u32,
    pub quiescence_retries: u32,
    pub max_segments: usize,
    pub delete_all: u32,
    pub delete_all_excluded: u32,
    pub gc: u32,
    pub big_runs: u32,
    pub commits_during_merge_end: u32,
}

impl Env {
    pub fn new(cfg: HistCfg) -> Result<Env, Failure> {
        Self::with_sim(cfg, None)
    }
    pub fn with_sim(cfg: HistCfg, sim: Option<SimDir>) -> Result<Env, Failure> {
        let (schema, f) = hist_schema();
        let settings = IndexSettings {
            sort_by_field: cfg.sorted.map(|asc| IndexSortByField { field: "num".into(), order: if asc { Order::Asc } else { Order::Desc } }),
            docstore_blocksize: if cfg.tiny_blocks { 48 } else { IndexSettings::default().docstore_blocksize },
            ..Default::default()
        };
        let mut tempdir = None;
        let (dir, index) = match cfg.dir {
            DirKind::Ram => {
                let rd = tantivy::directory::RamDirectory::create();
                let ix = Index::create(rd.clone(), schema, settings).or_fail("INFRA:create")?;
                (DirHandle::Ram(rd), ix)
            }
            DirKind::Mmap => {
                let td = tempfile::Builder::new().prefix("hist").tempdir_in(tmp_root()).or_fail("INFRA:tempdir")?;
                let md = MmapDirectory::open(td.path()).or_fail("INFRA:mmapdir")?;
                let ix = Index::create(md, schema, settings).or_fail("INFRA:create")?;
                let p = td.path().to_path_buf();
                tempdir = Some(td);
                (DirHandle::Mmap(p), ix)
            }
            DirKind::Sim => {
                let sd = sim.unwrap_or_default();
                if cfg.short_writes {
                    sd.set_write_limit(1000);
                }
                if cfg.jitter != 0 {
                    sd.set_jitter(cfg.jitter as u64);
                }
                let ix = Index::create(sd.clone(), schema, settings).or_fail("INFRA:create")?;
                (DirHandle::Sim(sd), ix)
            }
        };
        let mut env = Env {
            cfg,
            dir,
            tempdir,
            index,
            f,
            writer: None,
            committed: Model::new(),
            pending: Model::new(),
            next_uid: 0,
            all_uids: vec![],
            last_opstamp: None,
            commits: 0,
            last_commit_opstamp: 0,
            models: vec![Model::new()],
            dirty: false,
            stats: HistStats::default(),
            verify_each_commit: true,
            check_quiescence: true,
            allow_big: false,
            skip_dirty_delete_all: false,
            zombie_merge_possible: false,
            delete_all_while_dirty: false,
            commit_spans: vec![],
            writers_created: 0,
        };
        env.new_writer()?;
        Ok(env)
    }

    pub fn writer_cfg(&self) -> WriterCfg {
        WriterCfg { threads: self.cfg.threads as usize, flush_every: self.cfg.flush_every as usize, table_bits: 10, merge_threads: 4 }
    }
    pub fn new_writer(&mut self) -> Result<(), Failure> {
        if self.cfg.codec_switch {
            // (the writer takes its own copy of the Index, settings included, when it is created)
            self.writers_created += 1;
            self.index.settings_mut().docstore_compression = if self.writers_created % 2 == 0 { tantivy::store::Compressor::Lz4 } else { tantivy::store::Compressor::None };
        }
        let w = writer(&self.index, self.writer_cfg()).or_fail("new_writer_failed")?;
        self.writer = Some(w);
        self.apply_policy();
        self.last_opstamp = None;
        Ok(())
    }
    pub fn apply_policy(&self) {
        let Some(w) = self.writer.as_ref() else { return };
        match self.cfg.policy {
            Policy::NoMerge => w.set_merge_policy(Box::new(NoMergePolicy)),
            Policy::LogSmall(n) => {
                let mut p = LogMergePolicy::default();
                p.set_min_num_segments(n as usize);
                p.set_min_layer_size(3);
                p.set_del_docs_ratio_before_merge(0.3);
                w.set_merge_policy(Box::new(p));
            }
            Policy::Default => {}
        }
    }

    fn doc(&self, uid: u64, a: &AddSpec) -> (TantivyDocument, DocRec) {
        let rec = DocRec { grp: a.grp, words: a.words.clone(), num: a.num as i64 };
        let mut d = TantivyDocument::new();
        d.add_u64(self.f.uid, uid);
        d.add_text(self.f.grp, format!("g{}", a.grp));
        d.add_text(self.f.body, rec.body());
        d.add_i64(self.f.num, rec.num);
        if self.cfg.tiny_blocks {
            d.add_text(self.f.blob, blob_of(uid));
        }
        (d, rec)
    }
    fn note_opstamp(&mut self, o: u64, what: &str) -> CaseResult {
        if let Some(last) = self.last_opstamp {
            ensure!(o > last, "opstamp_not_increasing", "{what} returned opstamp {o} after {last}");
        }
        self.last_opstamp = Some(o);
        Ok(())
    }
    fn grp_term(&self, g: u8) -> Term {
        Term::from_field_text(self.f.grp, &format!("g{g}"))
    }
    fn del_uid_target(&self, raw: u16) -> Option<u64> {
        if self.all_uids.is_empty() {
            None
        } else {
            Some(self.all_uids[idx(raw, self.all_uids.len())])
        }
    }

    pub fn apply(&mut self, op: &Op, cx: &Ctx) -> CaseResult {
        match op {
            Op::Add(a) => {
                let uid = self.next_uid;
                let (d, rec) = self.doc(uid, a);
                let o = self.writer.as_ref().unwrap().add_document(d).or_fail("add_failed")?;
                self.note_opstamp(o, "add_document")?;
                self.pending.insert(uid, rec);
                self.all_uids.push(uid);
                self.next_uid += 1;
                self.dirty = true;
            }
            Op::BigRun(a, n) => {
                // only the first big run of a history is executed in full (cost); later ones add plain documents
                let big = self.allow_big && self.stats.big_runs == 0;
                if big {
                    self.stats.big_runs += 1;
                }
                for k in 0..*n {
                    let uid = self.next_uid;
                    let (mut d, rec) = self.doc(uid, a);
                    if big {
                        let mut text = String::with_capacity(60_000 * 9);
                        for t in 0..60_000u32 {
                            text.push_str(&format!("b{uid}x{k}x{t} "));
                        }
                        d.add_text(self.f.bulk, text);
                    }
                    let o = self.writer.as_ref().unwrap().add_document(d).or_fail("add_failed")?;
                    self.note_opstamp(o, "add_document")?;
                    self.pending.insert(uid, rec);
                    self.all_uids.push(uid);
                    self.next_uid += 1;
                }
                self.dirty = true;
            }
            Op::DelUid(raw) => {
                if let Some(u) = self.del_uid_target(*raw) {
                    let o = self.writer.as_ref().unwrap().delete_term(Term::from_field_u64(self.f.uid, u));
                    self.note_opstamp(o, "delete_term")?;
                    if self.pending.remove(&u).is_some() && !self.committed.contains_key(&u) {
                        self.stats.same_txn_delete_hits += 1;
                    }
                    self.dirty = true;
                }
            }
            Op::DelGroup(g) => {
                let o = self.writer.as_ref().unwrap().delete_term(self.grp_term(*g));
                self.note_opstamp(o, "delete_term")?;
                let committed = &self.committed;
                let mut hits = 0;
                self.pending.retain(|u, r| {
                    if r.grp == *g {
                        if !committed.contains_key(u) {
                            hits += 1;
                        }
                        false
                    } else {
                        true
                    }
                });
                self.stats.same_txn_delete_hits += hits;
                self.dirty = true;
            }
            Op::DelRange(lo, hi) => {
                let q = RangeQuery::new(
                    Bound::Included(Term::from_field_i64(self.f.num, *lo as i64)),
                    Bound::Included(Term::from_field_i64(self.f.num, *hi as i64)),
                );
                let o = self.writer.as_ref().unwrap().delete_query(Box::new(q)).or_fail("delete_query_failed")?;
                self.note_opstamp(o, "delete_query")?;
                let committed = &self.committed;
                let mut hits = 0;
                self.pending.retain(|u, r| {
                    if r.num >= *lo as i64 && r.num <= *hi as i64 {
                        if !committed.contains_key(u) {
                            hits += 1;
                        }
                        false
                    } else {
                        true
                    }
                });
                self.stats.same_txn_delete_hits += hits;
                self.dirty = true;
            }
            Op::DelBool(g, w) => {
                let q = BooleanQuery::new(vec![
                    (Occur::Must, Box::new(TermQuery::new(self.grp_term(*g), IndexRecordOption::Basic)) as Box<dyn Query>),
                    (Occur::Must, Box::new(TermQuery::new(Term::from_field_text(self.f.body, &format!("w{w}")), IndexRecordOption::Basic))),
                ]);
                let o = self.writer.as_ref().unwrap().delete_query(Box::new(q)).or_fail("delete_query_failed")?;
                self.note_opstamp(o, "delete_query")?;
                self.pending.retain(|_, r| !(r.grp == *g && r.words.contains(w)));
                self.dirty = true;
            }
            Op::Batch(items) => {
                let mut uops = vec![];
                let mut staged: Vec<(u64, DocRec)> = vec![];
                // model: the batch's operations apply in order
                let mut pending = self.pending.clone();
                for it in items {
                    match it {
                        BatchItem::Add(a) => {
                            let uid = self.next_uid + staged.len() as u64;
                            let (d, rec) = self.doc(uid, a);
                            uops.push(UserOperation::Add(d));
                            pending.insert(uid, rec.clone());
                            staged.push((uid, rec));
                        }
                        BatchItem::DelGroup(g) => {
                            uops.push(UserOperation::Delete(self.grp_term(*g)));
                            pending.retain(|_, r| r.grp != *g);
                        }
                        BatchItem::DelUid(raw) => {
                            if let Some(u) = self.del_uid_target(*raw) {
                                uops.push(UserOperation::Delete(Term::from_field_u64(self.f.uid, u)));
                                pending.remove(&u);
                            }
                        }
                    }
                }
                let n = uops.len() as u64;
                let o = self.writer.as_ref().unwrap().run(uops).or_fail("run_failed")?;
                if let Some(last) = self.last_opstamp {
                    // a batch of n operations takes n contiguous opstamps plus its own
                    ensure!(o >= last + n + if n > 0 { 1 } else { 1 }, "batch_opstamps_overlap", "run({n} ops) returned {o} after {last}");
                }
                self.last_opstamp = Some(o);
                for (uid, _) in &staged {
                    self.all_uids.push(*uid);
                }
                self.next_uid += staged.len() as u64;
                self.pending = pending;
                self.dirty = true;
            }
            Op::DeleteAll => {
                // known finding C02 delete_all_with_pending_ops: only issued on a clean transaction while open
                if self.dirty && (self.skip_dirty_delete_all || cx.known_open("delete_all_with_pending_ops")) {
                    self.stats.delete_all_excluded += 1;
                    cx.excluded("delete_all_with_pending_ops", 1);
                    return Ok(());
                }
                if self.dirty {
                    self.delete_all_while_dirty = true;
                }
                self.writer.as_ref().unwrap().delete_all_documents().or_fail("delete_all_failed")?;
                self.pending.clear();
                self.stats.delete_all += 1;
                // the stamper is rewound by delete_all_documents (documented return value: the last
                // commit's opstamp); opstamp monotonicity restarts here
                self.last_opstamp = None;
                self.dirty = true;
            }
            Op::Commit | Op::PrepareCommit | Op::CommitThenDelete(_) | Op::CommitDuringMergeEnd => {
                let payload = format!("c{}", self.commits + 1);
                let span_start = match &self.dir {
                    DirHandle::Sim(sd) => sd.log_len(),
                    _ => 0,
                };
                let late_target = if let Op::CommitThenDelete(raw) = op { self.del_uid_target(*raw) } else { None };
                let uid_field = self.f.uid;
                let mut late_delete: Option<(u64, u64)> = None;
                let gated: Option<u64> = if matches!(op, Op::CommitDuringMergeEnd) { self.commit_during_merge_end(&payload)? } else { None };
                let w = self.writer.as_mut().unwrap();
                let o = if let Some(o) = gated {
                    o
                } else if let Op::CommitThenDelete(_) = op {
                    let mut pc = w.prepare_commit().or_fail("prepare_commit_failed")?;
                    pc.set_payload(&payload);
                    let fut = pc.commit_future();
                    if let Some(u) = late_target {
                        let od = w.delete_term(Term::from_field_u64(uid_field, u));
                        late_delete = Some((u, od));
                    }
                    fut.wait().or_fail("commit_failed")?
                } else if matches!(op, Op::Commit | Op::CommitDuringMergeEnd) {
                    let mut pc = w.prepare_commit().or_fail("prepare_commit_failed")?;
                    pc.set_payload(&payload);
                    pc.commit().or_fail("commit_failed")?
                } else {
                    let mut pc = w.prepare_commit().or_fail("prepare_commit_failed")?;
                    let o1 = pc.opstamp();
                    pc.set_payload(&payload);
                    let o2 = pc.commit().or_fail("commit_failed")?;
                    ensure!(o1 == o2, "prepared_opstamp_differs", "prepared {o1} committed {o2}");
                    o2
                };
                if let Some(last) = self.last_opstamp {
                    ensure!(o > last, "commit_opstamp_not_larger", "commit returned {o}, last included operation had {last}");
                }
                self.last_opstamp = Some(o);
                self.commits += 1;
                if let DirHandle::Sim(sd) = &self.dir {
                    self.commit_spans.push((self.commits, span_start, sd.log_len()));
                }
                self.stats.commits += 1;
                self.last_commit_opstamp = o;
                self.committed = self.pending.clone();
                self.models.push(self.committed.clone());
                self.dirty = false;
                if let Some((u, od)) = late_delete {
                    // the delete was issued while the commit was in flight: it is part of the next transaction
                    ensure!(od > o, "opstamp_not_increasing", "delete_term issued after prepare_commit returned opstamp {od}, the commit {o}");
                    self.pending.remove(&u);
                    self.dirty = true;
                    self.last_opstamp = Some(od);
                }
                {
                    // NB: a loaded IndexMeta registers its segments in the index's inventory and thereby keeps
                    // their files alive for the garbage collector: never hold one across a GC / quiescence check
                    let meta = self.index.load_metas().or_fail("load_metas_failed")?;
                    ensure!(meta.opstamp == o, "meta_opstamp_differs", "meta.json opstamp {} commit returned {o}", meta.opstamp);
                    ensure!(meta.payload.as_deref() == Some(payload.as_str()), "payload_differs", "{:?} vs {payload}", meta.payload);
                    self.stats.max_segments = self.stats.max_segments.max(meta.segments.len());
                }
                let reported = self.writer.as_ref().unwrap().commit_opstamp();
                ensure!(reported == o, "writer_commit_opstamp_stale", "writer.commit_opstamp() = {reported}, commit returned {o}");
                if self.verify_each_commit {
                    self.verify("after_commit")?;
                }
                if self.check_quiescence && self.cfg.policy == Policy::NoMerge {
                    self.quiescence()?;
                }
            }
            Op::PrepareAbort => {
                let w = self.writer.as_mut().unwrap();
                let pc = w.prepare_commit().or_fail("prepare_commit_failed")?;
                pc.abort().or_fail("abort_failed")?;
                // abort() is a rollback: the writer is replaced internally and gets the default merge policy
                self.apply_policy();
                if self.dirty {
                    self.stats.aborts_with_work += 1;
                }
                self.pending = self.committed.clone();
                self.dirty = false;
                self.last_opstamp = None;
                if self.verify_each_commit {
                    self.verify("after_abort")?;
                }
            }
            Op::Rollback => {
                let o = self.writer.as_mut().unwrap().rollback().or_fail("rollback_failed")?;
                // rollback replaces the writer internally (default merge policy): restore the configured one
                self.apply_policy();
                ensure!(o == self.last_commit_opstamp, "rollback_opstamp", "rollback returned {o}, last commit was {}", self.last_commit_opstamp);
                if self.dirty {
                    self.stats.rollbacks_with_work += 1;
                }
                self.pending = self.committed.clone();
                self.dirty = false;
                self.last_opstamp = None;
                if self.verify_each_commit {
                    self.verify("after_rollback")?;
                }
            }
            Op::Merge(mask) => {
                // deterministic order of the searchable segments: by the smallest uid they contain
                let ids_sorted: Vec<tantivy::index::SegmentId> = {
                    let (_r, s) = self.searcher()?;
                    let mut v: Vec<(u64, tantivy::index::SegmentId)> = vec![];
                    for seg in s.segment_readers() {
                        let col = seg.fast_fields().u64("uid").or_fail("fast_uid_failed")?;
                        v.push((col.min_value(), seg.segment_id()));
                    }
                    v.sort();
                    v.into_iter().map(|x| x.1).collect()
                };
                let chosen: Vec<_> = ids_sorted.iter().enumerate().filter(|(i, _)| (mask >> (i % 16)) & 1 == 1).map(|(_, id)| *id).collect();
                if chosen.len() >= 2 {
                    // an Err here is legal (segments may be part of a running merge): the merge is then simply not done
                    let r = self.writer.as_mut().unwrap().merge(&chosen).wait();
                    if r.is_ok() {
                        self.stats.merges += 1;
                        if self.dirty {
                            self.stats.merges_between_commits += 1;
                        }
                    }
                    if self.verify_each_commit {
                        self.verify("after_merge")?;
                    }
                }
            }
            Op::WaitMerges => {
                let w = self.writer.take().unwrap();
                w.wait_merging_threads().or_fail("wait_merging_threads_failed")?;
                self.after_writer_gone()?;
            }
            Op::Reopen => {
                drop(self.writer.take());
                self.after_writer_gone()?;
            }
            Op::ReopenIndex => {
                if self.cfg.policy != Policy::NoMerge {
                    if cx.known_open("orphan_unmanaged_after_writer_drop_during_merge") || (!cx.known.is_probe() && crate::known::open_anywhere("orphan_unmanaged_after_writer_drop_during_merge")) {
                        // known finding (C10): a policy-triggered merge may outlive its writer (drop, rollback)
                        // and keeps registering files through the old Index handle; with a second handle they
                        // end up unmanaged.  While open: keep the same handle (wait for merges, new writer).
                        cx.excluded("orphan_unmanaged_after_writer_drop_during_merge", 1);
                        let w = self.writer.take().unwrap();
                        w.wait_merging_threads().or_fail("wait_merging_threads_failed")?;
                        return self.after_writer_gone();
                    } else {
                        self.zombie_merge_possible = true;
                    }
                }
                drop(self.writer.take());
                let ix = match &self.dir {
                    DirHandle::Ram(rd) => Index::open(rd.clone()),
                    DirHandle::Mmap(p) => Index::open(MmapDirectory::open(p).or_fail("INFRA:mmapdir")?),
                    DirHandle::Sim(sd) => Index::open(sd.clone()),
                }
                .or_fail("index_open_failed")?;
                self.index = ix;
                self.after_writer_gone()?;
            }
            Op::Gc => {
                self.writer.as_ref().unwrap().garbage_collect_files().wait().or_fail("gc_failed")?;
                self.stats.gc += 1;
            }
        }
        Ok(())
    }

    /// see Op::CommitDuringMergeEnd; None = the schedule does not apply here (the caller commits plainly)
    fn commit_during_merge_end(&mut self, payload: &str) -> Result<Option<u64>, Failure> {
        use crate::simdir::{GateSpec, K};
        use std::time::{Duration, Instant};
        let DirHandle::Sim(sd) = &self.dir else { return Ok(None) };
        let sd = sd.clone();
        let ids = self.index.searchable_segment_ids().or_fail("segment_ids_failed")?;
        if ids.len() < 2 {
            return Ok(None);
        }
        let gm = sd.add_gate(GateSpec { thread: "merge_thread".into(), kind: Some(K::Create), path_suffix: String::new(), nth: 0, max_hold: Duration::from_millis(300) });
        let merge_future = self.writer.as_mut().unwrap().merge(&ids);
        if !sd.wait_reached(gm, Duration::from_millis(120)) {
            // the merge was refused (segments already in a merge) or something else holds it up: plain commit
            sd.disarm(gm);
            let _ = merge_future.wait();
            return Ok(None);
        }
        let gu = sd.add_gate(GateSpec { thread: "segment_updater".into(), kind: Some(K::AtomicWrite), path_suffix: "meta.json".into(), nth: 0, max_hold: Duration::from_millis(300) });
        let commit_future = {
            let w = self.writer.as_mut().unwrap();
            match w.prepare_commit() {
                Ok(mut pc) => {
                    pc.set_payload(payload);
                    pc.commit_future()
                }
                Err(e) => {
                    sd.disarm(gm);
                    sd.disarm(gu);
                    let _ = merge_future.wait();
                    return Err(Failure::new("prepare_commit_failed", format!("{e:?}")));
                }
            }
        };
        let held = sd.wait_reached(gu, Duration::from_millis(200));
        // let the merge run to its end while the commit is inside its metadata write
        sd.release(gm);
        let ops_by_merge = |sd: &crate::simdir::SimDir| sd.clone_log().iter().rev().take(4000).filter(|o| o.thread.starts_with("merge_thread")).count();
        let t0 = Instant::now();
        let mut last = (ops_by_merge(&sd), Instant::now());
        while held && t0.elapsed() < Duration::from_millis(200) {
            std::thread::sleep(Duration::from_millis(2));
            let n = ops_by_merge(&sd);
            if n != last.0 {
                last = (n, Instant::now());
            } else if last.1.elapsed() > Duration::from_millis(12) {
                break;
            }
        }
        sd.disarm(gu);
        let res = commit_future.wait();
        let _ = merge_future.wait();
        self.stats.commits_during_merge_end += held as u32;
        res.map(Some).or_fail("commit_failed")
    }
    pub fn pending_len(&self) -> usize {
        self.pending.len()
    }
    /// largest max_doc among the committed segments (a segment larger than the flush-every-N cut comes from a merge)
    pub fn largest_committed_segment(&self) -> Result<u32, Failure> {
        let meta = self.index.load_metas().or_fail("load_metas_failed")?;
        Ok(meta.segments.iter().map(|m| m.max_doc()).max().unwrap_or(0))
    }
    pub fn after_writer_gone(&mut self) -> CaseResult {
        self.stats.reopen += 1;
        self.pending = self.committed.clone();
        self.dirty = false;
        self.new_writer()?;
        if self.verify_each_commit {
            self.verify("after_reopen")?;
        }
        Ok(())
    }

    /// final commit + verification (every history ends with it)
    pub fn finish(&mut self, cx: &Ctx) -> CaseResult {
        self.apply(&Op::Commit, cx)?;
        if self.check_quiescence {
            // join merges, then the directory must be quiescent
            let w = self.writer.take().unwrap();
            w.wait_merging_threads().or_fail("wait_merging_threads_failed")?;
            self.new_writer()?;
            self.verify("after_final_wait")?;
            self.quiescence()?;
        }
        Ok(())
    }

    pub fn searcher(&self) -> Result<(IndexReader, Searcher), Failure> {
        let reader: IndexReader = self.index.reader_builder().reload_policy(ReloadPolicy::Manual).try_into().or_fail("reader_open_failed")?;
        let s = reader.searcher();
        Ok((reader, s))
    }

    /// A freshly loaded searcher must contain exactly `self.committed`.
    pub fn verify(&self, when: &str) -> CaseResult {
        if self.commits > 0 {
            // the metadata names the last commit (opstamp, payload), whatever merge has rewritten it since
            let (opstamp, payload) = {
                let meta = self.index.load_metas().or_fail("load_metas_failed")?;
                (meta.opstamp, meta.payload.clone())
            };
            let expected = format!("c{}", self.commits);
            ensure!(payload.as_deref() == Some(expected.as_str()), "meta_payload_not_last_commit", "{when}: meta.json carries payload {payload:?}, the last commit set {expected}");
            ensure!(opstamp == self.last_commit_opstamp, "meta_opstamp_not_last_commit", "{when}: meta.json carries opstamp {opstamp}, the last commit returned {}", self.last_commit_opstamp);
        }
        let (_r, s) = self.searcher()?;
        verify_searcher(&s, &self.f, &self.committed, when).map_err(|f| {
            if self.delete_all_while_dirty && f.sig.starts_with("content_") {
                // specific signature of the known finding: delete_all_documents with operations still pending
                Failure::new("delete_all_with_pending_ops", format!("{}: {}", f.sig, f.detail))
            } else {
                f
            }
        })
    }

    /// C10 quiescence predicate: directory == meta.json + files of committed segments; managed list == files.
    pub fn quiescence(&mut self) -> CaseResult {
        let Some(w) = self.writer.as_ref() else { return Ok(()) };
        w.garbage_collect_files().wait().or_fail("gc_failed")?;
        self.stats.quiescence_checks += 1;
        for attempt in 0..6 {
            let present: Option<BTreeSet<String>> = match &self.dir {
                DirHandle::Sim(sd) => Some(sd.file_names().into_iter().filter(|p| !p.starts_with('.')).collect()),
                DirHandle::Mmap(p) => Some(
                    std::fs::read_dir(p)
                        .or_fail("INFRA:read_dir")?
                        .filter_map(|e| e.ok())
                        .map(|e| e.file_name().to_string_lossy().to_string())
                        .filter(|p| !p.starts_with('.'))
                        .collect(),
                ),
                DirHandle::Ram(_) => None,
            };
            let metas = self.index.searchable_segment_metas().or_fail("metas_failed")?;
            let seg_ids: Vec<String> = metas.iter().map(|m| m.id().uuid_string()).collect();
            let managed: BTreeSet<String> = self.index.directory().list_managed_files().iter().map(|p| p.to_string_lossy().to_string()).filter(|p| !p.starts_with('.')).collect();
            let mut required: BTreeSet<String> = BTreeSet::new();
            let mut allowed: BTreeSet<String> = BTreeSet::new();
            for m in &metas {
                for f in m.list_files() {
                    let name = f.to_string_lossy().to_string();
                    let optional = name.ends_with(".del") || name.ends_with(".store.temp");
                    if name.ends_with(".store.temp") {
                        continue;
                    }
                    if name.ends_with(".del") {
                        if m.has_deletes() {
                            required.insert(name.clone());
                            allowed.insert(name);
                        }
                        continue;
                    }
                    if !optional {
                        required.insert(name.clone());
                    }
                    allowed.insert(name);
                }
            }
            drop(metas); // see NB in Op::Commit: metas pin files
            required.insert("meta.json".to_string());
            allowed.insert("meta.json".to_string());
            let listing = present.clone().unwrap_or_else(|| managed.clone());
            let orphans: Vec<&String> = listing.difference(&allowed).collect();
            let missing: Vec<&String> = required.difference(&listing).collect();
            let managed_mismatch = present.as_ref().map(|p| p != &managed).unwrap_or(false);
            if orphans.is_empty() && missing.is_empty() && !managed_mismatch {
                return Ok(());
            }
            if attempt < 5 && missing.is_empty() {
                // "quiescent" is taken literally: background teardown of a replaced writer may still hold a
                // segment for a moment; re-run GC a few times and report only what persists
                self.stats.quiescence_retries += 1;
                std::thread::sleep(std::time::Duration::from_millis(30 * (attempt + 1) as u64));
                self.writer.as_ref().unwrap().garbage_collect_files().wait().or_fail("gc_failed")?;
                continue;
            }
            if !missing.is_empty() {
                fail!("needed_file_missing", "missing {missing:?}");
            }
            if !orphans.is_empty() {
                let temp = orphans.iter().any(|o| o.ends_with(".store.temp"));
                let unmanaged = orphans.iter().all(|o| !managed.contains(*o));
                if std::env::var("TVV_DEBUG_LOG").is_ok() {
                    if let DirHandle::Mmap(p) = &self.dir {
                        eprintln!("managed.json: {}", std::fs::read_to_string(p.join(".managed.json")).unwrap_or_default());
                        eprintln!("meta.json: {}", std::fs::read_to_string(p.join("meta.json")).unwrap_or_default());
                        for e in std::fs::read_dir(p).unwrap() { let e = e.unwrap(); eprintln!("  {:?} {}", e.file_name(), e.metadata().unwrap().len()); }
                    }
                    if let DirHandle::Sim(sd) = &self.dir {
                        let seg = orphans[0].split('.').next().unwrap().to_string();
                        for (i, op) in sd.clone_log().iter().enumerate() {
                            let p = op.path.to_string_lossy();
                            if p.contains(&seg) || p.contains("managed") || p.contains("meta.json") || op.kind == crate::simdir::K::Delete {
                                eprintln!("{i:5} {:28} {:?} {} {}", op.thread, op.kind, p, op.data.as_ref().map(|d| d.len()).unwrap_or(0));
                            }
                        }
                    }
                }
                fail!(
                    if temp {
                        "orphan_temp_store"
                    } else if unmanaged && self.zombie_merge_possible {
                        "orphan_unmanaged_after_writer_drop_during_merge"
                    } else if unmanaged {
                        "orphan_unmanaged"
                    } else {
                        "orphan_files"
                    },
                    "orphans after commit + gc (after {attempt} extra collections): {orphans:?}; committed segments {:?}; orphans listed in .managed.json: {}",
                    seg_ids,
                    orphans.iter().filter(|o| managed.contains(**o)).count()
                );
            }
            let p = present.unwrap();
            fail!(
                "managed_list_differs",
                "only in .managed.json: {:?}; only on storage: {:?}",
                managed.difference(&p).collect::<Vec<_>>(),
                p.difference(&managed).collect::<Vec<_>>()
            );
        }
        Ok(())
    }
}

/// Full content check of a searcher against a model: every uid exactly once, all fields intact (stored,
/// fast, inverted index), nothing else.
pub fn verify_searcher(s: &Searcher, f: &Fields, model: &Model, when: &str) -> CaseResult {
    let mut got: Model = Model::new();
    for (ord, seg) in s.segment_readers().iter().enumerate() {
        let store = seg.get_store_reader(1).or_fail("store_reader_failed")?;
        let uid_col = seg.fast_fields().u64("uid").or_fail("fast_uid_failed")?;
        let num_col = seg.fast_fields().i64("num").or_fail("fast_num_failed")?;
        for doc in seg.doc_ids_alive() {
            let d: TantivyDocument = store.get(doc).or_fail("store_get_failed")?;
            let uid = d.get_first(f.uid).and_then(|v| v.as_u64());
            let grp = d.get_first(f.grp).and_then(|v| v.as_str().map(|s| s.to_string()));
            let body = d.get_first(f.body).and_then(|v| v.as_str().map(|s| s.to_string()));
            let num = d.get_first(f.num).and_then(|v| v.as_i64());
            let (Some(uid), Some(grp), Some(body), Some(num)) = (uid, grp, body, num) else {
                fail!("stored_field_missing", "{when}: segment {ord} doc {doc}: {d:?}")
            };
            if let Some(b) = d.get_first(f.blob).and_then(|v| v.as_str()) {
                ensure!(b == blob_of(uid), "stored_blob_differs", "{when}: segment {ord} doc {doc} uid {uid}: the stored filler is not the one of this uid ({} bytes, starts {:?})", b.len(), &b[..b.len().min(16)]);
            }
            let ff_uid: Vec<u64> = uid_col.values_for_doc(doc).collect();
            let ff_num: Vec<i64> = num_col.values_for_doc(doc).collect();
            ensure!(ff_uid == vec![uid], "fast_field_differs_from_stored", "{when}: uid fast {ff_uid:?} stored {uid}");
            ensure!(ff_num == vec![num], "fast_field_differs_from_stored", "{when}: num fast {ff_num:?} stored {num} (uid {uid})");
            let words: Vec<u8> = body.split_whitespace().map(|w| w[1..].parse::<u8>().unwrap_or(255)).collect();
            let rec = DocRec { grp: grp[1..].parse().unwrap_or(255), words, num };
            if got.insert(uid, rec).is_some() {
                fail!("uid_present_twice", "{when}: uid {uid} occurs twice");
            }
        }
    }
    if &got != model {
        let extra: Vec<u64> = got.keys().filter(|k| !model.contains_key(k)).cloned().collect();
        let missing: Vec<u64> = model.keys().filter(|k| !got.contains_key(k)).cloned().collect();
        let changed: Vec<u64> = got.iter().filter(|(k, v)| model.get(k).map(|m| m != *v).unwrap_or(false)).map(|(k, _)| *k).collect();
        let sig = if !extra.is_empty() && missing.is_empty() {
            "content_extra_docs"
        } else if extra.is_empty() && !missing.is_empty() {
            "content_missing_docs"
        } else if !changed.is_empty() && extra.is_empty() && missing.is_empty() {
            "content_fields_changed"
        } else {
            "content_differs"
        };
        fail!(sig, "{when}: extra uids {extra:?} missing uids {missing:?} changed {changed:?} (model has {} docs, index {})", model.len(), got.len());
    }
    // inverted index agrees: uid terms, group terms, words
    for uid in model.keys() {
        let c = s.search(&TermQuery::new(Term::from_field_u64(f.uid, *uid), IndexRecordOption::Basic), &Count).or_fail("search_failed")?;
        ensure!(c == 1, "uid_term_count", "{when}: term query uid={uid} counts {c}");
    }
    for g in 0..NUM_GROUPS {
        let c = s.search(&TermQuery::new(Term::from_field_text(f.grp, &format!("g{g}")), IndexRecordOption::Basic), &Count).or_fail("search_failed")?;
        let e = model.values().filter(|r| r.grp == g).count();
        ensure!(c == e, "group_term_count", "{when}: g{g} counts {c} expected {e}");
    }
    for w in 0..NUM_WORDS {
        let c = s.search(&TermQuery::new(Term::from_field_text(f.body, &format!("w{w}")), IndexRecordOption::Basic), &Count).or_fail("search_failed")?;
        let e = model.values().filter(|r| r.words.contains(&w)).count();
        ensure!(c == e, "word_term_count", "{when}: w{w} counts {c} expected {e}");
    }
    Ok(())
}

/// cheap fingerprint of a searcher's logical content (uids + field hash), used by C05
pub fn searcher_fingerprint(s: &Searcher, f: &Fields) -> Result<u64, Failure> {
    let mut recs: Vec<(u64, u64)> = vec![];
    for seg in s.segment_readers().iter() {
        let store = seg.get_store_reader(1).or_fail("store_reader_failed")?;
        let uid_col = seg.fast_fields().u64("uid").or_fail("fast_uid_failed")?;
        for doc in seg.doc_ids_alive() {
            let d: TantivyDocument = store.get(doc).or_fail("store_get_failed")?;
            let uid = uid_col.first(doc).unwrap_or(u64::MAX);
            let body = d.get_first(f.body).and_then(|v| v.as_str().map(|s| s.to_string())).unwrap_or_default();
            let grp = d.get_first(f.grp).and_then(|v| v.as_str().map(|s| s.to_string())).unwrap_or_default();
            let num = d.get_first(f.num).and_then(|v| v.as_i64()).unwrap_or(i64::MIN);
            recs.push((uid, fnv(format!("{grp}|{body}|{num}").as_bytes())));
        }
    }
    recs.sort();
    let mut h = 17u64;
    for (u, x) in recs {
        h = mix(h, mix(u, x));
    }
    Ok(h)
}
pub fn model_fingerprint(m: &Model) -> u64 {
    let mut h = 17u64;
    for (u, r) in m {
        h = mix(h, mix(*u, fnv(format!("g{}|{}|{}", r.grp, r.body(), r.num).as_bytes())));
    }
    h
}
