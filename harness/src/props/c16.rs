//! C16 — the query parser is total and implements its documented grammar.
//!
//! Sub-checks
//! * `totality`  : generated strings through `tantivy_query_grammar::{parse_query, parse_query_lenient}` and
//!                 `QueryParser::{parse_query, parse_query_lenient}` (four parser configurations over a schema with
//!                 every field type).  Oracles: no panic; lenient always yields a query; strict `Ok` implies lenient
//!                 reports nothing and yields the identical `UserInputAst` (grammar level) / the identical query
//!                 modulo the documented same-occur flattening of `LogicalAst::simplify` (QueryParser level).
//! * `nesting`   : nesting / recursion depth.  In-process up to `NEST_CAP`; deeper inputs only in a child process
//!                 (`tvv child c16-nest <shape> <depth>`, parse on a thread with an 8 MiB stack): a child killed by
//!                 a signal is the unbounded-recursion finding.
//! * `semantics` : see `c16_sem.rs` (abstract queries -> text -> QueryParser -> doc set vs naive evaluation).
//!
//! `fuzz_one` is the libFuzzer entry: lossy UTF-8 -> the totality oracle.
use std::panic::{catch_unwind, AssertUnwindSafe};
use std::sync::OnceLock;

use proptest::prelude::*;
use serde::{Deserialize, Serialize};
use serde_json::json;
use tantivy::query::{BooleanQuery, Occur, Query, QueryParser, QueryParserError};
use tantivy::schema::*;
use tantivy::tokenizer::TokenizerManager;
use tantivy_query_grammar::{LenientError, UserInputAst, UserInputBound, UserInputLeaf};

use crate::engine::*;

pub use super::c16_sem::Semantics;

pub fn def() -> PropDef {
    PropDef {
        id: "C16",
        level: "exploration",
        rule: "totality: generated strings (random unicode, grammar-token soup, mutations of valid queries taken from the repository's parser tests, unbalanced quotes/brackets, long repetitions, nesting up to the in-process cap) parsed by the grammar and by four QueryParser configurations (non-trivial = at least 3 chars and at least two different classes of grammar metacharacters; distinct by text). nesting: shapes x depths, in-process up to the cap and in a child process beyond it. semantics: generated corpora (every field type, 1-3 segments) x abstract queries from the documented unambiguous grammar subset, printed with random meaning-preserving whitespace / escaping / quote style / redundant parentheses, evaluated in both conjunction modes against a naive evaluator (non-trivial = at least 3 leaves mixing at least two of {AND/OR chain, +/- signs, field scope, range/set/phrase}; distinct by (query, style)).",
        assumptions: vec![
            "well-formed query text = the documented unambiguous subset (DESIGN §3 C16): per nesting level either a clause list with optional +/- or an AND/OR chain of unsigned operands; no NOT keyword, no `x OR -y`, no nested purely negative group",
            "in-process nesting/recursion is capped at NEST_CAP (counted in excluded_by_construction); deeper inputs are parsed only in a child process on a thread with an 8 MiB stack",
            "strict/lenient agreement at QueryParser level is judged modulo LogicalAst::simplify (same-occur clause flattening), which only the strict entry point applies",
            "text of model-checked fields is [a-z0-9] words; reference tokenisation = split on non-alphanumerics + lower-case",
            "sloppy phrases only with two distinct terms (DESIGN §5 item 15 is C03's finding)",
        ],
        subs: vec![Box::new(Totality), Box::new(Isolated), Box::new(Nesting), Box::new(Semantics)],
    }
}

/// in-process bound on (max parenthesis depth + number of `NOT` keywords): every level costs stack in the
/// recursive-descent grammar, in `compute_logical_ast`, in `convert_to_query`, in `Debug` and in `Drop`.
pub const NEST_CAP: usize = 96;

// ------------------------------------------------------------------------------------------------
// parser configurations

pub struct ParserSet {
    pub schema: Schema,
    pub configs: Vec<(&'static str, QueryParser)>,
}

pub fn parser_set() -> &'static ParserSet {
    static SET: OnceLock<ParserSet> = OnceLock::new();
    SET.get_or_init(|| {
        let mut sb = Schema::builder();
        let title = sb.add_text_field("title", TEXT | STORED);
        let body = sb.add_text_field("body", TEXT);
        let tag = sb.add_text_field("tag", STRING | FAST);
        let n_u64 = sb.add_u64_field("n_u64", INDEXED);
        sb.add_i64_field("n_i64", INDEXED | FAST);
        sb.add_f64_field("n_f64", INDEXED | FAST);
        sb.add_bool_field("flag", INDEXED);
        sb.add_date_field("ts", INDEXED | FAST);
        sb.add_ip_addr_field("ip", INDEXED | FAST);
        sb.add_bytes_field("bytes", INDEXED);
        sb.add_facet_field("facet", FacetOptions::default());
        let attrs = sb.add_json_field("attrs", TEXT | FAST);
        sb.add_text_field("meta.lang", STRING);
        sb.add_text_field("stored_only", STORED);
        sb.add_u64_field("ff", FAST);
        let nopos = TextOptions::default().set_indexing_options(TextFieldIndexing::default().set_tokenizer("default").set_index_option(IndexRecordOption::Basic));
        sb.add_text_field("nopos", nopos);
        let weird = TextOptions::default().set_indexing_options(TextFieldIndexing::default().set_tokenizer("no_such_tokenizer"));
        sb.add_text_field("weird", weird);
        let schema = sb.build();
        let tm = TokenizerManager::default();
        let a = QueryParser::new(schema.clone(), vec![title, body], tm.clone());
        let mut b = QueryParser::new(schema.clone(), vec![title, body], tm.clone());
        b.set_conjunction_by_default();
        b.set_field_fuzzy(title, true, 1, true);
        b.set_field_boost(body, 2.0);
        let mut c = QueryParser::new(schema.clone(), vec![], tm.clone());
        c.allow_regexes();
        let mut d = QueryParser::new(schema.clone(), vec![title, n_u64, attrs], tm.clone());
        d.set_conjunction_by_default();
        d.allow_regexes();
        d.set_field_fuzzy(tag, false, 2, false);
        ParserSet { schema, configs: vec![("disj", a), ("conj_fuzzy_boost", b), ("nodefault_regex", c), ("mixed_defaults_conj_regex", d)] }
    })
}

// ------------------------------------------------------------------------------------------------
// the totality oracle

fn panic_message(p: Box<dyn std::any::Any + Send>) -> String {
    if let Some(s) = p.downcast_ref::<&str>() {
        s.to_string()
    } else if let Some(s) = p.downcast_ref::<String>() {
        s.clone()
    } else {
        "non-string panic".to_string()
    }
}
fn guarded<T>(f: impl FnOnce() -> T) -> Result<T, String> {
    catch_unwind(AssertUnwindSafe(f)).map_err(panic_message)
}
/// short structured slug of a message: lower-case, digits -> N, everything else -> _, runs collapsed
pub fn slug(msg: &str) -> String {
    // assertion panics: keep the custom message ("assertion `left == right` failed: <message>\n left: ..")
    let msg = msg.lines().next().unwrap_or("");
    let msg = match msg.split_once("failed: ") {
        Some((head, custom)) if head.starts_with("assertion") && !custom.is_empty() => custom,
        _ => msg,
    };
    let mut out = String::new();
    for c in msg.chars() {
        let c = if c.is_ascii_alphabetic() {
            c.to_ascii_lowercase()
        } else if c.is_ascii_digit() {
            'N'
        } else {
            '_'
        };
        if (c == '_' || c == 'N') && out.ends_with(c) {
            continue;
        }
        out.push(c);
        if out.len() >= 48 {
            break;
        }
    }
    out.trim_matches('_').to_string()
}

/// upper bound of the recursion depth the grammar reaches on `text`
pub fn recursion_bound(text: &str) -> usize {
    let mut depth = 0usize;
    let mut max = 0usize;
    for b in text.bytes() {
        if b == b'(' {
            depth += 1;
            max = max.max(depth);
        } else if b == b')' {
            depth = depth.saturating_sub(1);
        }
    }
    max + text.matches("NOT").count()
}

/// whitespace by `char::is_whitespace` that nom's `multispace` does not accept
pub fn odd_ws(c: char) -> bool {
    c.is_whitespace() && !matches!(c, ' ' | '\t' | '\r' | '\n')
}
/// Over-approximation of the inputs on which `parse_query_lenient` does not return on the unchanged tree
/// (`set_infallible` makes no progress on a whitespace character that is not an ASCII blank): `IN`, ASCII
/// blanks, `[` and such a character anywhere after it.  A call that does not return cannot be judged
/// in-process, so these inputs are only run by the `isolated` sub-check (child process with resource limits).
pub fn set_hang_hazard(text: &str) -> bool {
    let mut from = 0;
    while let Some(p) = text[from..].find("IN") {
        let after = from + p + 2;
        let rest = text[after..].trim_start_matches([' ', '\t', '\r', '\n']);
        if let Some(tail) = rest.strip_prefix('[') {
            if tail.chars().any(odd_ws) {
                return true;
            }
        }
        from = after;
    }
    false
}

fn leaf_kind(l: &UserInputLeaf) -> &'static str {
    match l {
        UserInputLeaf::Literal(_) => "literal",
        UserInputLeaf::All => "all",
        UserInputLeaf::Range { .. } => "range",
        UserInputLeaf::Set { .. } => "set",
        UserInputLeaf::Exists { .. } => "exists",
        UserInputLeaf::Regex { .. } => "regex",
    }
}
fn ast_kind(a: &UserInputAst) -> &'static str {
    match a {
        UserInputAst::Clause(_) => "clause",
        UserInputAst::Boost(..) => "boost",
        UserInputAst::Leaf(l) => leaf_kind(l),
    }
}
fn bound_kind(b: &UserInputBound) -> &'static str {
    match b {
        UserInputBound::Inclusive(_) => "incl",
        UserInputBound::Exclusive(_) => "excl",
        UserInputBound::Unbounded => "open",
    }
}
/// class of the first structural difference between the strict and the lenient tree (finite set)
fn ast_diff_class(s: &UserInputAst, l: &UserInputAst) -> String {
    match (s, l) {
        (UserInputAst::Clause(a), UserInputAst::Clause(b)) => {
            if a.len() != b.len() {
                return "clause_len".into();
            }
            for ((oa, xa), (ob, xb)) in a.iter().zip(b.iter()) {
                if oa != ob {
                    return "occur".into();
                }
                if xa != xb {
                    return ast_diff_class(xa, xb);
                }
            }
            "clause".into()
        }
        (UserInputAst::Boost(xa, ba), UserInputAst::Boost(xb, bb)) => {
            if ba != bb {
                "boost_value".into()
            } else {
                ast_diff_class(xa, xb)
            }
        }
        (UserInputAst::Leaf(a), UserInputAst::Leaf(b)) => match (&**a, &**b) {
            (UserInputLeaf::Literal(x), UserInputLeaf::Literal(y)) => {
                if x.field_name != y.field_name {
                    "literal_field".into()
                } else if x.phrase != y.phrase {
                    "literal_phrase".into()
                } else if x.delimiter != y.delimiter {
                    "literal_delimiter".into()
                } else {
                    "literal_slop_prefix".into()
                }
            }
            (UserInputLeaf::Range { field: fa, lower: la, upper: ua }, UserInputLeaf::Range { field: fb, lower: lb, upper: ub }) => {
                if fa != fb {
                    "range_field".into()
                } else if bound_kind(la) != bound_kind(lb) || bound_kind(ua) != bound_kind(ub) {
                    "range_bound_kind".into()
                } else {
                    "range_bound_value".into()
                }
            }
            (x, y) if leaf_kind(x) == leaf_kind(y) => format!("{}_content", leaf_kind(x)),
            (x, y) => format!("{}_vs_{}", leaf_kind(x), leaf_kind(y)),
        },
        (x, y) => format!("{}_vs_{}", ast_kind(x), ast_kind(y)),
    }
}

/// canonical form of a parsed query modulo `LogicalAst::simplify` (children with the same Should/Must occur
/// as their all-same-occur parent clause are pulled up); leaves by their `Debug` form.
enum Canon {
    Leaf(String),
    Bool(Vec<(Occur, Canon)>),
}
fn canon(q: &dyn Query) -> Canon {
    if let Some(b) = q.downcast_ref::<BooleanQuery>() {
        let mut v = vec![];
        for (o, sub) in b.clauses() {
            match canon(sub.as_ref()) {
                Canon::Bool(subs) if (*o == Occur::Should || *o == Occur::Must) && subs.iter().all(|(so, _)| so == o) => v.extend(subs),
                c => v.push((*o, c)),
            }
        }
        Canon::Bool(v)
    } else {
        Canon::Leaf(format!("{q:?}"))
    }
}
fn canon_string(c: &Canon, out: &mut String) {
    match c {
        Canon::Leaf(s) => out.push_str(s),
        Canon::Bool(v) => {
            out.push('(');
            for (i, (o, c)) in v.iter().enumerate() {
                if i > 0 {
                    out.push(' ');
                }
                out.push(match o {
                    Occur::Must => '+',
                    Occur::MustNot => '-',
                    Occur::Should => '?',
                });
                canon_string(c, out);
            }
            out.push(')');
        }
    }
}
pub fn canonical_query_string(q: &dyn Query) -> String {
    let mut s = String::new();
    canon_string(&canon(q), &mut s);
    s
}

pub fn qp_error_kind(e: &QueryParserError) -> String {
    match e {
        QueryParserError::SyntaxError(m) => {
            // lenient syntax errors carry "<message> at position <n>"
            // (the strict parser's SyntaxError carries the whole query text: no slug of that)
            match m.rsplit_once(" at position ") {
                Some((msg, _)) => format!("syntax_{}", slug(msg)),
                None => "syntaxerror".to_string(),
            }
        }
        other => {
            let d = format!("{other:?}");
            slug(d.split(['(', ' ', '{']).next().unwrap_or(""))
        }
    }
}

#[derive(Default)]
pub struct TotalityFacts {
    pub strict_ok: bool,
    pub lenient_errors: usize,
    pub qp_ok: usize,
    pub qp_err: usize,
    pub qp_err_kinds: Vec<String>,
    pub capped: bool,
    pub hang_hazard: bool,
}

/// signature of a strict/lenient disagreement at grammar level, keyed by (kind, lenient message)
pub fn grammar_disagreement(strict: &UserInputAst, lenient: &UserInputAst, errs: &[LenientError]) -> Option<(String, String)> {
    if let Some(e) = errs.first() {
        return Some((
            format!("grammar_disagree:lenient_error:{}", slug(&e.message)),
            format!("strict parse_query succeeded with {strict:?} but parse_query_lenient reported {errs:?} (lenient ast {lenient:?})"),
        ));
    }
    if strict != lenient {
        return Some((
            // one class: there is no lenient message to key on (DESIGN §5 item 11); the structural class of the
            // first difference is reported in the detail only
            "grammar_disagree:ast:no_lenient_error".to_string(),
            format!("strict ast {strict:?} differs from lenient ast {lenient:?} (no lenient error; first difference: {})", ast_diff_class(strict, lenient)),
        ));
    }
    None
}

/// Runs every parser on `text`; returns all oracle failures (possibly several classes for one input).
pub fn totality_failures(text: &str, facts: &mut TotalityFacts) -> Vec<Failure> {
    if recursion_bound(text) > NEST_CAP {
        facts.capped = true;
        return vec![];
    }
    if set_hang_hazard(text) {
        facts.hang_hazard = true;
        return vec![];
    }
    totality_failures_unguarded(text, facts)
}
/// the oracle without the in-process exclusions (only for child processes)
pub fn totality_failures_unguarded(text: &str, facts: &mut TotalityFacts) -> Vec<Failure> {
    let mut fails: Vec<Failure> = vec![];
    let show = |t: &str| {
        let mut s: String = t.chars().take(400).collect();
        if s.len() < t.len() {
            s.push('…');
        }
        format!("{s:?}")
    };
    // ---- grammar level
    let strict = guarded(|| tantivy_query_grammar::parse_query(text));
    let lenient = guarded(|| tantivy_query_grammar::parse_query_lenient(text));
    let strict_panicked = strict.is_err();
    let lenient_panicked = lenient.is_err();
    if let Err(m) = &strict {
        fails.push(Failure::new(format!("panic:grammar_strict:{}", slug(m)), format!("tantivy_query_grammar::parse_query({}) panicked: {m}", show(text))));
    }
    if let Err(m) = &lenient {
        fails.push(Failure::new(format!("panic:grammar_lenient:{}", slug(m)), format!("tantivy_query_grammar::parse_query_lenient({}) panicked: {m}", show(text))));
    }
    if let (Ok(Ok(s)), Ok((l, errs))) = (&strict, &lenient) {
        facts.strict_ok = true;
        if let Some((sig, detail)) = grammar_disagreement(s, l, errs) {
            fails.push(Failure::new(sig, format!("input {}: {detail}", show(text))));
        }
    }
    if let Ok((_, errs)) = &lenient {
        facts.lenient_errors = errs.len();
        for e in errs {
            if e.pos > text.len() {
                fails.push(Failure::new("lenient_error_position_out_of_range", format!("input {}: error {e:?} points past the end ({})", show(text), text.len())));
            }
        }
    }
    // ---- QueryParser level (same grammar underneath: a grammar panic is not reported twice)
    for (name, qp) in &parser_set().configs {
        let s = if strict_panicked { None } else { Some(guarded(|| qp.parse_query(text))) };
        let l = if lenient_panicked { None } else { Some(guarded(|| qp.parse_query_lenient(text))) };
        if let Some(Err(m)) = &s {
            fails.push(Failure::new(format!("panic:qp:{}", slug(m)), format!("QueryParser[{name}]::parse_query({}) panicked: {m}", show(text))));
        }
        if let Some(Err(m)) = &l {
            fails.push(Failure::new(format!("panic:qp:{}", slug(m)), format!("QueryParser[{name}]::parse_query_lenient({}) panicked: {m}", show(text))));
        }
        match &s {
            Some(Ok(Ok(_))) => facts.qp_ok += 1,
            Some(Ok(Err(e))) => {
                facts.qp_err += 1;
                facts.qp_err_kinds.push(qp_error_kind(e));
                if facts.strict_ok && matches!(e, QueryParserError::SyntaxError(_)) {
                    fails.push(Failure::new("qp_syntax_error_on_grammar_ok", format!("input {}: grammar accepted it, QueryParser[{name}] says {e:?}", show(text))));
                }
            }
            _ => {}
        }
        if let (Some(Ok(Ok(sq))), Some(Ok((lq, lerrs)))) = (&s, &l) {
            // already reported at grammar level?  then the QueryParser level adds nothing new
            let grammar_level = fails.iter().any(|f| f.sig.starts_with("grammar_disagree:"));
            if let Some(e) = lerrs.first() {
                if !grammar_level {
                    fails.push(Failure::new(
                        format!("qp_disagree:lenient_error:{}", qp_error_kind(e)),
                        format!("input {}: QueryParser[{name}]::parse_query succeeded with {sq:?} but parse_query_lenient reported {lerrs:?}", show(text)),
                    ));
                }
            } else {
                let (cs, cl) = (canonical_query_string(sq.as_ref()), canonical_query_string(lq.as_ref()));
                if cs != cl && !grammar_level {
                    fails.push(Failure::new("qp_disagree:query", format!("input {}: QueryParser[{name}] strict {cs} vs lenient {cl}", show(text))));
                }
            }
        }
    }
    fails
}

/// libFuzzer entry: lossy UTF-8 of the bytes -> totality oracle (grammar and QueryParser level).
/// Returns the first failure (unknown-to-the-caller classes first come first; the caller decides what is tolerated).
pub fn fuzz_one(data: &[u8]) -> Result<(), Failure> {
    let text = String::from_utf8_lossy(data);
    let mut facts = TotalityFacts::default();
    match totality_failures(&text, &mut facts).into_iter().next() {
        Some(f) => Err(f),
        None => Ok(()),
    }
}
/// all failure classes of one fuzz input (for a fuzz driver that tolerates listed classes)
pub fn fuzz_all(data: &[u8]) -> Vec<Failure> {
    let text = String::from_utf8_lossy(data);
    totality_failures(&text, &mut TotalityFacts::default())
}

// ------------------------------------------------------------------------------------------------
// string generators

/// valid (and a few deliberately invalid) queries from the repository's parser tests
pub const SEEDS: &[&str] = &[
    "title:hello OR title:x",
    "a a",
    "title:",
    "\"www-form-encoded\"",
    "'www-form-encoded'",
    "www-form-encoded",
    "mr james bo?d",
    "mr james bo*",
    "\"www-form-encoded",
    "NOT a",
    "NOTa",
    "a^2^3",
    "a^3 b^2",
    "a AND b",
    "a\nAND b",
    "a OR b AND c",
    "a AND b         AND c",
    "a OR b aaa",
    "aaa ccc a AND b ",
    "+a OR +b",
    "a AND -b",
    "-a AND b",
    "a AND NOT b AND c",
    "a OR -b",
    "NOT a OR b",
    "-aaa +ccc -a OR b ",
    "title: >a",
    "title:>=a",
    "weight: <= 70.5",
    "(<=42 )",
    "(age:>5)",
    "title:[a TO b]",
    "title:{titi TO toto}",
    "title:{* TO toto}",
    "title:{titi TO *}",
    "n_i64:{-5 TO 3}",
    "n_f64:{-1.5 TO 1.5}",
    "ff:[7 TO 77]",
    "foo:[1 TO toto}",
    "ts:[2002-10-02T15:00:00Z TO 2002-10-02T18:00:00Z}",
    "[1 TO 5]",
    "[A TO B]",
    "   abc",
    "(  a OR abc)",
    "(a OR  abc ",
    "field:(abc)",
    "title:(+a -\"b c\")",
    "title:(a AND \"b c\")",
    "field:(abc AND b:cde)",
    "+(a b)",
    "+(a b) +d",
    "(+a +b) d",
    "abc:toto",
    "abc:\"happy tax payer\"",
    "abc:'happy tax payer'",
    "a.b.c:1.1",
    "a\\ b\\ c:1.1",
    "abc: IN [a b c]",
    "abc: IN []",
    "IN [1 2]",
    "IN [1 2",
    "n_u64: IN [1 2 3]",
    "+a\\+b\\+c:toto",
    "(+abc:toto -titi)",
    "-abc:toto",
    "--abc:toto",
    "foo:(*A OR *B)",
    "foo:(/A.*/ OR /B.*/)",
    "*",
    "(* )",
    "*^2",
    "abc +    ",
    "\"a b\"~",
    "\"a b\"~a",
    "\"a b\"^2 ~4",
    "\"a b\"~4^2",
    "~Document",
    "a~2",
    "title:\"a b\"~300",
    "\"a b\"*",
    "\"\"*",
    "title:\"a b c\"*",
    "a:*",
    "a: *",
    "(a:*)",
    "a:*def*",
    "a:*\\:foo",
    "tata -toto",
    "tata NOT toto",
    "abc\\*",
    "\"abc:def\"",
    "abc\\:def",
    "'abc\\:def'",
    "!bc:def",
    "foo:/bar/^2",
    "title:/a.*b/",
    "/a",
    "field : a",
    "field         :a",
    "attrs.titi:hello",
    "attrs.k8s\\.node\\.name:hello",
    "attrs.titi:-5.2",
    "attrs.date:\"2019-10-12T07:20:50.52Z\"",
    "attrs.titi:true",
    "bytes:\"YnVidQ==\"",
    "bytes:aa",
    "flag:true",
    "facet:/root/branch/leaf",
    "ip:\"::1\"",
    "ip:192.168.0.1",
    "title:b -(-title:a -title:c)",
    "title:www-form-encoded",
    "boujou:\"18446744073709551615\"",
    "n_u64:18446744073709551616",
    "ts:\"1985-04-12T23:20:50.52Z\"",
    "+ *",
    "g:![1 TO 5}",
    "+z^2f:[1 TO 5}",
    "stored_only:a",
    "weird:a",
    "nopos:\"a b\"",
    "meta.lang:en",
];

/// dictionary of grammar tokens for the token soup
pub const TOKENS: &[&str] = &[
    "+", "-", "*", "(", ")", "[", "]", "{", "}", "\"", "'", ":", "^", "~", "\\", "/", "!", "`", " ", " ", "  ", "\t", "\n", "\r\n", "\u{3000}", "\u{a0}", "\u{2028}", "AND", "OR", "NOT", "IN", "TO",
    "AND ", "OR ", "NOT ", "IN [", " TO ", "title", "title:", "body:", "tag:", "n_u64:", "n_i64:", "n_f64:", "flag:", "ts:", "ip:", "bytes:", "facet:", "attrs.", "attrs.k:", "attrs:", "meta.lang:",
    "stored_only:", "ff:", "nopos:", "weird:", "nofield:", "a", "b", "ab", "Z", "1", "-5", "1.5", "-0.5", "18446744073709551615", "9223372036854775808", "1e400", "NaN", "inf", "true", "false",
    "2002-10-02T15:00:00Z", "2002-10-02T15:00:00+02:00", "192.168.0.1", "::1", "YWJj", "YQ==", "/a/b", ">", ">=", "<", "<=", "~2", "~4294967296", "^2", "^0.5", "^1", "^", "é", "ß", "𝄞", "\0", "\u{feff}",
    "\u{301}", ".", "..", "\\.", "\\:", "\\ ", "\\\"", "*:", ":*", "[* TO *]", "{* TO", "TO *]", "IN []", "/a.*/", "/[/", "//",
];

fn soup() -> impl Strategy<Value = String> {
    prop::collection::vec(any::<u16>(), 1..24).prop_map(|v| v.into_iter().map(|i| TOKENS[idx(i, TOKENS.len())]).collect::<String>())
}
fn random_text() -> impl Strategy<Value = String> {
    prop_oneof![
        3 => prop::collection::vec(any::<char>(), 0..24).prop_map(|v| v.into_iter().collect::<String>()),
        2 => prop::collection::vec(prop_oneof![4 => (0x20u8..0x7f).prop_map(|b| b as char), 1 => any::<char>()], 0..40).prop_map(|v| v.into_iter().collect::<String>()),
        1 => prop::collection::vec(any::<u8>(), 0..40).prop_map(|v| String::from_utf8_lossy(&v).into_owned()),
    ]
}
#[derive(Clone, Debug)]
enum Edit {
    Delete(u16, u8),
    Insert(u16, u16),
    Dup(u16, u8),
    Truncate(u16),
    ReplaceChar(u16, char),
}
fn char_pos(s: &str, raw: u16) -> usize {
    let n = s.chars().count();
    let k = idx(raw, n + 1);
    s.char_indices().nth(k).map(|x| x.0).unwrap_or(s.len())
}
fn apply(mut s: String, e: &Edit) -> String {
    match e {
        Edit::Delete(p, n) => {
            let a = char_pos(&s, *p);
            let b = s[a..].char_indices().nth(*n as usize % 4 + 1).map(|x| a + x.0).unwrap_or(s.len());
            s.replace_range(a..b, "");
        }
        Edit::Insert(p, t) => {
            let a = char_pos(&s, *p);
            s.insert_str(a, TOKENS[idx(*t, TOKENS.len())]);
        }
        Edit::Dup(p, n) => {
            let a = char_pos(&s, *p);
            let b = s[a..].char_indices().nth(*n as usize % 8 + 1).map(|x| a + x.0).unwrap_or(s.len());
            let piece = s[a..b].to_string();
            s.insert_str(b, &piece);
        }
        Edit::Truncate(p) => {
            let a = char_pos(&s, *p);
            s.truncate(a);
        }
        Edit::ReplaceChar(p, c) => {
            let a = char_pos(&s, *p);
            if let Some(old) = s[a..].chars().next() {
                s.replace_range(a..a + old.len_utf8(), &c.to_string());
            }
        }
    }
    s
}
fn mutated() -> impl Strategy<Value = String> {
    let edit = prop_oneof![
        3 => (any::<u16>(), any::<u8>()).prop_map(|(p, n)| Edit::Delete(p, n)),
        4 => (any::<u16>(), any::<u16>()).prop_map(|(p, t)| Edit::Insert(p, t)),
        1 => (any::<u16>(), any::<u8>()).prop_map(|(p, n)| Edit::Dup(p, n)),
        1 => any::<u16>().prop_map(Edit::Truncate),
        1 => (any::<u16>(), any::<char>()).prop_map(|(p, c)| Edit::ReplaceChar(p, c)),
    ];
    (any::<u16>(), prop::option::of(any::<u16>()), prop::collection::vec(edit, 0..4)).prop_map(|(a, b, edits)| {
        let mut s = SEEDS[idx(a, SEEDS.len())].to_string();
        if let Some(b) = b {
            s.push(' ');
            s.push_str(SEEDS[idx(b, SEEDS.len())]);
        }
        for e in &edits {
            s = apply(s, e);
        }
        s
    })
}
fn unbalanced() -> impl Strategy<Value = String> {
    // openers / closers of quotes, brackets and groups around small atoms, with closers dropped or doubled
    let atom = prop_oneof![Just("a"), Just("a b"), Just("1 TO 5"), Just("* TO 3"), Just("title:a"), Just("a OR b"), Just("+a -b"), Just("1 2 3"), Just(""), Just(" ")];
    let open = prop_oneof![Just("\""), Just("'"), Just("("), Just("["), Just("{"), Just("title:("), Just("title:["), Just("n_u64:{"), Just("tag: IN ["), Just("IN ["), Just("title:\""), Just("/"), Just("title:/")];
    let close = prop_oneof![Just(""), Just(""), Just("\""), Just("'"), Just(")"), Just("]"), Just("}"), Just("))"), Just("]]"), Just("\"\""), Just("/"), Just("~"), Just("~2"), Just("*"), Just("^"), Just("^2")];
    prop::collection::vec((open, atom, close), 1..5).prop_map(|v| {
        let mut s = String::new();
        for (o, a, c) in v {
            s.push_str(o);
            s.push_str(a);
            s.push_str(c);
            s.push(' ');
        }
        s
    })
}
const LONG_UNITS: &[&str] = &[
    "a ", "a AND ", "a OR ", "+a -b ", "title:foo ", "\"a b\" ", "title:[a TO b] ", "x", "é", "\\", "\"", "* ", "a^2 ", "n_u64: IN [1 2] ", "-", "+", ":", "a:", "~1", " ", "\u{3000}", "'", "[", "]", "/a/ ", "AND ", "OR ", "TO ", "IN ",
    "a\\ ", "()", "(a)", "title:(a) ", "1 ",
];
fn long_input(tier: Tier) -> impl Strategy<Value = String> {
    let max = tier.pick(1500usize, 20000usize);
    (any::<u16>(), 100usize..max, prop::option::of(any::<u16>()), prop::option::of(any::<u16>())).prop_map(|(u, n, pre, post)| {
        let mut s = String::new();
        if let Some(p) = pre {
            s.push_str(TOKENS[idx(p, TOKENS.len())]);
        }
        s.push_str(&LONG_UNITS[idx(u, LONG_UNITS.len())].repeat(n));
        if let Some(p) = post {
            s.push_str(TOKENS[idx(p, TOKENS.len())]);
        }
        s
    })
}
/// nested shapes; `closers`: how many of the closing parentheses are kept
pub const NEST_SHAPES: &[(&str, &str, &str)] = &[
    ("(", "a", ")"),
    ("+(", "a", ")"),
    ("-(", "a", ") b"),
    ("title:(", "a", ")"),
    ("(a ", "b", ")"),
    ("(a AND ", "b", ")"),
    ("(a OR (", "b", "))"),
    ("NOT ", "a", ""),
    ("(", "", ")"),
    ("(", "a", ")^2"),
    ("((", "title:[a TO b]", "))"),
];
pub fn nested_text(shape: usize, depth: usize, closers: usize) -> String {
    let (o, core, c) = NEST_SHAPES[shape % NEST_SHAPES.len()];
    let mut s = String::with_capacity((o.len() + c.len()) * depth + core.len());
    for _ in 0..depth {
        s.push_str(o);
    }
    s.push_str(core);
    for _ in 0..closers.min(depth) {
        s.push_str(c);
    }
    s
}
fn nested() -> impl Strategy<Value = String> {
    (any::<u16>(), 1usize..NEST_CAP, prop_oneof![3 => Just(usize::MAX), 1 => 0usize..NEST_CAP]).prop_map(|(shape, depth, closers)| {
        let shape = idx(shape, NEST_SHAPES.len());
        // keep below the in-process cap for every shape (some shapes open two levels per repetition)
        let per = NEST_SHAPES[shape].0.matches('(').count().max(1) + NEST_SHAPES[shape].0.matches("NOT").count();
        nested_text(shape, (depth / per).max(1), closers)
    })
}

pub fn survey_mode() -> bool {
    static ON: OnceLock<bool> = OnceLock::new();
    *ON.get_or_init(|| std::env::var("TVV_C16_SURVEY").is_ok())
}
pub fn survey_print(f: &Failure) {
    static SEEN: std::sync::Mutex<Vec<(String, usize)>> = std::sync::Mutex::new(Vec::new());
    let mut seen = SEEN.lock().unwrap();
    let n = match seen.iter_mut().find(|(s, _)| *s == f.sig) {
        Some((_, n)) => {
            *n += 1;
            *n
        }
        None => {
            seen.push((f.sig.clone(), 1));
            1
        }
    };
    if n <= 2 {
        let d: String = f.detail.chars().take(500).collect();
        eprintln!("SURVEY {} :: {}", f.sig, d);
    }
}

// ------------------------------------------------------------------------------------------------
#[derive(Clone, Debug, Serialize, Deserialize)]
pub struct StrCase {
    /// generator class (evidence only)
    pub class: String,
    pub text: String,
}

fn metachar_classes(text: &str) -> usize {
    let classes: [&[char]; 8] = [&['+', '-'], &['(', ')'], &['[', ']', '{', '}'], &['"', '\''], &[':'], &['^', '~', '*'], &['\\'], &['/', '<', '>']];
    let mut n = classes.iter().filter(|cl| text.contains(|c| cl.contains(&c))).count();
    if text.contains("AND") || text.contains("OR") || text.contains("NOT") || text.contains("IN") || text.contains("TO") {
        n += 1;
    }
    n
}

pub struct Totality;
impl Sub for Totality {
    type Case = StrCase;
    fn name(&self) -> &'static str {
        "totality"
    }
    fn cases(&self, tier: Tier) -> u32 {
        tier.pick(60_000, 1_000_000)
    }
    fn strategy(&self, tier: Tier) -> BoxedStrategy<StrCase> {
        prop_oneof![
            4 => soup().prop_map(|text| StrCase { class: "soup".into(), text }),
            3 => random_text().prop_map(|text| StrCase { class: "random".into(), text }),
            6 => mutated().prop_map(|text| StrCase { class: "mutated".into(), text }),
            2 => unbalanced().prop_map(|text| StrCase { class: "unbalanced".into(), text }),
            1 => nested().prop_map(|text| StrCase { class: "nested".into(), text }),
            1 => long_input(tier).prop_map(|text| StrCase { class: "long".into(), text }),
        ]
        .boxed()
    }
    fn mandatory_labels(&self, _t: Tier) -> Vec<&'static str> {
        vec![
            "class:soup",
            "class:random",
            "class:mutated",
            "class:unbalanced",
            "class:nested",
            "class:long",
            "grammar_strict_ok",
            "grammar_strict_err",
            "lenient_reports_errors",
            "qp_ok",
            "qp_err",
            "non_ascii",
            "len>=1000",
            "nesting>=32",
            "strict_ok_and_qp_err",
        ]
    }
    fn run(&self, c: &StrCase, cx: &Ctx) -> CaseResult {
        let mut facts = TotalityFacts::default();
        if std::env::var("TVV_C16_TRACE").is_ok() {
            eprintln!("TRACE {} {} {:?}", c.class, c.text.len(), c.text.chars().take(120).collect::<String>());
        }
        let fails = totality_failures(&c.text, &mut facts);
        if facts.capped {
            cx.excluded("nesting_above_in_process_cap", 1);
            cx.label("capped");
            return Ok(());
        }
        if facts.hang_hazard {
            cx.excluded("set_with_non_ascii_whitespace(run only by sub `isolated`)", 1);
            cx.label("hang_hazard_excluded");
            return Ok(());
        }
        if survey_mode() {
            // development aid (TVV_C16_SURVEY=1): never fails, counts every failure class and prints its first example
            for f in &fails {
                cx.count(&format!("survey:{}", f.sig), 1);
                survey_print(f);
            }
            return Ok(());
        }
        // report an unlisted class first; listed (open) classes are tolerated and counted by the engine
        if let Some(f) = fails.iter().find(|f| !cx.known_open(&f.sig)) {
            return Err(f.clone());
        }
        if let Some(f) = fails.into_iter().next() {
            return Err(f);
        }
        cx.label(&format!("class:{}", c.class));
        cx.label(if facts.strict_ok { "grammar_strict_ok" } else { "grammar_strict_err" });
        cx.label_if(facts.lenient_errors > 0, "lenient_reports_errors");
        cx.label_if(facts.qp_ok > 0, "qp_ok");
        cx.label_if(facts.qp_err > 0, "qp_err");
        cx.label_if(facts.strict_ok && facts.qp_err > 0, "strict_ok_and_qp_err");
        cx.label_if(!c.text.is_ascii(), "non_ascii");
        cx.label_if(c.text.len() >= 1000, "len>=1000");
        cx.label_if(recursion_bound(&c.text) >= 32, "nesting>=32");
        cx.label_if(c.text.trim().is_empty(), "blank");
        for k in &facts.qp_err_kinds {
            cx.count(&format!("qp_error:{k}"), 1);
        }
        cx.evals(1 + 2 * parser_set().configs.len() as u64); // 2 grammar calls (1 already counted) + 2 per configuration
        if c.text.chars().count() >= 3 && metachar_classes(&c.text) >= 2 {
            cx.nontrivial(fnv(c.text.as_bytes()));
        }
        if c.text.len() < 60 {
            cx.sample(|| json!({"sub":"totality","class":c.class,"text":c.text}));
        }
        Ok(())
    }
}

// ------------------------------------------------------------------------------------------------
#[derive(Clone, Debug, Serialize, Deserialize)]
pub struct NestCase {
    pub shape: u8,
    pub depth: u32,
}
pub struct Nesting;
impl Sub for Nesting {
    type Case = NestCase;
    fn name(&self) -> &'static str {
        "nesting"
    }
    fn cases(&self, tier: Tier) -> u32 {
        tier.pick(48, 300)
    }
    fn shards(&self, _tier: Tier) -> usize {
        8
    }
    fn max_shrink_iters(&self) -> u32 {
        60
    }
    fn strategy(&self, tier: Tier) -> BoxedStrategy<NestCase> {
        let max = tier.pick(20_000u32, 200_000u32);
        (0u8..NEST_SHAPES.len() as u8, prop_oneof![2 => 1u32..(NEST_CAP as u32), 2 => (NEST_CAP as u32)..2000, 2 => 2000u32..max]).prop_map(|(shape, depth)| NestCase { shape, depth }).boxed()
    }
    fn mandatory_labels(&self, _t: Tier) -> Vec<&'static str> {
        vec!["in_process", "child_process", "depth>=2000"]
    }
    fn run(&self, c: &NestCase, cx: &Ctx) -> CaseResult {
        let shape = c.shape as usize % NEST_SHAPES.len();
        let depth = c.depth as usize;
        let text = nested_text(shape, depth, usize::MAX);
        if recursion_bound(&text) <= NEST_CAP {
            let mut facts = TotalityFacts::default();
            let fails = totality_failures(&text, &mut facts);
            if let Some(f) = fails.iter().find(|f| !cx.known_open(&f.sig)) {
                return Err(f.clone());
            }
            if let Some(f) = fails.into_iter().next() {
                return Err(f);
            }
            cx.label("in_process");
        } else {
            let exe = std::env::current_exe().or_fail("INFRA:current_exe")?;
            let out = std::process::Command::new(exe)
                .args(["child", "c16-nest", &shape.to_string(), &depth.to_string()])
                .stdin(std::process::Stdio::null())
                .stdout(std::process::Stdio::piped())
                .stderr(std::process::Stdio::piped())
                .output()
                .or_fail("INFRA:spawn_child")?;
            cx.label("child_process");
            cx.label_if(depth >= 2000, "depth>=2000");
            let stderr = String::from_utf8_lossy(&out.stderr);
            let stdout = String::from_utf8_lossy(&out.stdout);
            match out.status.code() {
                Some(0) => cx.label("child_ok"),
                Some(3) => {
                    // the child ran the oracle and it failed: first line of stdout is `sig<TAB>detail`
                    let line = stdout.lines().next().unwrap_or("");
                    let (sig, detail) = line.split_once('\t').unwrap_or(("child_oracle_failed", line));
                    return Err(Failure::new(sig, format!("shape {:?} depth {depth}: {detail}", NEST_SHAPES[shape])));
                }
                Some(code) => return Err(Failure::new("INFRA:child_exit", format!("exit {code}: {stderr}"))),
                None => {
                    let overflow = stderr.contains("overflowed its stack");
                    let mut tail: String = stderr.chars().take(300).collect();
                    tail.retain(|ch| ch != '\n');
                    return Err(Failure::new(
                        if overflow { "stack_overflow:nesting" } else { "child_killed_by_signal" },
                        format!(
                            "parsing {:?} repeated {depth} times (input of {} bytes) on a thread with an 8 MiB stack killed the process: {tail}",
                            NEST_SHAPES[shape].0,
                            text.len()
                        ),
                    ));
                }
            }
        }
        cx.nontrivial(mix(shape as u64, depth as u64));
        cx.sample(|| json!({"sub":"nesting","shape":NEST_SHAPES[shape].0,"depth":depth}));
        Ok(())
    }
}

// ------------------------------------------------------------------------------------------------
// `isolated`: the totality oracle in a child process with an address-space and a CPU-time limit, for inputs
// on which a parser may not return at all (a call that does not return cannot be judged in-process).
#[derive(Clone, Debug, Serialize, Deserialize)]
pub struct IsoCase {
    pub text: String,
}
pub struct Isolated;
const ISO_TOKENS: &[&str] = &[
    "IN [", "IN[", "a: IN [", "title: IN [", "IN  [", "]", "a", "b", " ", " ", "\"", "'", "(", ")", "\u{3000}", "\u{a0}", "\u{b}", "\u{c}", "\u{85}", "\u{2028}", "\u{2003}", "\u{1680}", "\u{feff}", "\t", "\n", "[", "{", "TO", "title:", "AND ", "OR ",
    "NOT ", "+", "-", "*", "^", "~", "\\", "/",
];
pub fn hex(s: &str) -> String {
    s.bytes().map(|b| format!("{b:02x}")).collect()
}
pub fn unhex(s: &str) -> String {
    let bytes: Vec<u8> = (0..s.len() / 2).filter_map(|i| u8::from_str_radix(&s[2 * i..2 * i + 2], 16).ok()).collect();
    String::from_utf8_lossy(&bytes).into_owned()
}
impl Sub for Isolated {
    type Case = IsoCase;
    fn name(&self) -> &'static str {
        "isolated"
    }
    fn cases(&self, tier: Tier) -> u32 {
        tier.pick(160, 3000)
    }
    fn max_shrink_iters(&self) -> u32 {
        200
    }
    fn strategy(&self, _tier: Tier) -> BoxedStrategy<IsoCase> {
        prop_oneof![
            3 => prop::collection::vec(any::<u16>(), 1..10).prop_map(|v| v.into_iter().map(|i| ISO_TOKENS[idx(i, ISO_TOKENS.len())]).collect::<String>()),
            1 => (soup(), any::<u16>(), any::<u16>()).prop_map(|(mut s, p, t)| {
                // a token soup with one odd whitespace character somewhere
                let a = char_pos(&s, p);
                s.insert_str(a, ["\u{3000}", "\u{a0}", "\u{b}", "\u{c}", "\u{85}", "\u{2028}"][idx(t, 6)]);
                s
            }),
        ]
        .prop_map(|text| IsoCase { text })
        .boxed()
    }
    fn mandatory_labels(&self, _t: Tier) -> Vec<&'static str> {
        vec!["child_returned", "odd_whitespace", "set_with_odd_whitespace"]
    }
    fn run(&self, c: &IsoCase, cx: &Ctx) -> CaseResult {
        if recursion_bound(&c.text) > NEST_CAP {
            cx.excluded("nesting_above_in_process_cap", 1);
            return Ok(());
        }
        let hazard = set_hang_hazard(&c.text);
        if hazard && cx.known_open("no_return:grammar_lenient:memory_limit") && !cx.replay {
            // every such input re-triggers the open finding (and costs a second of CPU): excluded by construction,
            // the known-finding probe keeps reproducing it
            cx.excluded("set_with_non_ascii_whitespace", 1);
            cx.label("set_with_odd_whitespace");
            cx.label("odd_whitespace");
            return Ok(());
        }
        let exe = std::env::current_exe().or_fail("INFRA:current_exe")?;
        // 512 MiB of address space, 20 s of CPU time for an input of a few dozen bytes
        let out = std::process::Command::new("sh")
            .arg("-c")
            .arg("ulimit -v 524288; ulimit -t 20; exec \"$0\" \"$@\"")
            .arg(exe)
            .args(["child", "c16-total", &hex(&c.text)])
            .stdin(std::process::Stdio::null())
            .stdout(std::process::Stdio::piped())
            .stderr(std::process::Stdio::piped())
            .output()
            .or_fail("INFRA:spawn_child")?;
        let stdout = String::from_utf8_lossy(&out.stdout);
        let stderr = String::from_utf8_lossy(&out.stderr);
        let stage = stdout.lines().filter_map(|l| l.strip_prefix("BEGIN ")).last().unwrap_or("startup").to_string();
        match out.status.code() {
            Some(0) => {}
            Some(3) => {
                let mut fails = vec![];
                for l in stdout.lines() {
                    if let Some(rest) = l.strip_prefix("FAIL ") {
                        let (sig, detail) = rest.split_once('\t').unwrap_or((rest, ""));
                        fails.push(Failure::new(sig, detail));
                    }
                }
                if let Some(f) = fails.iter().find(|f| !cx.known_open(&f.sig)) {
                    return Err(f.clone());
                }
                if let Some(f) = fails.into_iter().next() {
                    return Err(f);
                }
                return Err(Failure::new("INFRA:child_protocol", stdout.to_string()));
            }
            Some(code) => return Err(Failure::new("INFRA:child_exit", format!("exit {code}: {stderr}"))),
            None => {
                use std::os::unix::process::ExitStatusExt;
                let sig = out.status.signal().unwrap_or(0);
                let reason = if stderr.contains("memory allocation") {
                    "memory_limit"
                } else if sig == 24 || sig == 9 {
                    "cpu_limit"
                } else {
                    "signal"
                };
                if stage == "startup" {
                    return Err(Failure::new("INFRA:child_died_at_startup", format!("signal {sig}: {stderr}")));
                }
                let mut tail: String = stderr.chars().take(200).collect();
                tail.retain(|ch| ch != '\n');
                return Err(Failure::new(
                    format!("no_return:{stage}:{reason}"),
                    format!("{stage} did not return on the {}-byte input {:?}: child (512 MiB address space, 20 s CPU) killed by signal {sig}: {tail}", c.text.len(), c.text),
                ));
            }
        }
        cx.label("child_returned");
        cx.label_if(c.text.chars().any(odd_ws), "odd_whitespace");
        cx.label_if(hazard, "set_with_odd_whitespace");
        cx.nontrivial(fnv(c.text.as_bytes()));
        cx.sample(|| json!({"sub":"isolated","text":c.text}));
        Ok(())
    }
}

/// `tvv child c16-total <hex>`: every parser on the text, stage markers on stdout
fn child_total(text: &str) -> i32 {
    use std::io::Write;
    let mark = |m: &str| {
        println!("{m}");
        let _ = std::io::stdout().flush();
    };
    mark("BEGIN grammar_strict");
    let strict = guarded(|| tantivy_query_grammar::parse_query(text));
    mark("END");
    mark("BEGIN grammar_lenient");
    let lenient = guarded(|| tantivy_query_grammar::parse_query_lenient(text));
    mark("END");
    drop((strict, lenient));
    for (name, qp) in &parser_set().configs {
        mark(&format!("BEGIN qp_strict[{name}]"));
        let _ = guarded(|| qp.parse_query(text));
        mark("END");
        mark(&format!("BEGIN qp_lenient[{name}]"));
        let _ = guarded(|| qp.parse_query_lenient(text));
        mark("END");
    }
    mark("BEGIN oracle");
    let fails = totality_failures_unguarded(text, &mut TotalityFacts::default());
    mark("END");
    for f in &fails {
        let mut d = f.detail.replace('\n', " ");
        d.truncate(1500);
        println!("FAIL {}\t{}", f.sig, d);
    }
    if fails.is_empty() {
        0
    } else {
        3
    }
}

/// `tvv child c16-nest <shape> <depth>`: parse the nested input with every parser on a thread with an 8 MiB
/// stack (the default main-thread stack on Linux).  exit 0 = all returned and the oracle holds, 3 = oracle failed.
pub fn child_main(args: &[String]) -> i32 {
    if args.len() == 3 && args[0] == "c16-parse" {
        // triage aid: `tvv child c16-parse <strict|lenient|qp> <text>`
        let text = &args[2];
        match args[1].as_str() {
            "strict" => println!("{:?}", tantivy_query_grammar::parse_query(text)),
            "lenient" => println!("{:?}", tantivy_query_grammar::parse_query_lenient(text)),
            _ => {
                for (name, qp) in &parser_set().configs {
                    println!("{name}: strict {:?}", qp.parse_query(text));
                    println!("{name}: lenient {:?}", qp.parse_query_lenient(text));
                }
            }
        }
        return 0;
    }
    if args.len() == 2 && args[0] == "c16-total" {
        return child_total(&unhex(&args[1]));
    }
    if args.len() < 3 || args[0] != "c16-nest" {
        return 2;
    }
    let shape: usize = args[1].parse().unwrap_or(0);
    let depth: usize = args[2].parse().unwrap_or(1);
    let text = nested_text(shape, depth, usize::MAX);
    let h = std::thread::Builder::new().stack_size(8 << 20).spawn(move || {
        // same oracle, without the in-process cap
        let strict = tantivy_query_grammar::parse_query(&text);
        let (l, errs) = tantivy_query_grammar::parse_query_lenient(&text);
        if let Ok(s) = &strict {
            if let Some((sig, _)) = grammar_disagreement(s, &l, &errs) {
                println!("{sig}\tdeep nesting");
                return 3;
            }
        }
        // dropping / printing deep trees recurses as well: part of "returns"
        drop((strict, l, errs));
        for (_, qp) in &parser_set().configs {
            let s = qp.parse_query(&text);
            let (lq, lerrs) = qp.parse_query_lenient(&text);
            if let Ok(sq) = &s {
                if !lerrs.is_empty() {
                    println!("qp_disagree:lenient_error:{}\tdeep nesting", qp_error_kind(&lerrs[0]));
                    return 3;
                }
                let _ = (sq, &lq);
            }
        }
        0
    });
    match h {
        Ok(j) => j.join().unwrap_or(101),
        Err(_) => 2,
    }
}
