//! C15, sub-checks `merge` (tantivy_sstable::merge) and `columnar` (dictionaries of bytes columns, ordinal
//! mappings of columnar merges).
use std::collections::BTreeSet;
use std::fmt::Debug;

use proptest::prelude::*;
use serde::{Deserialize, Serialize};
use serde_json::json;
use tantivy_columnar::{compute_merged_term_ord_mapping, merge_columnar, BytesColumn, ColumnarReader, ColumnarWriter, DynamicColumn, MergeRowOrder, StackMergeOrder};
use tantivy_common::OwnedBytes;
use tantivy_sstable::merge::{merge_sstable, KeepFirst, SingleValueMerger, ValueMerger, VoidMerge};
use tantivy_sstable::{Dictionary, MonotonicU64SSTable, SSTable, TermOrdHit, VecU32ValueSSTable, VoidSSTable};

use super::c15::*;
use super::c15_termdict::member_has;
use crate::engine::*;
use crate::{ensure, fail};

// ------------------------------------------------------------------------------------------------
// sstable merge
// ------------------------------------------------------------------------------------------------

#[derive(Clone, Copy, Debug, Serialize, Deserialize, PartialEq)]
pub enum MergeKind {
    Void,
    /// MonotonicU64 values that are a monotone function of the key (same in every input), KeepFirst merger
    U64KeepFirst,
    /// VecU32 values, harness merger that concatenates the values of all inputs holding the key
    VecConcat,
}
#[derive(Clone, Debug, Serialize, Deserialize)]
pub struct MergeCase {
    pub universe: KeySet,
    pub members: Vec<(u64, u8)>,
    pub kind: MergeKind,
    pub vseed: u64,
    pub in_block_len: u16,
    /// None: `SSTable::merge` (default block length); Some: `merge_sstable` into a writer with that block length
    pub out_block_len: Option<u16>,
}

pub struct Concat;
pub struct ConcatOne(Vec<u32>);
impl ValueMerger<Vec<u32>> for Concat {
    type TSingleValueMerger = ConcatOne;
    fn new_value(&mut self, v: &Vec<u32>) -> ConcatOne {
        ConcatOne(v.clone())
    }
}
impl SingleValueMerger<Vec<u32>> for ConcatOne {
    fn add(&mut self, v: &Vec<u32>) {
        self.0.extend_from_slice(v);
    }
    fn finish(self) -> Vec<u32> {
        self.0
    }
}

/// `value_of(member, universe index)`; `combine(values of the members holding the key, in member order)`
fn run_merge<S: SSTable, M: ValueMerger<S::Value>>(
    c: &MergeCase,
    universe: &[Vec<u8>],
    value_of: impl Fn(usize, usize) -> S::Value,
    combine: impl Fn(&[S::Value]) -> S::Value,
    normalise: impl Fn(&S::Value) -> S::Value,
    merger: M,
    cx: &Ctx,
) -> CaseResult
where
    S::Value: PartialEq + Debug,
{
    let mut inputs: Vec<Vec<u8>> = vec![];
    let mut holds: Vec<Vec<usize>> = vec![];
    for (d, (seed, density)) in c.members.iter().enumerate() {
        let idxs: Vec<usize> = (0..universe.len()).filter(|i| member_has(*seed, *density, *i)).collect();
        let entries: Vec<(Vec<u8>, S::Value)> = idxs.iter().map(|i| (universe[*i].clone(), value_of(d, *i))).collect();
        inputs.push(build_sstable::<S>(&entries, c.in_block_len as usize)?);
        holds.push(idxs);
    }
    let mut expected: Vec<(&[u8], S::Value)> = vec![];
    let mut overlap = 0;
    for (i, k) in universe.iter().enumerate() {
        let vals: Vec<S::Value> = holds.iter().enumerate().filter(|(_, h)| h.binary_search(&i).is_ok()).map(|(d, _)| value_of(d, i)).collect();
        if !vals.is_empty() {
            if vals.len() >= 2 {
                overlap += 1;
            }
            expected.push((&k[..], combine(&vals)));
        }
    }
    let mut out: Vec<u8> = vec![];
    match c.out_block_len {
        None => S::merge(inputs.into_iter().map(OwnedBytes::new).collect(), &mut out, merger).or_fail("sstable_merge_error")?,
        Some(bl) => {
            let readers = inputs.into_iter().map(|b| S::reader(OwnedBytes::new(b))).collect();
            let mut w = S::writer(&mut out);
            w.set_block_len(bl as usize);
            merge_sstable::<S, _, _>(readers, w, merger).or_fail("sstable_merge_error")?;
        }
    }
    let dict = Dictionary::<S>::from_bytes(OwnedBytes::new(out)).or_fail("merged_sstable_open_error")?;
    ensure!(dict.num_terms() == expected.len(), "sstable_merge_union_mismatch", "merged num_terms {} model {}", dict.num_terms(), expected.len());
    let mut st = dict.stream().or_fail("merged_stream_error")?;
    let mut j = 0usize;
    while st.advance() {
        ensure!(j < expected.len(), "sstable_merge_union_mismatch", "merged dictionary has more than {} keys: extra {}", expected.len(), hex(st.key()));
        ensure!(st.key() == expected[j].0, "sstable_merge_union_mismatch", "merged key #{j} = {}, model {}", hex(st.key()), hex(expected[j].0));
        ensure!(normalise(st.value()) == normalise(&expected[j].1), "sstable_merge_value_mismatch", "key {}: merged value {:?}, model {:?}", hex(st.key()), st.value(), expected[j].1);
        ensure!(st.term_ord() == j as u64, "sstable_merge_ordinal_mismatch", "key {}: ordinal {} model {j}", hex(st.key()), st.term_ord());
        j += 1;
    }
    ensure!(j == expected.len(), "sstable_merge_union_mismatch", "merged stream stopped after {j} keys, model {}", expected.len());
    // the merged file is a well-formed dictionary: point lookups on a strided subset
    let stride = (expected.len() / 32).max(1);
    for j in (0..expected.len()).step_by(stride) {
        let o = dict.term_ord(expected[j].0).or_fail("merged_term_ord_error")?;
        ensure!(o == Some(j as u64), "sstable_merge_ordinal_mismatch", "term_ord({}) = {o:?} model {j}", hex(expected[j].0));
        let v = dict.get(expected[j].0).or_fail("merged_get_error")?;
        ensure!(v.as_ref().map(&normalise) == Some(normalise(&expected[j].1)), "sstable_merge_value_mismatch", "get({}) = {v:?}", hex(expected[j].0));
    }
    let nblocks = block_first_ordinals(&dict).len();
    cx.label_if(overlap > 0, "merge_overlapping_keys");
    cx.label_if(holds.iter().any(|h| h.is_empty()), "merge_with_empty_input");
    cx.label_if(holds.len() >= 3, "merge_inputs>=3");
    cx.label_if(nblocks >= 2, "merged_blocks>=2");
    cx.label_if(expected.first().map(|e| e.0.is_empty()).unwrap_or(false) && overlap > 0, "merge_empty_key");
    cx.label_if(c.out_block_len.is_none(), "merge_via_SSTable::merge");
    cx.count("merged_keys", expected.len() as u64);
    if overlap > 0 && holds.len() >= 2 {
        cx.nontrivial(fp(c));
    }
    cx.sample(|| json!({"sub":"merge","kind":format!("{:?}", c.kind),"inputs":holds.iter().map(|h| h.len()).collect::<Vec<_>>(),"union":expected.len(),"overlap":overlap}));
    Ok(())
}

pub struct MergeSub;
impl Sub for MergeSub {
    type Case = MergeCase;
    fn name(&self) -> &'static str {
        "merge"
    }
    fn cases(&self, tier: Tier) -> u32 {
        tier.pick(4_000, 100_000)
    }
    fn strategy(&self, _tier: Tier) -> BoxedStrategy<MergeCase> {
        let density = prop_oneof![1 => Just(0u8), 2 => Just(255u8), 6 => 30u8..230];
        let kind = prop_oneof![Just(MergeKind::Void), Just(MergeKind::U64KeepFirst), Just(MergeKind::VecConcat)];
        (
            keyset_strategy(500, true),
            prop::collection::vec((any::<u64>(), density), 1..6),
            kind,
            any::<u64>(),
            block_len_strategy(),
            prop::option::weighted(0.7, block_len_strategy()),
        )
            .prop_map(|(universe, members, kind, vseed, in_block_len, out_block_len)| MergeCase { universe, members, kind, vseed, in_block_len, out_block_len })
            .boxed()
    }
    fn mandatory_labels(&self, _t: Tier) -> Vec<&'static str> {
        vec![
            "kind_Void",
            "kind_U64KeepFirst",
            "kind_VecConcat",
            "merge_overlapping_keys",
            "merge_with_empty_input",
            "merge_inputs>=3",
            "merged_blocks>=2",
            "merge_empty_key",
            "merge_via_SSTable::merge",
        ]
    }
    fn run(&self, c: &MergeCase, cx: &Ctx) -> CaseResult {
        let universe = c.universe.build();
        if c.members.is_empty() {
            fail!("INFRA:no_members", "");
        }
        cx.label(&format!("kind_{:?}", c.kind));
        match c.kind {
            MergeKind::Void => run_merge::<VoidSSTable, _>(c, &universe, |_, _| (), |_| (), |_| (), VoidMerge, cx),
            MergeKind::U64KeepFirst => {
                let vals = gen_u64(universe.len(), c.vseed);
                run_merge::<MonotonicU64SSTable, _>(c, &universe, |_, i| vals[i], |v| v[0], |v| *v, KeepFirst, cx)
            }
            MergeKind::VecConcat => {
                let seed = c.vseed;
                // the order in which the values of equal keys reach the merger is not specified: compare as multisets
                run_merge::<VecU32ValueSSTable, _>(
                    c,
                    &universe,
                    move |d, i| {
                        let h = mix(seed, (d * 100_003 + i) as u64);
                        (0..(h % 3) as usize).map(|j| (h >> (8 * j + 8)) as u32).chain(std::iter::once(d as u32)).collect()
                    },
                    |vs| vs.iter().flatten().copied().collect(),
                    |v| {
                        let mut s = v.clone();
                        s.sort();
                        s
                    },
                    Concat,
                    cx,
                )
            }
        }
    }
}

// ------------------------------------------------------------------------------------------------
// columnar dictionaries
// ------------------------------------------------------------------------------------------------

#[derive(Clone, Debug, Serialize, Deserialize)]
pub struct SegSpec {
    pub rows: u16,
    pub seed: u64,
    /// up to that many values per row
    pub max_vals: u8,
}
#[derive(Clone, Debug, Serialize, Deserialize)]
pub struct ColumnarCase {
    pub universe: KeySet,
    pub segs: Vec<SegSpec>,
}

/// values (universe indices, distinct, ascending) of every row of a segment
fn seg_rows(s: &SegSpec, universe_len: usize) -> Vec<Vec<usize>> {
    (0..s.rows as u64)
        .map(|r| {
            if universe_len == 0 {
                return vec![];
            }
            let mut l = Lcg(mix(s.seed, r));
            let cnt = (l.next() % (s.max_vals as u64 + 1)) as usize;
            let set: BTreeSet<usize> = (0..cnt).map(|_| (l.next() % universe_len as u64) as usize).collect();
            set.into_iter().collect()
        })
        .collect()
}

fn open_bytes_column(reader: &ColumnarReader) -> Result<Option<BytesColumn>, Failure> {
    let handles = reader.read_columns("c").or_fail("columnar_read_columns_error")?;
    match handles.len() {
        0 => Ok(None),
        1 => match handles[0].open().or_fail("columnar_open_column_error")? {
            DynamicColumn::Bytes(b) => Ok(Some(b)),
            other => Err(Failure::new("columnar_wrong_column_type", format!("{:?}", other.column_type()))),
        },
        n => Err(Failure::new("columnar_wrong_column_count", format!("{n}"))),
    }
}

/// dictionary of a bytes column = exactly `used` (ascending universe indices); rows map back to their values
fn check_column(what: &str, col: &BytesColumn, universe: &[Vec<u8>], used: &[usize], rows: &[Vec<usize>]) -> CaseResult {
    let dict = col.dictionary();
    ensure!(dict.num_terms() == used.len() && col.num_terms() == used.len(), "columnar_dictionary_mismatch", "{what}: num_terms {} model {}", dict.num_terms(), used.len());
    let mut st = dict.stream().or_fail("columnar_stream_error")?;
    let mut j = 0usize;
    while st.advance() {
        ensure!(j < used.len() && st.key() == &universe[used[j]][..], "columnar_dictionary_mismatch", "{what}: key #{j} = {}, model {:?}", hex(st.key()), used.get(j).map(|u| hex(&universe[*u])));
        ensure!(st.term_ord() == j as u64, "columnar_dictionary_mismatch", "{what}: key #{j} has stream ordinal {}", st.term_ord());
        j += 1;
    }
    ensure!(j == used.len(), "columnar_dictionary_mismatch", "{what}: stream stopped after {j} keys, model {}", used.len());
    let mut buf = vec![];
    for (j, u) in used.iter().enumerate() {
        let k = &universe[*u];
        let o = dict.term_ord(k).or_fail("columnar_term_ord_error")?;
        ensure!(o == Some(j as u64), "columnar_dictionary_mismatch", "{what}: term_ord({}) = {o:?}, model {j}", hex(k));
        ensure!(col.ord_to_bytes(j as u64, &mut buf).or_fail("columnar_ord_to_bytes_error")? && &buf == k, "columnar_dictionary_mismatch", "{what}: ord_to_bytes({j}) = {}, model {}", hex(&buf), hex(k));
    }
    // absent universe keys: successor search
    for (i, k) in universe.iter().enumerate() {
        if used.binary_search(&i).is_err() {
            let succ = used.partition_point(|u| *u < i);
            match dict.term_ord_or_next(k).or_fail("columnar_term_ord_or_next_error")? {
                TermOrdHit::Next(o) if succ < used.len() => ensure!(o == succ as u64, "columnar_dictionary_mismatch", "{what}: term_ord_or_next({}) = Next({o}), model Next({succ})", hex(k)),
                TermOrdHit::Next(o) => ensure!(o >= used.len() as u64, "columnar_dictionary_mismatch", "{what}: term_ord_or_next({}) = Next({o}) but no successor", hex(k)),
                TermOrdHit::Exact(o) => fail!("columnar_dictionary_mismatch", "{what}: term_ord_or_next({}) = Exact({o}) for an absent key", hex(k)),
            }
        }
    }
    ensure!(col.num_rows() as usize == rows.len(), "columnar_rows_mismatch", "{what}: num_rows {} model {}", col.num_rows(), rows.len());
    for (r, vals) in rows.iter().enumerate() {
        let mut got: Vec<u64> = col.term_ords(r as u32).collect();
        got.sort();
        let want: Vec<u64> = vals.iter().map(|u| used.binary_search(u).unwrap() as u64).collect();
        ensure!(got == want, "columnar_row_ordinals_mismatch", "{what}: row {r}: ordinals {got:?}, model {want:?}");
    }
    Ok(())
}

pub struct ColumnarSub;
impl Sub for ColumnarSub {
    type Case = ColumnarCase;
    fn name(&self) -> &'static str {
        "columnar"
    }
    fn cases(&self, tier: Tier) -> u32 {
        tier.pick(2_500, 60_000)
    }
    fn strategy(&self, _tier: Tier) -> BoxedStrategy<ColumnarCase> {
        let seg = (prop_oneof![1 => Just(0u16), 5 => 1u16..40, 3 => 40u16..600], any::<u64>(), prop_oneof![1 => Just(0u8), 3 => Just(1u8), 3 => 2u8..4]).prop_map(|(rows, seed, max_vals)| SegSpec { rows, seed, max_vals });
        // (dictionaries of columns use the default 4000-byte blocks: long keys make them multi-block)
        (keyset_strategy(500, true), prop::collection::vec(seg, 1..5)).prop_map(|(universe, segs)| ColumnarCase { universe, segs }).boxed()
    }
    fn mandatory_labels(&self, _t: Tier) -> Vec<&'static str> {
        vec!["segments>=2", "overlapping_terms", "segment_without_column", "dictionary_blocks>=2", "multivalued_rows", "has_empty_key", "merged_columnar"]
    }
    fn run(&self, c: &ColumnarCase, cx: &Ctx) -> CaseResult {
        let universe = c.universe.build();
        let mut readers: Vec<ColumnarReader> = vec![];
        let mut cols: Vec<Option<BytesColumn>> = vec![];
        let mut useds: Vec<Vec<usize>> = vec![];
        let mut all_rows: Vec<Vec<usize>> = vec![];
        for (s, spec) in c.segs.iter().enumerate() {
            let rows = seg_rows(spec, universe.len());
            let mut w = ColumnarWriter::default();
            for (r, vals) in rows.iter().enumerate() {
                // insertion order within the row is descending: the dictionary must sort
                for u in vals.iter().rev() {
                    w.record_bytes(r as u32, "c", &universe[*u]);
                }
            }
            let mut buf: Vec<u8> = vec![];
            w.serialize(spec.rows as u32, None, &mut buf).or_fail("columnar_serialize_error")?;
            let reader = ColumnarReader::open(buf).or_fail("columnar_open_error")?;
            let used: Vec<usize> = rows.iter().flatten().copied().collect::<BTreeSet<_>>().into_iter().collect();
            let col = open_bytes_column(&reader)?;
            match &col {
                None => ensure!(used.is_empty(), "columnar_column_missing", "segment {s} has {} distinct values but no column", used.len()),
                Some(col) => check_column(&format!("segment {s}"), col, &universe, &used, &rows)?,
            }
            cx.label_if(col.is_none(), "segment_without_column");
            cx.label_if(col.as_ref().map(|c| block_first_ordinals(c.dictionary()).len() >= 2).unwrap_or(false), "dictionary_blocks>=2");
            cx.label_if(rows.iter().any(|r| r.len() >= 2), "multivalued_rows");
            cx.label_if(used.first().map(|u| universe[*u].is_empty()).unwrap_or(false), "has_empty_key");
            readers.push(reader);
            cols.push(col);
            useds.push(used);
            all_rows.extend(rows);
        }
        // old -> new ordinal mapping over the segments that have a column
        let present: Vec<usize> = (0..cols.len()).filter(|i| cols[*i].is_some()).collect();
        let union: Vec<usize> = present.iter().flat_map(|i| useds[*i].iter().copied()).collect::<BTreeSet<_>>().into_iter().collect();
        let overlapping = present.iter().map(|i| useds[*i].len()).sum::<usize>() > union.len();
        if !present.is_empty() {
            let bc: Vec<BytesColumn> = present.iter().map(|i| cols[*i].clone().unwrap()).collect();
            let mapping = compute_merged_term_ord_mapping(&bc).or_fail("compute_merged_term_ord_mapping_error")?;
            ensure!(mapping.len() == present.len(), "columnar_ordinal_map_mismatch", "mapping for {} segments, expected {}", mapping.len(), present.len());
            for (j, i) in present.iter().enumerate() {
                let want: Vec<u64> = useds[*i].iter().map(|u| union.binary_search(u).unwrap() as u64).collect();
                ensure!(mapping[j] == want, "columnar_ordinal_map_mismatch", "segment {i}: old->new {:?}, model {want:?}", mapping[j]);
            }
            cx.evals(1);
        }
        // merge (stacked): merged dictionary = union, rows keep their values
        if readers.len() >= 2 || !present.is_empty() {
            let refs: Vec<&ColumnarReader> = readers.iter().collect();
            let mut out: Vec<u8> = vec![];
            merge_columnar(&refs, &[], MergeRowOrder::Stack(StackMergeOrder::stack(&refs)), &mut out).or_fail("merge_columnar_error")?;
            let merged = ColumnarReader::open(out).or_fail("merged_columnar_open_error")?;
            match open_bytes_column(&merged)? {
                None => ensure!(union.is_empty(), "columnar_column_missing", "merged columnar has no column but the union has {} terms", union.len()),
                Some(col) => check_column("merged", &col, &universe, &union, &all_rows)?,
            }
            cx.label("merged_columnar");
            cx.evals(1);
        }
        cx.label_if(c.segs.len() >= 2, "segments>=2");
        cx.label_if(overlapping, "overlapping_terms");
        if overlapping && present.len() >= 2 {
            cx.nontrivial(fp(c));
        }
        cx.sample(|| json!({"sub":"columnar","universe":universe.len(),"segments":c.segs,"union":union.len()}));
        Ok(())
    }
}
