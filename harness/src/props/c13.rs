//! C13 — every DocSet is one sorted sequence under any mix of advance / seek / fills / seek_danger / count.
//!
//! Oracle: the reference sequence `[(doc, score)]` of a *fresh* scorer driven by plain `advance()`; every
//! observation of a generated call program on another fresh scorer must agree with it.
use std::cell::RefCell;
use std::panic::{catch_unwind, AssertUnwindSafe};
use std::rc::Rc;
use std::sync::OnceLock;

use proptest::prelude::*;
use serde::{Deserialize, Serialize};
use serde_json::json;
use tantivy::query::*;
use tantivy::{DocSet, TERMINATED};
use tantivy_common::TinySet;

use super::c13_corpus::*;
use crate::engine::*;
use crate::{ensure, fail};

pub const K_BITSET: &str = "revived_after_end:bitset";
pub const K_FILL_SCORE: &str = "score_after_fill_buffer:union";
pub const K_UDC: &str = "union_seek_danger_stale_child";
pub const K_UNION_BOUND: &str = "seek_danger_bound_high:union";
pub const K_PHRASE_ASSERT: &str = "panic:phrase_query/phrase_scorer.rs";
pub const K_RANGE_UNDERFLOW: &str = "panic:range_query/fast_field_range_doc_set.rs";

pub fn def() -> PropDef {
    PropDef {
        id: "C13",
        level: "exploration",
        rule: "case = one generated single-segment corpus (size classes 1-20, ~128, ~256, ~1024, ~4096, 4097-9500 docs; terms with dense/periodic/sparse/run/head-only/tail-only/exact-length-127..257 posting lists; single-, optional- and multi-valued fast fields; optional deletes) x 6-24 (query shape, scoring on/off, boost) runs x 8-40 call programs each. Shapes come from a catalogue covering every scorer kind plus generated boolean/dismax/boost/const nestings (depth <= 4). A program is a sequence over {advance, seek(target >= doc: delta / k-th next reference doc +-1 / absolute boundary +-1 / past max_doc), seek(TERMINATED), fill_buffer, fill_bitset_block(min_doc >= doc), seek_danger chain (strictly increasing targets: at-bound / between / beyond / next-doc, until Found or TERMINATED bound), score, count_including_deleted / count(alive) (terminal)}. Non-trivial = reference has >= 130 docs and the program contains a seek that jumps over a 128-posting block or >= 1024 doc ids, or a seek_danger miss followed by Found; distinct by (corpus, shape, scoring, program).",
        assumptions: vec![
            "the reference is tantivy's own plain-advance enumeration of a fresh scorer (the property is about self-consistency of a DocSet, C03 decides whether the set is the right one); the reference itself is checked to be strictly increasing, below max_doc and sticky at the end",
            "documented preconditions of src/docset.rs are respected by construction: seek targets >= doc() and <= TERMINATED, strictly increasing seek_danger targets, only seek_danger after a miss until Found (a TERMINATED bound ends the program), fill_bitset_block only on a non-terminated docset with doc() <= min_doc < max_doc + 10000, no calls after count",
            "scores of single-clause shapes are compared bit for bit, sums over n clauses within 8*n*eps relative (accumulation order inside a union window may legitimately differ)",
            "segment doc id == insertion rank (single indexing thread, one segment, no merge); verified at build time through the uid column and the alive bitset",
        ],
        subs: vec![Box::new(Programs), Box::new(Pairs), Box::new(FuzzBytes)],
    }
}

// ------------------------------------------------------------------------------------------------
// call programs

#[derive(Clone, Debug, Serialize, Deserialize, PartialEq)]
pub enum Tgt {
    /// doc() + delta
    Delta(u32),
    /// the k-th next document of the reference after the current one, plus off (-1, 0, 1)
    Ref { k: u16, off: i8 },
    /// an absolute doc id (raised to doc() if below)
    Abs(u32),
    /// 0: max_doc - 1, 1: max_doc, 2: max_doc + 1, 3: TERMINATED - 1
    End(u8),
}
#[derive(Clone, Debug, Serialize, Deserialize, PartialEq)]
pub enum Step {
    /// next target = the returned lower bound (what Intersection does)
    AtBound,
    /// next target strictly between the previous target and the bound (what Exclude does), fraction in 1/256
    Between(u8),
    /// next target = bound + delta
    Beyond(u32),
    /// next target = first reference doc >= bound
    NextRef,
}
#[derive(Clone, Debug, Serialize, Deserialize, PartialEq)]
pub enum Op {
    Advance,
    Seek(Tgt),
    SeekTerminated,
    FillBuffer,
    FillBitset(Tgt),
    Danger { first: Tgt, steps: Vec<Step> },
    Score,
    CountAll,
    CountAlive,
}

pub struct Env<'a> {
    pub built: &'a Built,
    pub q: &'a Q,
    pub scoring: bool,
    pub boost: f32,
    pub weight: Box<dyn Weight>,
    pub refseq: Vec<(u32, f32)>,
    pub tag: &'static str,
    pub bitset_leaf: bool,
    pub union: bool,
    pub clauses: usize,
    pub max_doc: u32,
}

#[derive(Clone, Copy, Default)]
pub struct Opts {
    /// open finding K_FILL_SCORE: never read a score after a fill_buffer (scoring unions)
    pub no_score_after_fill: bool,
    /// open finding K_BITSET: end the program once a target >= max_doc was used on a shape with a bitset leaf
    pub stop_past_end: bool,
    /// open findings K_UDC / K_PHRASE_ASSERT / K_RANGE_UNDERFLOW: no seek_danger chains on this shape
    pub no_danger: bool,
    /// open findings K_UNION_BOUND / K_PHRASE_ASSERT: chain targets never below the returned bound
    pub no_between: bool,
}

#[derive(Default)]
pub struct Obs {
    pub labels: Vec<&'static str>,
    pub excl_score: u64,
    pub excl_past_end: u64,
    pub excl_danger: u64,
    pub excl_between: u64,
    pub cross_block: bool,
    pub miss_then_hit: bool,
    pub danger_miss: bool,
    pub ops: u64,
}
impl Obs {
    fn l(&mut self, s: &'static str) {
        if !self.labels.contains(&s) {
            self.labels.push(s);
        }
    }
}

impl<'a> Env<'a> {
    pub fn new(built: &'a Built, q: &'a Q, scoring: bool, boost: f32) -> Result<Option<Env<'a>>, Failure> {
        let query = to_query(q, &built.f)?;
        let es = if scoring { EnableScoring::enabled_from_searcher(&built.searcher) } else { EnableScoring::disabled_from_searcher(&built.searcher) };
        let weight = match query.weight(es) {
            Ok(w) => w,
            Err(_) => return Ok(None),
        };
        let mut env = Env {
            built,
            q,
            scoring,
            boost,
            weight,
            refseq: vec![],
            tag: root_kind(q),
            bitset_leaf: has_bitset_leaf(q),
            union: has_union(q),
            clauses: clauses(q),
            max_doc: built.spec.n,
        };
        let Some(mut sc) = env.scorer()? else { return Ok(None) };
        let mut d = sc.doc();
        let mut last: Option<u32> = None;
        while d != TERMINATED {
            ensure!(last.map(|l| l < d).unwrap_or(true), format!("reference_not_increasing:{}", env.tag), "{:?} then {d} for {q:?}", last);
            ensure!(d < env.max_doc, format!("reference_beyond_max_doc:{}", env.tag), "{d} >= {} for {q:?}", env.max_doc);
            let s = sc.score();
            env.refseq.push((d, s));
            last = Some(d);
            let nd = sc.advance();
            ensure!(nd == sc.doc(), format!("doc_after_op:advance:{}", env.tag), "advance returned {nd}, doc() {} for {q:?}", sc.doc());
            d = nd;
        }
        if std::env::var_os("TVV_C13_SEMANTIC").is_some() {
            // opt-in diagnostic (NOT part of C13, which is about self-consistency): compare the plain-advance
            // enumeration with the corpus model for purely boolean term shapes
            let mut want = vec![];
            let mut decidable = true;
            for i in 0..env.max_doc {
                match model_matches(q, &built.spec, &doc_tokens(&built.spec, i)) {
                    Some(true) => want.push(i),
                    Some(false) => {}
                    None => {
                        decidable = false;
                        break;
                    }
                }
            }
            let got: Vec<u32> = env.refseq.iter().map(|x| x.0).collect();
            ensure!(!decidable || got == want, "DIAGNOSTIC_semantic_mismatch", "plain advance yields {} docs, the model {}; first difference {:?}; shape {q:?} corpus {:?}", got.len(), want.len(), got.iter().zip(want.iter()).find(|(a, b)| a != b), built.spec);
        }
        for _ in 0..2 {
            let nd = sc.advance();
            ensure!(nd == TERMINATED && sc.doc() == TERMINATED, format!("revived_after_end:advance:{}", env.tag), "advance after the end returned {nd}, doc() {} for {q:?}", sc.doc());
        }
        Ok(Some(env))
    }
    pub fn scorer(&self) -> Result<Option<Box<dyn Scorer>>, Failure> {
        match self.weight.scorer(self.built.searcher.segment_reader(0), self.boost) {
            Ok(s) => Ok(Some(s)),
            // e.g. "Phrase query exceeded max expansions": not a DocSet
            Err(_) => Ok(None),
        }
    }
    fn pos_ge(&self, t: u32) -> usize {
        self.refseq.partition_point(|(d, _)| *d < t)
    }
    fn first_ge(&self, t: u32) -> u32 {
        self.refseq.get(self.pos_ge(t)).map(|x| x.0).unwrap_or(TERMINATED)
    }
    fn doc_at(&self, pos: usize) -> u32 {
        self.refseq.get(pos).map(|x| x.0).unwrap_or(TERMINATED)
    }
    fn resolve(&self, t: &Tgt, cur: u32) -> u32 {
        if cur >= TERMINATED {
            return TERMINATED;
        }
        let raw = match t {
            Tgt::Delta(d) => {
                // deltas are generated blind to the corpus size: fold overshooting ones back into
                // (doc, last reference doc + 1] so that programs on small corpora do not end at once
                // (targets far past the end come from `End` and `Ref`)
                let last = self.refseq.last().map(|x| x.0).unwrap_or(0);
                let room = (last + 2).saturating_sub(cur).max(1);
                if *d >= room {
                    cur + *d % room
                } else {
                    cur + *d
                }
            }
            Tgt::Ref { k, off } => {
                // fold k into the remaining reference (+1: one step past the last document)
                let p0 = self.pos_ge(cur);
                let remaining = self.refseq.len().saturating_sub(p0);
                let k = if *k as usize > remaining { *k as usize % (remaining + 1) } else { *k as usize };
                let p = p0 + k;
                let d = self.doc_at(p);
                if d >= TERMINATED {
                    // beyond the last document: one past the last reference doc (+off)
                    let last = self.refseq.last().map(|x| x.0).unwrap_or(0);
                    (last as i64 + 1 + *off as i64).max(0) as u32
                } else {
                    (d as i64 + *off as i64).max(0) as u32
                }
            }
            Tgt::Abs(a) => *a,
            Tgt::End(w) => match w % 4 {
                0 => self.max_doc.saturating_sub(1),
                1 => self.max_doc,
                2 => self.max_doc + 1,
                _ => TERMINATED - 1,
            },
        };
        raw.max(cur).min(TERMINATED)
    }
    fn sig(&self, what: &str) -> String {
        format!("{what}:{}", self.tag)
    }
    fn check_score(&self, sc: &mut Box<dyn Scorer>, doc: u32, after_fill: bool, ctx: &str) -> CaseResult {
        let pos = self.pos_ge(doc);
        let (rd, rs) = self.refseq[pos];
        debug_assert_eq!(rd, doc);
        let s = sc.score();
        let ok = if self.clauses <= 1 {
            s.to_bits() == rs.to_bits()
        } else {
            (s - rs).abs() <= 8.0 * self.clauses as f32 * f32::EPSILON * s.abs().max(rs.abs()) + f32::MIN_POSITIVE
        };
        if !ok {
            let sig = if after_fill {
                if self.union && self.scoring {
                    K_FILL_SCORE.to_string()
                } else {
                    self.sig("score_after_fill_buffer")
                }
            } else {
                self.sig("score_differs")
            };
            fail!(sig, "score at doc {doc} = {s} but the reference (plain advance) scored {rs}; {ctx}");
        }
        Ok(())
    }
}

fn parse_danger(s: &str) -> Result<Option<u32>, Failure> {
    if s == "Found" {
        return Ok(None);
    }
    match s.strip_prefix("SeekLowerBound(").and_then(|r| r.strip_suffix(')')).and_then(|n| n.parse::<u32>().ok()) {
        Some(lb) => Ok(Some(lb)),
        None => Err(Failure::new("INFRA:seek_danger_debug_format", s.to_string())),
    }
}

/// Interprets one program on a fresh scorer and judges every observation against the reference.
pub fn run_program(env: &Env, ops: &[Op], opts: Opts, obs: &mut Obs) -> CaseResult {
    let Some(mut sc) = env.scorer()? else { return Ok(()) };
    let n_ref = env.refseq.len();
    // `exp` = document the scorer must currently be on
    let mut exp = env.doc_at(0);
    ensure!(sc.doc() == exp, env.sig("initial_doc"), "fresh scorer is on {} but the reference starts with {exp}", sc.doc());
    let mut filled = false; // a fill_buffer happened earlier in this program
    // target of the last seek_danger call if no other DocSet call happened since ("consecutive calls to
    // seek_danger are guaranteed to have strictly increasing target values")
    let mut last_danger: Option<u32> = None;
    let mut trace: Vec<String> = vec![];
    macro_rules! tr {
        ($($a:tt)*) => { if trace.len() < 64 { trace.push(format!($($a)*)); } };
    }
    let end_sig = |op: &str| if env.bitset_leaf { K_BITSET.to_string() } else { format!("revived_after_end:{op}:{}", env.tag) };
    for op in ops {
        obs.ops += 1;
        let cur = exp;
        if !matches!(op, Op::Danger { .. } | Op::Score) {
            last_danger = None;
        }
        match op {
            Op::Advance => {
                let nd = sc.advance();
                tr!("advance->{nd}");
                if cur == TERMINATED {
                    ensure!(nd == TERMINATED && sc.doc() == TERMINATED, end_sig("advance"), "advance on a terminated scorer returned {nd}, doc() {}; trace {trace:?}", sc.doc());
                    obs.l("op:advance_at_end");
                } else {
                    exp = env.doc_at(env.pos_ge(cur) + 1);
                    ensure!(nd == exp, env.sig("advance_wrong"), "advance from {cur} returned {nd}, reference next is {exp}; trace {trace:?}");
                }
                ensure!(sc.doc() == nd, env.sig("doc_after_op:advance"), "advance returned {nd} but doc() is {}; trace {trace:?}", sc.doc());
            }
            Op::Seek(_) | Op::SeekTerminated => {
                let t = match op {
                    Op::Seek(t) => env.resolve(t, cur),
                    _ => TERMINATED,
                };
                let nd = sc.seek(t);
                tr!("seek({t})->{nd}");
                if cur == TERMINATED {
                    ensure!(nd == TERMINATED && sc.doc() == TERMINATED, end_sig("seek"), "seek({t}) on a terminated scorer returned {nd}, doc() {}; trace {trace:?}", sc.doc());
                } else {
                    exp = env.first_ge(t);
                    ensure!(
                        nd == exp,
                        env.sig(if t == cur { "seek_same_moved" } else if nd < t { "seek_before_target" } else { "seek_wrong" }),
                        "seek({t}) from {cur} returned {nd}, first reference doc >= target is {exp}; trace {trace:?}"
                    );
                    let (p0, p1) = (env.pos_ge(cur), env.pos_ge(exp.min(TERMINATED)));
                    if t == cur {
                        obs.l("op:seek_same");
                    }
                    if t >= env.max_doc {
                        obs.l(if t == TERMINATED { "op:seek_TERMINATED" } else { "op:seek_past_max_doc" });
                    }
                    if p1 > p0 + 1 && p0 / 128 != p1 / 128 {
                        obs.l("op:seek_cross_128_postings");
                        obs.cross_block = true;
                    }
                    if exp != TERMINATED && exp - cur >= 1024 {
                        obs.l("op:seek_jump>=1024");
                        obs.cross_block = true;
                    }
                    if exp != TERMINATED && exp - cur >= 4096 {
                        obs.l("op:seek_jump>=4096");
                    }
                    if exp == t {
                        obs.l("op:seek_lands_on_target");
                    }
                }
                ensure!(sc.doc() == nd, env.sig("doc_after_op:seek"), "seek({t}) returned {nd} but doc() is {}; trace {trace:?}", sc.doc());
                if opts.stop_past_end && t >= env.max_doc {
                    obs.excl_past_end += 1;
                    return Ok(());
                }
            }
            Op::FillBuffer => {
                let mut buf = [0u32; tantivy::COLLECT_BLOCK_BUFFER_LEN];
                let k = sc.fill_buffer(&mut buf);
                tr!("fill_buffer->{k}");
                let p0 = env.pos_ge(cur);
                let want: Vec<u32> = env.refseq[p0.min(n_ref)..(p0 + 64).min(n_ref)].iter().map(|x| x.0).collect();
                if cur == TERMINATED {
                    ensure!(k == 0, end_sig("fill_buffer"), "fill_buffer on a terminated scorer returned {k} docs ({:?}); trace {trace:?}", &buf[..k.min(4)]);
                }
                ensure!(
                    buf[..k] == want[..],
                    env.sig("fill_buffer_wrong"),
                    "fill_buffer from {cur} returned {k} docs, expected {}; first difference at index {:?}; got {:?}.. expected {:?}..; trace {trace:?}",
                    want.len(),
                    buf[..k].iter().zip(want.iter()).position(|(a, b)| a != b),
                    &buf[..k.min(6)],
                    &want[..want.len().min(6)]
                );
                exp = env.doc_at(p0 + k);
                ensure!(sc.doc() == exp, env.sig("fill_buffer_cursor"), "after fill_buffer ({k} docs from {cur}) doc() is {} but the next unread reference doc is {exp}; trace {trace:?}", sc.doc());
                filled = true;
                obs.l("op:fill_buffer");
                if k == 64 {
                    obs.l("op:fill_buffer_full");
                } else {
                    obs.l("op:fill_buffer_partial");
                }
            }
            Op::FillBitset(t) => {
                if cur == TERMINATED {
                    continue;
                }
                let min_doc = env.resolve(t, cur).min(env.max_doc + 10_000);
                let mut mask = [TinySet::empty(); 16];
                let next = sc.fill_bitset_block(min_doc, &mut mask);
                tr!("fill_bitset_block({min_doc})->{next}");
                let mut got = vec![];
                for (i, ts) in mask.iter().enumerate() {
                    for b in 0..64u32 {
                        if ts.contains(b) {
                            got.push(min_doc + i as u32 * 64 + b);
                        }
                    }
                }
                let (a, b) = (env.pos_ge(min_doc), env.pos_ge(min_doc + 1024));
                let want: Vec<u32> = env.refseq[a..b].iter().map(|x| x.0).collect();
                ensure!(
                    got == want,
                    env.sig("fill_bitset_wrong"),
                    "fill_bitset_block({min_doc}) from {cur}: {} bits, expected {}; first difference {:?}; trace {trace:?}",
                    got.len(),
                    want.len(),
                    got.iter().zip(want.iter()).find(|(x, y)| x != y)
                );
                exp = env.doc_at(b);
                ensure!(next == exp, env.sig("fill_bitset_return"), "fill_bitset_block({min_doc}) returned {next}, first reference doc >= {} is {exp}; trace {trace:?}", min_doc + 1024);
                ensure!(sc.doc() == next, env.sig("doc_after_op:fill_bitset"), "fill_bitset_block returned {next} but doc() is {}; trace {trace:?}", sc.doc());
                obs.l("op:fill_bitset_block");
                if min_doc > cur {
                    obs.l("op:fill_bitset_block_min_doc>doc");
                }
                if opts.stop_past_end && min_doc >= env.max_doc {
                    obs.excl_past_end += 1;
                    return Ok(());
                }
            }
            Op::Danger { first, steps } => {
                if opts.no_danger {
                    obs.excl_danger += 1;
                    continue;
                }
                let mut t = env.resolve(first, cur);
                // a chain that starts past the last document ends the program (TERMINATED bound): keep that
                // for the explicit `End` targets and fold the accidental ones back into the reference
                if cur < TERMINATED && !matches!(first, Tgt::End(_)) {
                    let last = env.refseq.last().map(|x| x.0).unwrap_or(0);
                    if t > last + 1 && last + 1 >= cur {
                        t = cur + (t - cur) % (last + 2 - cur);
                    }
                }
                if let Some(l) = last_danger {
                    if t <= l {
                        t = (l + 1).min(TERMINATED);
                        obs.l("op:seek_danger_directly_after_seek_danger");
                    }
                }
                let mut i = 0usize;
                let mut misses = 0u32;
                loop {
                    let r = format!("{:?}", sc.seek_danger(t));
                    tr!("seek_danger({t})->{r}");
                    let fg = env.first_ge(t);
                    match parse_danger(&r)? {
                        None => {
                            ensure!(t < TERMINATED && fg == t, env.sig("seek_danger_found_absent"), "seek_danger({t}) = Found but {t} is not in the reference (next is {fg}); trace {trace:?}");
                            ensure!(sc.doc() == t, env.sig("doc_after_op:seek_danger"), "seek_danger({t}) = Found but doc() is {}; trace {trace:?}", sc.doc());
                            exp = t;
                            last_danger = Some(t);
                            obs.l("op:seek_danger_found");
                            if misses > 0 {
                                obs.l("op:seek_danger_miss_then_found");
                                obs.miss_then_hit = true;
                            }
                            break;
                        }
                        Some(lb) => {
                            ensure!(t >= TERMINATED || fg != t, env.sig("seek_danger_missed_present"), "seek_danger({t}) = SeekLowerBound({lb}) but {t} is in the reference; trace {trace:?}");
                            ensure!(lb > t || (t >= TERMINATED && lb >= TERMINATED), env.sig("seek_danger_bound_low"), "seek_danger({t}) = SeekLowerBound({lb}): bound not above the target; trace {trace:?}");
                            ensure!(lb <= fg || lb >= TERMINATED && fg >= TERMINATED, if env.union { K_UNION_BOUND.to_string() } else { env.sig("seek_danger_bound_high") }, "seek_danger({t}) = SeekLowerBound({lb}) but the next reference doc is {fg}: the bound skips it; trace {trace:?}");
                            misses += 1;
                            obs.danger_miss = true;
                            obs.l("op:seek_danger_miss");
                            if lb >= TERMINATED {
                                // the scorer may stay invalid for ever: end of program
                                obs.l("op:seek_danger_TERMINATED_bound");
                                return Ok(());
                            }
                            let step = if i < steps.len() {
                                steps[i].clone()
                            } else if i < steps.len() + 24 {
                                Step::AtBound
                            } else {
                                Step::NextRef
                            };
                            i += 1;
                            t = match step {
                                Step::AtBound => lb,
                                Step::Between(f) => {
                                    if opts.no_between {
                                        obs.excl_between += 1;
                                        lb
                                    } else if lb - t >= 2 {
                                        obs.l("op:seek_danger_target_below_bound");
                                        t + 1 + ((lb - t - 2) as u64 * f as u64 / 255) as u32
                                    } else {
                                        lb
                                    }
                                }
                                Step::Beyond(d) => {
                                    obs.l("op:seek_danger_target_beyond_bound");
                                    lb.saturating_add(d).min(TERMINATED)
                                }
                                Step::NextRef => env.first_ge(lb),
                            };
                        }
                    }
                }
                if opts.stop_past_end && t >= env.max_doc {
                    obs.excl_past_end += 1;
                    return Ok(());
                }
            }
            Op::Score => {
                if cur == TERMINATED {
                    continue;
                }
                if filled && opts.no_score_after_fill {
                    obs.excl_score += 1;
                    continue;
                }
                env.check_score(&mut sc, cur, filled, &format!("trace {trace:?}"))?;
                tr!("score@{cur}");
                obs.l("op:score");
                if filled {
                    obs.l("op:score_after_fill_buffer");
                }
            }
            Op::CountAll => {
                let c = sc.count_including_deleted();
                let want = (n_ref - env.pos_ge(cur).min(n_ref)) as u32;
                ensure!(c == want, env.sig("count_wrong"), "count_including_deleted from {cur} = {c}, reference has {want} docs left; trace {trace:?}");
                obs.l("op:count_including_deleted");
                if cur == TERMINATED {
                    obs.l("op:count_at_end");
                }
                return Ok(());
            }
            Op::CountAlive => {
                let sr = env.built.searcher.segment_reader(0);
                let p0 = env.pos_ge(cur).min(n_ref);
                match sr.alive_bitset() {
                    Some(bs) => {
                        let c = sc.count(bs);
                        let want = env.refseq[p0..].iter().filter(|(d, _)| env.built.alive[*d as usize]).count() as u32;
                        ensure!(c == want, env.sig("count_alive_wrong"), "count(alive) from {cur} = {c}, model says {want}; trace {trace:?}");
                        obs.l("op:count_alive");
                    }
                    None => {
                        let c = sc.count_including_deleted();
                        ensure!(c == (n_ref - p0) as u32, env.sig("count_wrong"), "count_including_deleted from {cur} = {c}, reference has {} docs left; trace {trace:?}", n_ref - p0);
                        obs.l("op:count_including_deleted");
                    }
                }
                return Ok(());
            }
        }
    }
    Ok(())
}

/// run_program + panic capture + attribution of failures to the open union/seek_danger finding
pub fn run_program_guarded(env: &Env, ops: &[Op], opts: Opts, obs: &mut Obs) -> CaseResult {
    let r = catch_unwind(AssertUnwindSafe(|| run_program(env, ops, opts, obs)));
    let r = match r {
        Ok(r) => r,
        Err(_) => {
            let me = format!("[{}]", std::thread::current().name().unwrap_or("?"));
            let msg = LAST_BG_PANIC.lock().ok().and_then(|g| g.clone()).filter(|m| m.starts_with(&me)).map(|m| m[me.len()..].trim().to_string()).unwrap_or_else(|| "panic at ?".into());
            Err(Failure::new(panic_sig(&msg), format!("{msg}; shape {:?} scoring={} program {:?}", env.q, env.scoring, ops)))
        }
    };
    r.map_err(|f| {
        if !f.sig.starts_with("INFRA:") && f.sig != K_BITSET && f.sig != K_FILL_SCORE && f.sig != K_PHRASE_ASSERT && f.sig != K_UNION_BOUND && f.sig != K_RANGE_UNDERFLOW && udc_trigger(env.q, obs.danger_miss) {
            Failure::new(K_UDC, format!("[{}] {}", f.sig, f.detail))
        } else {
            f
        }
    })
}

// ------------------------------------------------------------------------------------------------
// strategies

fn sel(words: &'static [&'static str]) -> BoxedStrategy<String> {
    prop::sample::select(words).prop_map(|s| s.to_string()).boxed()
}
const WORDS: &[&str] = &["a", "b", "c", "d", "e", "f", "g", "h", "j", "edge", "q127", "q128", "q129", "q256", "q257", "pre1", "prx", "x", "y", "all", "nope"];

fn leaf() -> BoxedStrategy<Q> {
    let w = || sel(WORDS);
    prop_oneof![
        10 => (w(), prop::bool::weighted(0.8)).prop_map(|(w, freq)| Q::Term { w, freq }),
        1 => Just(Q::All),
        1 => Just(Q::Empty),
        2 => prop::collection::vec(sel(&["c", "e", "pre1", "pre3", "edge", "q128", "nope", "h"]), 1..5).prop_map(|ws| Q::TermSet { ws }),
        2 => sel(&["pre[0-2]", "q.*", "pr.*", "[a-c]", "zz.*", "e|edge"]).prop_map(|pat| Q::Regex { pat }),
        1 => (sel(&["pre1", "prx", "q128", "edg"]), 1u8..3, any::<bool>()).prop_map(|(w, dist, prefix)| Q::Fuzzy { w, dist, prefix }),
        4 => (sel(&["num", "multi", "opt", "idx", "tag"]), 0u64..100, 0u64..100).prop_map(|(field, lo, hi)| Q::Range { field, lo, hi }),
        2 => (prop_oneof![Just(0u64), Just(100), Just(1000), Just(4000), Just(4090)], prop_oneof![0u64..10, 100u64..300, 1000u64..6000]).prop_map(|(lo, len)| Q::Range { field: "uid".into(), lo, hi: lo + len }),
        1 => sel(&["opt", "multi", "tag"]).prop_map(|field| Q::Exists { field }),
        3 => (prop_oneof![
                Just(vec!["a", "b"]), Just(vec!["b", "a"]), Just(vec!["x", "y", "z"]), Just(vec!["a", "a"]), Just(vec!["b", "x", "a"]), Just(vec!["y", "all"]), Just(vec!["a", "c"])
            ], prop_oneof![3 => Just(0u8), 1 => 1u8..3])
            .prop_map(|(ws, slop)| Q::Phrase { ws: ws.into_iter().map(String::from).collect(), slop }),
        2 => prop_oneof![Just(vec!["a", "pr"]), Just(vec!["b", "a", "pr"]), Just(vec!["a", "pre"]), Just(vec!["x", "y", "z"]), Just(vec!["b", "a"]), Just(vec!["a", "q12"])]
            .prop_map(|ws| Q::PhrasePrefix { ws: ws.into_iter().map(String::from).collect() }),
        1 => (prop_oneof![Just(vec!["a", "pr.*"]), Just(vec!["b", "a|x"]), Just(vec!["x", "y", "z.*"]), Just(vec!["a.*", "b|c|all"]), Just(vec!["[a-b]", "[a-c]"])], prop_oneof![3 => Just(0u8), 1 => 1u8..3])
            .prop_map(|(pats, slop)| Q::RegexPhrase { pats: pats.into_iter().map(String::from).collect(), slop }),
    ]
    .boxed()
}

pub fn q_tree() -> BoxedStrategy<Q> {
    leaf()
        .prop_recursive(3, 12, 4, |inner| {
            prop_oneof![
                8 => (
                    prop::collection::vec(inner.clone(), 0..4),
                    prop::collection::vec(inner.clone(), 0..4),
                    prop::collection::vec(inner.clone(), 0..3),
                    prop_oneof![5 => Just(None), 2 => (0u8..4).prop_map(Some)]
                )
                    .prop_map(|(mut must, should, not, min_should)| {
                        if must.is_empty() && should.is_empty() {
                            must.push(Q::All);
                        }
                        Q::Bool { must, should, not, min_should }
                    }),
                1 => (prop::collection::vec(inner.clone(), 1..4), 0u8..11).prop_map(|(qs, tie)| Q::DisMax { qs, tie }),
                1 => (inner.clone(), 0u8..8).prop_map(|(q, by)| Q::Boost { q: Box::new(q), by }),
                1 => (inner, 0u8..6).prop_map(|(q, score)| Q::Const { q: Box::new(q), score }),
            ]
        })
        .boxed()
}

fn t(w: &str) -> Q {
    Q::Term { w: w.into(), freq: true }
}
fn tb(w: &str) -> Q {
    Q::Term { w: w.into(), freq: false }
}
fn and(v: Vec<Q>) -> Q {
    Q::Bool { must: v, should: vec![], not: vec![], min_should: None }
}
fn or(v: Vec<Q>) -> Q {
    Q::Bool { must: vec![], should: v, not: vec![], min_should: None }
}
fn bq(must: Vec<Q>, should: Vec<Q>, not: Vec<Q>, min_should: Option<u8>) -> Q {
    Q::Bool { must, should, not, min_should }
}
fn ph(ws: &[&str], slop: u8) -> Q {
    Q::Phrase { ws: ws.iter().map(|s| s.to_string()).collect(), slop }
}
fn rg(field: &str, lo: u64, hi: u64) -> Q {
    Q::Range { field: field.into(), lo, hi }
}

/// every scorer kind named by the property's quantifier, plus the nestings that earlier releases got wrong
pub fn catalog() -> Vec<Q> {
    let strs = |v: &[&str]| v.iter().map(|s| s.to_string()).collect::<Vec<_>>();
    vec![
        t("a"),
        t("e"),
        t("q128"),
        t("q129"),
        tb("a"),
        Q::All,
        Q::Empty,
        t("nope"),
        or(vec![t("a"), t("c")]),
        or(vec![t("c"), t("e"), t("b")]),
        or(vec![t("f"), t("g")]),
        or(vec![t("e"), t("edge")]),
        or(vec![tb("a"), tb("c")]),
        or(vec![t("d"), t("e"), t("q127"), t("h")]),
        and(vec![t("a"), t("b")]),
        and(vec![t("a"), t("b"), t("d")]),
        and(vec![tb("a"), tb("b")]),
        and(vec![t("a"), or(vec![t("c"), t("e")])]),
        and(vec![t("all"), t("d"), t("h"), t("f")]),
        bq(vec![t("a")], vec![], vec![t("b")], None),
        bq(vec![t("a")], vec![], vec![t("b"), t("c")], None),
        bq(vec![t("all")], vec![], vec![or(vec![t("a"), t("d")])], None),
        bq(vec![Q::All], vec![], vec![t("c")], None),
        bq(vec![t("d")], vec![t("c")], vec![], None),
        bq(vec![t("d")], vec![t("c"), t("a")], vec![], None),
        bq(vec![t("d"), t("b")], vec![or(vec![t("a"), t("e")])], vec![t("h")], None),
        bq(vec![], vec![t("a"), t("b"), t("c"), t("d")], vec![], Some(2)),
        bq(vec![t("all")], vec![t("a"), t("b"), t("c"), t("d")], vec![], Some(3)),
        bq(vec![], vec![t("a"), t("b"), t("d")], vec![], Some(3)),
        bq(vec![], vec![t("a"), Q::All, t("c")], vec![], None),
        ph(&["a", "b"], 0),
        ph(&["b", "a"], 2),
        ph(&["x", "y", "z"], 0),
        ph(&["x", "y", "z"], 1),
        ph(&["a", "a"], 0),
        Q::PhrasePrefix { ws: strs(&["a", "pr"]) },
        Q::PhrasePrefix { ws: strs(&["b", "a", "pr"]) },
        Q::PhrasePrefix { ws: strs(&["x", "y", "z"]) },
        Q::RegexPhrase { pats: strs(&["a", "pr.*"]), slop: 0 },
        Q::RegexPhrase { pats: strs(&["[a-b]", "[a-c]"]), slop: 0 },
        Q::RegexPhrase { pats: strs(&["x", "y", "z.*"]), slop: 1 },
        rg("num", 10, 20),
        rg("multi", 3, 9),
        rg("opt", 0, 50),
        rg("tag", 5, 12),
        rg("idx", 10, 40),
        rg("uid", 4000, 4200),
        rg("uid", 100, 5000),
        and(vec![t("a"), rg("num", 0, 5)]),
        and(vec![rg("num", 0, 50), t("c")]),
        and(vec![rg("multi", 0, 10), rg("num", 20, 90)]),
        or(vec![rg("num", 0, 3), t("c")]),
        or(vec![rg("uid", 10, 200), rg("uid", 4090, 4100), t("e")]),
        Q::Boost { q: Box::new(or(vec![t("a"), t("c")])), by: 7 },
        Q::Boost { q: Box::new(Q::All), by: 3 },
        Q::Const { q: Box::new(or(vec![t("c"), t("e")])), score: 5 },
        Q::Const { q: Box::new(t("a")), score: 1 },
        or(vec![and(vec![t("a"), t("b")]), and(vec![t("c"), t("d")])]),
        and(vec![t("all"), or(vec![and(vec![t("a"), t("b")]), and(vec![t("c"), t("d")])])]),
        or(vec![ph(&["a", "b"], 0), t("e")]),
        and(vec![t("d"), ph(&["a", "b"], 0)]),
        bq(vec![t("all")], vec![], vec![ph(&["a", "b"], 0)], None),
        Q::TermSet { ws: strs(&["c", "e", "pre1"]) },
        Q::Regex { pat: "pre[0-2]".into() },
        Q::Fuzzy { w: "pre1".into(), dist: 1, prefix: false },
        and(vec![Q::Regex { pat: "pr.*".into() }, t("a")]),
        bq(vec![Q::TermSet { ws: strs(&["c", "h"]) }], vec![], vec![t("b")], None),
        bq(vec![t("a")], vec![], vec![Q::Regex { pat: "pre[0-2]".into() }], None),
        or(vec![Q::Regex { pat: "q.*".into() }, t("e")]),
        Q::Exists { field: "opt".into() },
        Q::Exists { field: "multi".into() },
        and(vec![Q::Exists { field: "opt".into() }, t("b")]),
        Q::DisMax { qs: vec![t("a"), t("c")], tie: 3 },
        Q::DisMax { qs: vec![t("d"), and(vec![t("a"), t("b")]), t("e")], tie: 0 },
        bq(vec![], vec![], vec![t("c")], None),
        bq(vec![t("a")], vec![], vec![Q::All], None),
        bq(vec![t("a"), Q::Empty], vec![], vec![], None),
    ]
}

fn tgt() -> BoxedStrategy<Tgt> {
    prop_oneof![
        6 => prop_oneof![3 => 0u32..4, 2 => 60u32..70, 2 => 120u32..135, 2 => 1000u32..1100, 2 => 4000u32..4200, 1 => 0u32..10_000].prop_map(Tgt::Delta),
        5 => (prop_oneof![4 => 1u16..4, 2 => 62u16..66, 3 => 126u16..131, 1 => 254u16..259, 1 => 0u16..1500], -1i8..=1).prop_map(|(k, off)| Tgt::Ref { k, off }),
        2 => (prop::sample::select(EDGE_DOCS), -1i32..=1).prop_map(|(d, o)| Tgt::Abs((d as i64 + o as i64).max(0) as u32)),
        1 => (0u8..4).prop_map(Tgt::End),
    ]
    .boxed()
}

fn op() -> BoxedStrategy<Op> {
    let step = prop_oneof![4 => Just(Step::AtBound), 3 => any::<u8>().prop_map(Step::Between), 1 => prop_oneof![0u32..3, 100u32..5000].prop_map(Step::Beyond), 2 => Just(Step::NextRef)];
    prop_oneof![
        8 => Just(Op::Advance),
        8 => tgt().prop_map(Op::Seek),
        1 => Just(Op::SeekTerminated),
        3 => Just(Op::FillBuffer),
        3 => tgt().prop_map(Op::FillBitset),
        5 => (tgt(), prop::collection::vec(step, 0..6)).prop_map(|(first, steps)| Op::Danger { first, steps }),
        8 => Just(Op::Score),
    ]
    .boxed()
}

/// a program: calls, optionally closed by one of the consuming counts (they are terminal)
fn program() -> BoxedStrategy<Vec<Op>> {
    (prop::collection::vec(op(), 1..40), prop_oneof![4 => Just(None), 1 => Just(Some(Op::CountAll)), 1 => Just(Some(Op::CountAlive))])
        .prop_map(|(mut ops, end)| {
            ops.extend(end);
            ops
        })
        .boxed()
}

pub fn corpus_strategy(tier: Tier) -> BoxedStrategy<CorpusSpec> {
    let big = tier.pick(9500u32, 14_000u32);
    let n = prop_oneof![
        2 => 1u32..20,
        2 => 120u32..140,
        1 => 250u32..262,
        2 => 1000u32..1050,
        2 => 4080u32..4112,
        4 => 4097u32..big,
        1 => 8185u32..8200,
    ];
    (n, any::<u32>(), prop_oneof![Just(80u8), Just(50), Just(10), Just(100), 0u8..=100], prop_oneof![Just(500u16), Just(64), Just(2048), 1u16..5000], prop_oneof![2 => Just(0u8), 1 => 1u8..40])
        .prop_map(|(n, seed, dens_a, run, del)| CorpusSpec { n, seed, dens_a, run, del })
        .boxed()
}

// ------------------------------------------------------------------------------------------------
#[derive(Clone, Debug, Serialize, Deserialize)]
pub struct Run {
    pub q: Q,
    pub scoring: bool,
    /// boost handed to Weight::scorer: 0 -> 1.0, 1 -> 2.0, 2 -> 0.5
    pub boost: u8,
    pub progs: Vec<Vec<Op>>,
}
#[derive(Clone, Debug, Serialize, Deserialize)]
pub struct Case {
    pub corpus: CorpusSpec,
    pub runs: Vec<Run>,
}

thread_local! {
    static CORPUS_CACHE: RefCell<Option<Rc<Built>>> = const { RefCell::new(None) };
}
fn cached_corpus(spec: &CorpusSpec) -> Result<Rc<Built>, Failure> {
    let hit = CORPUS_CACHE.with(|c| c.borrow().as_ref().filter(|b| &b.spec == spec).cloned());
    if let Some(b) = hit {
        return Ok(b);
    }
    let b = Rc::new(build(spec)?);
    CORPUS_CACHE.with(|c| *c.borrow_mut() = Some(b.clone()));
    Ok(b)
}

fn boost_of(b: u8) -> f32 {
    match b % 3 {
        0 => 1.0,
        1 => 2.0,
        _ => 0.5,
    }
}

fn runtime_type(sc: &dyn Scorer) -> &'static str {
    type B = Box<dyn Scorer>;
    if sc.is::<AllScorer>() {
        "top:AllScorer"
    } else if sc.is::<EmptyScorer>() {
        "top:EmptyScorer"
    } else if sc.is::<ConstScorer<BitSetDocSet>>() {
        "top:ConstScorer<BitSetDocSet>"
    } else if sc.is::<BufferedUnionScorer<B, SumCombiner>>() {
        "top:BufferedUnionScorer<Box,Sum>"
    } else if sc.is::<BufferedUnionScorer<B, DisjunctionMaxCombiner>>() {
        "top:BufferedUnionScorer<Box,DisMax>"
    } else if sc.is::<Intersection<B, B>>() {
        "top:Intersection<Box,Box>"
    } else if sc.is::<Exclude<B, B>>() {
        "top:Exclude<Box,Box>"
    } else if sc.is::<Exclude<B, Vec<B>>>() {
        "top:Exclude<Box,Vec>"
    } else if sc.is::<RequiredOptionalScorer<B, B, SumCombiner>>() {
        "top:RequiredOptionalScorer"
    } else if sc.is::<ConstScorer<B>>() {
        "top:ConstScorer<Box>"
    } else {
        "top:other(term/phrase/specialised/range/...)"
    }
}

/// which exclusions-by-construction apply to this (shape, scoring) while the findings are open
fn opts_for(q: &Q, scoring: bool, open: &dyn Fn(&str) -> bool) -> (Opts, Option<&'static str>) {
    let (udc, phrase, range, ub) = (open(K_UDC), open(K_PHRASE_ASSERT), open(K_RANGE_UNDERFLOW), open(K_UNION_BOUND));
    let skip = if udc && udc_trigger(q, false) {
        Some("shape:union_with_danger_children_driven_by_tantivy")
    } else if phrase && (under_not_with(q, &contains_phrase) || driven_union_with(q, false, &contains_phrase)) {
        Some("shape:phrase_scorer_probed_below_its_cursor_by_tantivy")
    } else if range && (under_not_with(q, &is_range_intersection) || driven_union_with(q, false, &is_range_intersection)) {
        Some("shape:range_intersection_probed_below_its_cursor_by_tantivy")
    } else if ub && driven_union_with(q, false, &is_union_node) {
        Some("shape:nested_union_probed_below_its_cursor_by_tantivy")
    } else {
        None
    };
    let o = Opts {
        no_score_after_fill: open(K_FILL_SCORE) && scoring && has_union(q),
        stop_past_end: open(K_BITSET) && has_bitset_leaf(q),
        no_danger: (udc && udc_trigger(q, true)) || (phrase && driven_union_with(q, true, &contains_phrase)) || (range && driven_union_with(q, true, &is_range_intersection)) || (ub && driven_union_with(q, true, &is_union_node)),
        no_between: (phrase && contains_phrase(q)) || (ub && has_union(q)),
    };
    (o, skip)
}

pub struct Programs;
impl Sub for Programs {
    type Case = Case;
    fn name(&self) -> &'static str {
        "programs"
    }
    fn cases(&self, tier: Tier) -> u32 {
        tier.pick(2400, 40_000)
    }
    fn max_shrink_iters(&self) -> u32 {
        1500
    }
    fn strategy(&self, tier: Tier) -> BoxedStrategy<Case> {
        let cat = catalog();
        let q = prop_oneof![3 => prop::sample::select(cat), 2 => q_tree()];
        let prog = program();
        let run = (q, prop::bool::weighted(0.6), 0u8..3, prop::collection::vec(prog, 1..48)).prop_map(|(q, scoring, boost, progs)| Run { q, scoring, boost, progs });
        (corpus_strategy(tier), prop::collection::vec(run, 1..28)).prop_map(|(corpus, runs)| Case { corpus, runs }).boxed()
    }
    fn mandatory_labels(&self, _t: Tier) -> Vec<&'static str> {
        vec![
            "kind:term",
            "kind:term_nofreq",
            "kind:all",
            "kind:empty",
            "kind:bitset_const",
            "kind:union",
            "kind:intersection_terms",
            "kind:intersection_generic",
            "kind:intersection>=3legs",
            "kind:exclude_single",
            "kind:exclude_multi",
            "kind:required_optional",
            "kind:disjunction_minmatch",
            "kind:phrase",
            "kind:phrase_slop",
            "kind:phrase_prefix_single",
            "kind:phrase_prefix_multi",
            "kind:regex_phrase(simple+bitset unions)",
            "kind:range_fast",
            "kind:range_fast_multivalued",
            "kind:range_fast_optional",
            "kind:exists",
            "kind:dismax_union",
            "kind:boost",
            "kind:const",
            "shape:depth>=3",
            "top:AllScorer",
            "top:EmptyScorer",
            "top:ConstScorer<BitSetDocSet>",
            "top:BufferedUnionScorer<Box,Sum>",
            "top:Intersection<Box,Box>",
            "top:Exclude<Box,Box>",
            "top:Exclude<Box,Vec>",
            "top:RequiredOptionalScorer",
            "scoring:on",
            "scoring:off",
            "corpus:n<=20",
            "corpus:n~128",
            "corpus:n~1024",
            "corpus:n~4096",
            "corpus:n>4096",
            "corpus:deletes",
            "ref:len>=130",
            "ref:len>4096",
            "ref:empty",
            "op:seek_same",
            "op:seek_TERMINATED",
            "op:seek_past_max_doc",
            "op:seek_cross_128_postings",
            "op:seek_jump>=1024",
            "op:seek_jump>=4096",
            "op:fill_buffer_full",
            "op:fill_buffer_partial",
            "op:fill_bitset_block",
            "op:fill_bitset_block_min_doc>doc",
            "op:seek_danger_found",
            "op:seek_danger_miss_then_found",
            "op:seek_danger_target_below_bound",
            "op:seek_danger_target_beyond_bound",
            "op:seek_danger_TERMINATED_bound",
            "op:score",
            "op:count_including_deleted",
            "op:count_alive",
            "op:advance_at_end",
        ]
    }
    fn run(&self, c: &Case, cx: &Ctx) -> CaseResult {
        let built = cached_corpus(&c.corpus)?;
        let n = c.corpus.n;
        cx.label(match n {
            0..=20 => "corpus:n<=20",
            21..=200 => "corpus:n~128",
            201..=999 => "corpus:n~256",
            1000..=1100 => "corpus:n~1024",
            1101..=4096 => "corpus:n~4096",
            _ => "corpus:n>4096",
        });
        cx.label_if(built.has_deletes, "corpus:deletes");
        let corpus_fp = fp(&c.corpus);
        let open = |k: &str| cx.known_open(k);
        for run in &c.runs {
            let (opts, skip) = opts_for(&run.q, run.scoring, &open);
            if let Some(why) = skip {
                cx.excluded(why, 1);
                continue;
            }
            let env = match Env::new(&built, &run.q, run.scoring, boost_of(run.boost)) {
                Ok(Some(e)) => e,
                Ok(None) => {
                    cx.count("weight_or_scorer_error_skipped", 1);
                    continue;
                }
                Err(f) => {
                    // the reference enumeration itself misbehaved (or panicked inside tantivy: caught by the engine)
                    return Err(Failure::new(f.sig, format!("{} [corpus {:?} scoring={}]", f.detail, c.corpus, run.scoring)));
                }
            };
            if std::env::var_os("TVV_C13_SEMANTIC").is_some() {
                cx.count("diagnostic_semantic_compared", 1);
                continue;
            }
            let mut kl = vec![];
            kind_labels(&run.q, &mut kl);
            kl.sort();
            kl.dedup();
            for l in kl {
                cx.label(l);
            }
            cx.label_if(depth(&run.q) >= 3, "shape:depth>=3");
            cx.label(if run.scoring { "scoring:on" } else { "scoring:off" });
            if let Some(sc) = env.scorer()? {
                cx.label(runtime_type(sc.as_ref()));
            }
            let rl = env.refseq.len();
            cx.label_if(rl >= 130, "ref:len>=130");
            cx.label_if(rl > 4096, "ref:len>4096");
            cx.label_if(rl == 0, "ref:empty");
            let run_fp = mix(corpus_fp, mix(fp(&run.q), run.scoring as u64 * 4 + run.boost as u64));
            for prog in &run.progs {
                let mut obs = Obs::default();
                let r = run_program_guarded(&env, prog, opts, &mut obs);
                cx.evals(1);
                cx.count("programs", 1);
                cx.count("calls", obs.ops);
                for l in &obs.labels {
                    cx.label(l);
                }
                cx.excluded("score_read_after_fill_buffer_on_scoring_union", obs.excl_score);
                cx.excluded("program_cut_after_target_past_max_doc_on_bitset_shape", obs.excl_past_end);
                cx.excluded("seek_danger_chain_on_driven_union_shape", obs.excl_danger);
                cx.excluded("seek_danger_target_below_bound_replaced_by_bound", obs.excl_between);
                if let Err(f) = r {
                    return Err(Failure::new(f.sig, format!("{} [corpus {:?}; shape {:?}; scoring={} boost={}]", f.detail, c.corpus, run.q, run.scoring, boost_of(run.boost))));
                }
                if rl >= 130 && (obs.cross_block || obs.miss_then_hit) {
                    cx.nontrivial(mix(run_fp, fp(prog)));
                }
            }
            cx.sample(|| json!({"sub": "programs", "corpus": c.corpus, "shape": run.q, "scoring": run.scoring, "reference_len": rl, "program": run.progs.first()}));
        }
        Ok(())
    }
}

// ------------------------------------------------------------------------------------------------
/// Exhaustive (position, target) pairs on small/medium corpora: from every reference position reached by
/// plain advance, every legal seek target up to two past the end (and TERMINATED), with `seek`, a
/// `seek_danger` chain at-bound, and `fill_bitset_block`.
#[derive(Clone, Debug, Serialize, Deserialize)]
pub struct PairCase {
    pub corpus: CorpusSpec,
    pub shapes: Vec<(Q, bool)>,
    /// stride over start positions (1 = every position)
    pub stride: u8,
}
pub struct Pairs;
impl Sub for Pairs {
    type Case = PairCase;
    fn name(&self) -> &'static str {
        "pairs"
    }
    fn cases(&self, tier: Tier) -> u32 {
        tier.pick(300, 5000)
    }
    fn max_shrink_iters(&self) -> u32 {
        600
    }
    fn strategy(&self, _tier: Tier) -> BoxedStrategy<PairCase> {
        let n = prop_oneof![3 => 1u32..40, 2 => 60u32..70, 2 => 126u32..132, 1 => 190u32..200];
        let corpus = (n, any::<u32>(), prop_oneof![Just(80u8), Just(30), 0u8..=100], prop_oneof![Just(7u16), Just(64), 1u16..100], Just(0u8))
            .prop_map(|(n, seed, dens_a, run, del)| CorpusSpec { n, seed, dens_a, run, del });
        let q = prop_oneof![3 => prop::sample::select(catalog()), 2 => q_tree()];
        (corpus, prop::collection::vec((q, any::<bool>()), 4..10), 1u8..4).prop_map(|(corpus, shapes, stride)| PairCase { corpus, shapes, stride }).boxed()
    }
    fn mandatory_labels(&self, _t: Tier) -> Vec<&'static str> {
        vec!["pairs:seek", "pairs:seek_danger", "pairs:fill_bitset_block", "pairs:ref>=64"]
    }
    fn run(&self, c: &PairCase, cx: &Ctx) -> CaseResult {
        let built = cached_corpus(&c.corpus)?;
        let open = |k: &str| cx.known_open(k);
        for (q, scoring) in &c.shapes {
            let (opts, skip) = opts_for(q, *scoring, &open);
            if let Some(why) = skip {
                cx.excluded(why, 1);
                continue;
            }
            let env = match Env::new(&built, q, *scoring, 1.0) {
                Ok(Some(e)) => e,
                Ok(None) => continue,
                Err(f) => return Err(Failure::new(f.sig, format!("{} [corpus {:?} scoring={scoring}]", f.detail, c.corpus))),
            };
            let rl = env.refseq.len();
            cx.label_if(rl >= 64, "pairs:ref>=64");
            let last = env.refseq.last().map(|x| x.0).unwrap_or(0);
            let mut pairs = 0u64;
            let mut pos = 0usize;
            // fixed work per shape: about 6000 (position, target, mode) triples at most
            let est = rl as u64 * (last as u64 + 3) * 3 / 2;
            let stride = (c.stride.max(1) as usize).max((est / 6000) as usize + 1);
            while pos <= rl {
                let from = env.doc_at(pos);
                let mut targets: Vec<u32> = if from == TERMINATED { vec![TERMINATED] } else { (from..=(last + 2).max(from)).collect() };
                if from != TERMINATED {
                    targets.push(env.max_doc);
                    targets.push(TERMINATED);
                }
                for t in targets {
                    for mode in 0..3u8 {
                        if mode == 1 && opts.no_danger {
                            cx.excluded("seek_danger_chain_on_driven_union_shape", 1);
                            continue;
                        }
                        if mode == 2 && (from == TERMINATED || t >= TERMINATED) {
                            continue;
                        }
                        let mut prog: Vec<Op> = vec![Op::Advance; pos];
                        prog.push(match mode {
                            0 => Op::Seek(Tgt::Abs(t)),
                            1 => Op::Danger { first: Tgt::Abs(t), steps: vec![] },
                            _ => Op::FillBitset(Tgt::Abs(t)),
                        });
                        prog.extend([Op::Score, Op::Advance, Op::Score, Op::Advance, Op::FillBuffer]);
                        let mut obs = Obs::default();
                        let r = run_program_guarded(&env, &prog, opts, &mut obs);
                        pairs += 1;
                        cx.excluded("score_read_after_fill_buffer_on_scoring_union", obs.excl_score);
                        cx.excluded("program_cut_after_target_past_max_doc_on_bitset_shape", obs.excl_past_end);
                        if let Err(f) = r {
                            return Err(Failure::new(f.sig, format!("{} [pairs: advance x{pos} then {:?}; corpus {:?}; shape {q:?}; scoring={scoring}]", f.detail, prog[pos], c.corpus)));
                        }
                        cx.label(match mode {
                            0 => "pairs:seek",
                            1 => "pairs:seek_danger",
                            _ => "pairs:fill_bitset_block",
                        });
                    }
                }
                pos += stride;
            }
            cx.evals(pairs);
            cx.count("pairs", pairs);
            if rl >= 16 {
                cx.nontrivial(mix(fp(&c.corpus), mix(fp(q), *scoring as u64)));
            }
        }
        cx.sample(|| json!({"sub": "pairs", "corpus": c.corpus, "shapes": c.shapes.len()}));
        Ok(())
    }
}

// ------------------------------------------------------------------------------------------------
// libFuzzer entry: bytes -> (shape index, scoring, program) over a fixed corpus built once

struct FuzzWorld {
    built: Built,
    shapes: Vec<Q>,
    known: crate::known::Known,
}
static FUZZ_WORLD: OnceLock<Result<FuzzWorld, String>> = OnceLock::new();

fn fuzz_world() -> Result<&'static FuzzWorld, Failure> {
    let w = FUZZ_WORLD.get_or_init(|| {
        let spec = CorpusSpec { n: 4500, seed: 4242, dens_a: 80, run: 500, del: 7 };
        let built = build(&spec).map_err(|f| format!("{}: {}", f.sig, f.detail))?;
        let root = std::env::var("VERIF_ROOT").unwrap_or_else(|_| format!("{}/..", env!("CARGO_MANIFEST_DIR")));
        let known = crate::known::Known::load(&std::path::Path::new(&root).join("KNOWN_FINDINGS.txt"), "C13");
        Ok(FuzzWorld { built, shapes: catalog(), known })
    });
    w.as_ref().map_err(|e| Failure::new("INFRA:fuzz_world", e.clone()))
}

struct Bytes<'a> {
    d: &'a [u8],
    i: usize,
}
impl Bytes<'_> {
    fn u8(&mut self) -> Option<u8> {
        let b = self.d.get(self.i).copied();
        self.i += 1;
        b
    }
    fn u8z(&mut self) -> u8 {
        self.u8().unwrap_or(0)
    }
    fn u16(&mut self) -> u16 {
        u16::from_le_bytes([self.u8z(), self.u8z()])
    }
}
fn decode_tgt(b: &mut Bytes) -> Tgt {
    let k = b.u8z();
    match k % 8 {
        0 | 1 => Tgt::Delta((b.u8z() % 8) as u32),
        2 => Tgt::Delta(b.u16() as u32 % 10_000),
        3 => Tgt::Ref { k: b.u8z() as u16, off: (b.u8z() % 3) as i8 - 1 },
        4 => Tgt::Ref { k: b.u16() % 1500, off: (k / 8 % 3) as i8 - 1 },
        5 => Tgt::Abs(((EDGE_DOCS[b.u8z() as usize % EDGE_DOCS.len()] as i64) + (k / 8 % 3) as i64 - 1).max(0) as u32),
        6 => Tgt::Abs(b.u16() as u32 % 6000),
        _ => Tgt::End(k / 8),
    }
}
/// total decoding: every byte string is some (shape, scoring, boost, program)
pub fn decode_fuzz(data: &[u8], n_shapes: usize) -> (usize, bool, u8, Vec<Op>) {
    let mut b = Bytes { d: data, i: 0 };
    let shape = b.u8z() as usize % n_shapes.max(1);
    let flags = b.u8z();
    let mut ops = vec![];
    while let Some(k) = b.u8() {
        if ops.len() >= 256 {
            break;
        }
        ops.push(match k % 16 {
            0..=2 => Op::Advance,
            3..=5 => Op::Seek(decode_tgt(&mut b)),
            6 => Op::SeekTerminated,
            7 => Op::FillBuffer,
            8 => Op::FillBitset(decode_tgt(&mut b)),
            9 | 10 => {
                let first = decode_tgt(&mut b);
                let ns = (k / 16 % 6) as usize;
                let steps = (0..ns)
                    .map(|_| {
                        let s = b.u8z();
                        match s % 4 {
                            0 => Step::AtBound,
                            1 => Step::Between(s / 4 * 4),
                            2 => Step::Beyond((s / 4) as u32 * 40),
                            _ => Step::NextRef,
                        }
                    })
                    .collect();
                Op::Danger { first, steps }
            }
            11..=13 => Op::Score,
            14 => Op::CountAll,
            _ => Op::CountAlive,
        });
    }
    (shape, flags & 1 == 0, flags / 2 % 3, ops)
}

/// The libFuzzer entry exercised inside the regular check: generated byte strings (total decoding).
pub struct FuzzBytes;
impl Sub for FuzzBytes {
    type Case = Vec<u8>;
    fn name(&self) -> &'static str {
        "fuzz_bytes"
    }
    fn cases(&self, tier: Tier) -> u32 {
        tier.pick(40_000, 600_000)
    }
    fn strategy(&self, _tier: Tier) -> BoxedStrategy<Vec<u8>> {
        prop::collection::vec(any::<u8>(), 0..96).boxed()
    }
    fn mandatory_labels(&self, _t: Tier) -> Vec<&'static str> {
        vec!["fuzz:ran", "fuzz:empty_input"]
    }
    fn run(&self, data: &Vec<u8>, cx: &Ctx) -> CaseResult {
        let open = |k: &str| cx.known_open(k);
        let mut obs = Obs::default();
        let r = fuzz_inner(data, &open, &mut obs);
        cx.count("calls", obs.ops);
        cx.label("fuzz:ran");
        cx.label_if(data.is_empty(), "fuzz:empty_input");
        for l in &obs.labels {
            cx.label(l);
        }
        cx.excluded("score_read_after_fill_buffer_on_scoring_union", obs.excl_score);
        cx.excluded("program_cut_after_target_past_max_doc_on_bitset_shape", obs.excl_past_end);
        cx.excluded("seek_danger_chain_on_driven_union_shape", obs.excl_danger);
        cx.excluded("seek_danger_target_below_bound_replaced_by_bound", obs.excl_between);
        if obs.cross_block || obs.miss_then_hit {
            cx.nontrivial(fp(data));
        }
        r
    }
}

/// Same oracle as the `programs` sub, driven by raw bytes.  Returns the Failure (the fuzz target decides
/// what to do with signatures that are listed open in KNOWN_FINDINGS.txt).
pub fn fuzz_one(data: &[u8]) -> Result<(), Failure> {
    let w = fuzz_world()?;
    let open = |k: &str| w.known.is_open(k);
    fuzz_inner(data, &open, &mut Obs::default())
}

fn fuzz_inner(data: &[u8], open: &dyn Fn(&str) -> bool, obs: &mut Obs) -> Result<(), Failure> {
    let w = fuzz_world()?;
    let (shape, scoring, boost, ops) = decode_fuzz(data, w.shapes.len());
    let q = &w.shapes[shape];
    let (opts, skip) = opts_for(q, scoring, open);
    if skip.is_some() {
        return Ok(());
    }
    // the reference of a (shape, scoring, boost) triple is cached per thread: libFuzzer calls are sequential
    thread_local! {
        static REFS: RefCell<std::collections::HashMap<(usize, bool, u8), Rc<Vec<(u32, f32)>>>> = RefCell::new(Default::default());
    }
    let key = (shape, scoring, boost);
    let cached = REFS.with(|r| r.borrow().get(&key).cloned());
    let env = match cached {
        Some(refseq) => {
            let query = to_query(q, &w.built.f)?;
            let es = if scoring { EnableScoring::enabled_from_searcher(&w.built.searcher) } else { EnableScoring::disabled_from_searcher(&w.built.searcher) };
            let Ok(weight) = query.weight(es) else { return Ok(()) };
            Env {
                built: &w.built,
                q,
                scoring,
                boost: boost_of(boost),
                weight,
                refseq: (*refseq).clone(),
                tag: root_kind(q),
                bitset_leaf: has_bitset_leaf(q),
                union: has_union(q),
                clauses: clauses(q),
                max_doc: w.built.spec.n,
            }
        }
        None => {
            let built = match catch_unwind(AssertUnwindSafe(|| Env::new(&w.built, q, scoring, boost_of(boost)))) {
                Ok(r) => r,
                Err(_) => return Err(Failure::new("panic:reference_enumeration", format!("tantivy panicked while a fresh scorer of {q:?} (scoring={scoring}) was enumerated by plain advance"))),
            };
            let Some(env) = built? else { return Ok(()) };
            REFS.with(|r| r.borrow_mut().insert(key, Rc::new(env.refseq.clone())));
            env
        }
    };
    run_program_guarded(&env, &ops, opts, obs).map_err(|f| Failure::new(f.sig, format!("{} [fuzz shape #{shape} {q:?} scoring={scoring} boost={}]", f.detail, boost_of(boost))))
}
