//! C02, concurrent producers on SHARED keys: 2–4 threads share `&IndexWriter` and add documents to / delete by the
//! same few group terms.  The committed content must be explainable by *some* sequential order of the calls that
//! respects real time ("replaying in call order"; calls that overlap may be ordered either way) — i.e. the history
//! must be linearizable.  Only necessary conditions are asserted (each is violated by no linearizable history), so
//! the check cannot raise a false alarm on a schedule it does not understand:
//!
//!  (1) a document whose add had returned before a delete of its key was called is gone;
//!  (2) a document that is gone was added not entirely after every delete of its key
//!      (a delete never hits a document added after it returned);
//!  (3) if a document of key k survives and another document of k whose add began after the first add returned is
//!      gone, some delete would have to come after the second add but before the first — impossible;
//!  (4) opstamps: unique, and ordered like real time for non-overlapping calls; the operations of one `run` batch are
//!      contiguous and in order.
//! Real time is a logical clock (an atomic counter read before the call and after its return), never the wall clock.
//! The pause points of the `verif-hooks` feature hold a producer between drawing its opstamp and publishing the
//! operation while the others proceed, which is the window these conditions are about.
use std::cell::RefCell;
use std::collections::{BTreeMap, BTreeSet};
use std::sync::atomic::{AtomicU64, Ordering};
use std::sync::{Arc, Mutex};
use std::time::{Duration, Instant};

use proptest::prelude::*;
use serde::{Deserialize, Serialize};
use serde_json::json;
use tantivy::indexer::UserOperation;
use tantivy::{TantivyDocument, Term};

use crate::engine::*;
use crate::hist::*;
use crate::{ensure, fail};

#[derive(Clone, Debug, Serialize, Deserialize)]
pub enum SOp {
    Add(u8),
    Del(u8),
    /// run([Add(k) for k in keys])
    BatchAdds(Vec<u8>),
    /// run([Delete(k0), Add(k) for k in keys]) — the delete must not hit the batch's own documents
    BatchDelThenAdds(u8, Vec<u8>),
}
#[derive(Clone, Debug, Serialize, Deserialize)]
pub struct SharedCase {
    pub cfg: HistCfg,
    pub programs: Vec<Vec<SOp>>,
    pub rounds: u8,
    /// producer p is held at every (hold[p]+2)-th pause point
    pub hold: Vec<u8>,
}

const KEYS: u8 = 3;

struct Hold {
    progress: Arc<AtomicU64>,
    every: u64,
    seen: u64,
}
thread_local! {
    static HOLD: RefCell<Option<Hold>> = const { RefCell::new(None) };
}
/// the callback slot of the hooks is process-global: the dispatcher installed by the producers sub calls this too;
/// each sub keeps its hold plan in a thread-local of its own, so threads of other cases are not affected
pub fn on_point() {
    HOLD.with(|h| {
        if let Some(hold) = h.borrow_mut().as_mut() {
            hold.seen += 1;
            if hold.every > 0 && hold.seen % hold.every == 0 {
                let start = hold.progress.load(Ordering::SeqCst);
                let deadline = Instant::now() + Duration::from_millis(12);
                while hold.progress.load(Ordering::SeqCst) < start + 4 && Instant::now() < deadline {
                    std::thread::yield_now();
                }
            }
        }
    })
}

#[derive(Clone, Debug)]
struct Rec {
    /// true = add of `uid` to key, false = delete of key
    add: bool,
    key: u8,
    uid: u64,
    call: u64,
    ret: u64,
    stamp: u64,
    producer: usize,
    /// (batch id, position) for operations of one run() call
    batch: Option<(u64, usize)>,
}
fn precedes(a: &Rec, b: &Rec) -> bool {
    match (a.batch, b.batch) {
        (Some((ba, pa)), Some((bb, pb))) if ba == bb => pa < pb,
        _ => a.ret < b.call,
    }
}

pub struct Shared;
impl Sub for Shared {
    type Case = SharedCase;
    fn name(&self) -> &'static str {
        "shared_keys"
    }
    fn cases(&self, tier: Tier) -> u32 {
        tier.pick(400, 6000)
    }
    fn shards(&self, _t: Tier) -> usize {
        6
    }
    fn max_shrink_iters(&self) -> u32 {
        300
    }
    fn strategy(&self, _tier: Tier) -> BoxedStrategy<SharedCase> {
        static DIRS: [DirKind; 2] = [DirKind::Ram, DirKind::Sim];
        let sop = prop_oneof![
            8 => (0..KEYS).prop_map(SOp::Add),
            3 => (0..KEYS).prop_map(SOp::Del),
            1 => prop::collection::vec(0..KEYS, 1..4).prop_map(SOp::BatchAdds),
            1 => (0..KEYS, prop::collection::vec(0..KEYS, 1..4)).prop_map(|(k, v)| SOp::BatchDelThenAdds(k, v)),
        ];
        (cfg_strategy(&DIRS), prop::collection::vec(prop::collection::vec(sop, 2..30), 2..5), 1u8..4, prop::collection::vec(0u8..4, 4))
            .prop_map(|(mut cfg, programs, rounds, hold)| {
                cfg.threads = cfg.threads.min(4);
                cfg.sorted = None;
                SharedCase { cfg, programs, rounds, hold }
            })
            .boxed()
    }
    fn mandatory_labels(&self, _t: Tier) -> Vec<&'static str> {
        vec!["overlapping_add_and_delete_same_key", "delete_after_returned_add", "survivor_and_dead_same_key", "segments>=2", "batch"]
    }
    fn run(&self, c: &SharedCase, cx: &Ctx) -> CaseResult {
        crate::props::c02_producers::install_callback();
        let mut env = Env::new(c.cfg.clone())?;
        let clock = AtomicU64::new(1);
        let batch_ids = AtomicU64::new(1);
        let progress = Arc::new(AtomicU64::new(0));
        let recs: Mutex<Vec<Rec>> = Mutex::new(vec![]);
        let rounds = c.rounds.max(1) as usize;
        let mut counters: Vec<u64> = vec![0; c.programs.len()];
        let mut max_segments = 0usize;
        for round in 0..rounds {
            let results: Vec<Result<u64, Failure>> = std::thread::scope(|scope| {
                let w = env.writer.as_ref().unwrap();
                let mut handles = vec![];
                for (p, prog) in c.programs.iter().enumerate() {
                    let lo = prog.len() * round / rounds;
                    let hi = prog.len() * (round + 1) / rounds;
                    let chunk = &prog[lo..hi];
                    let (env, clock, batch_ids, recs) = (&env, &clock, &batch_ids, &recs);
                    let progress = progress.clone();
                    let mut n = counters[p];
                    let every = 2 + c.hold.get(p).copied().unwrap_or(0) as u64;
                    handles.push(
                        std::thread::Builder::new()
                            .name(format!("producer-{p}"))
                            .spawn_scoped(scope, move || -> Result<u64, Failure> {
                                HOLD.with(|h| *h.borrow_mut() = Some(Hold { progress: progress.clone(), every, seen: 0 }));
                                let mk = |uid: u64, key: u8| {
                                    let mut d = TantivyDocument::new();
                                    d.add_u64(env.f.uid, uid);
                                    d.add_text(env.f.grp, format!("g{key}"));
                                    d.add_text(env.f.body, format!("w{}", uid % 5));
                                    d.add_i64(env.f.num, key as i64);
                                    d
                                };
                                let key_term = |k: u8| Term::from_field_text(env.f.grp, &format!("g{k}"));
                                for op in chunk {
                                    match op {
                                        SOp::Add(k) => {
                                            let uid = p as u64 * 1_000_000 + n;
                                            n += 1;
                                            let d = mk(uid, *k);
                                            let call = clock.fetch_add(1, Ordering::SeqCst);
                                            let stamp = w.add_document(d).or_fail("add_failed")?;
                                            let ret = clock.fetch_add(1, Ordering::SeqCst);
                                            recs.lock().unwrap().push(Rec { add: true, key: *k, uid, call, ret, stamp, producer: p, batch: None });
                                        }
                                        SOp::Del(k) => {
                                            let call = clock.fetch_add(1, Ordering::SeqCst);
                                            let stamp = w.delete_term(key_term(*k));
                                            let ret = clock.fetch_add(1, Ordering::SeqCst);
                                            recs.lock().unwrap().push(Rec { add: false, key: *k, uid: 0, call, ret, stamp, producer: p, batch: None });
                                        }
                                        SOp::BatchAdds(keys) | SOp::BatchDelThenAdds(_, keys) => {
                                            let mut uops = vec![];
                                            let mut items: Vec<(bool, u8, u64)> = vec![];
                                            if let SOp::BatchDelThenAdds(k0, _) = op {
                                                uops.push(UserOperation::Delete(key_term(*k0)));
                                                items.push((false, *k0, 0));
                                            }
                                            for k in keys {
                                                let uid = p as u64 * 1_000_000 + n;
                                                n += 1;
                                                uops.push(UserOperation::Add(mk(uid, *k)));
                                                items.push((true, *k, uid));
                                            }
                                            let bid = batch_ids.fetch_add(1, Ordering::SeqCst);
                                            let len = items.len() as u64;
                                            let call = clock.fetch_add(1, Ordering::SeqCst);
                                            let last = w.run(uops).or_fail("run_failed")?;
                                            let ret = clock.fetch_add(1, Ordering::SeqCst);
                                            // run() returns the opstamp after the batch: its operations hold last-len .. last-1
                                            let mut g = recs.lock().unwrap();
                                            for (i, (add, key, uid)) in items.into_iter().enumerate() {
                                                g.push(Rec { add, key, uid, call, ret, stamp: last - len + i as u64, producer: p, batch: Some((bid, i)) });
                                            }
                                        }
                                    }
                                    progress.fetch_add(1, Ordering::SeqCst);
                                }
                                HOLD.with(|h| *h.borrow_mut() = None);
                                Ok(n)
                            })
                            .expect("spawn producer"),
                    );
                }
                handles.into_iter().map(|h| h.join().unwrap_or_else(|_| Err(Failure::new("panic:producer", "producer thread panicked")))).collect()
            });
            for (p, r) in results.into_iter().enumerate() {
                counters[p] = r?;
            }
            // every call has returned: commit and judge the history so far
            let opstamp = env.writer.as_mut().unwrap().commit().or_fail("commit_failed")?;
            let all = recs.lock().unwrap().clone();
            if std::env::var("TVV_DEBUG").is_ok() {
                let mut v = all.clone();
                v.sort_by_key(|r| r.stamp);
                for r in &v {
                    eprintln!("{r:?}");
                }
            }
            let max_stamp = all.iter().map(|r| r.stamp).max().unwrap_or(0);
            ensure!(all.is_empty() || opstamp > max_stamp, "commit_opstamp_not_above_ops", "commit returned {opstamp}, largest operation opstamp {max_stamp}");
            // (4) opstamps
            let mut seen: BTreeMap<u64, usize> = BTreeMap::new();
            for (i, r) in all.iter().enumerate() {
                if let Some(j) = seen.insert(r.stamp, i) {
                    fail!("shared:opstamp_handed_out_twice", "{:?} and {:?}", all[j], r);
                }
            }
            for a in &all {
                for b in &all {
                    if precedes(a, b) {
                        ensure!(a.stamp < b.stamp, "shared:opstamp_order_contradicts_real_time", "{a:?} precedes {b:?}");
                    }
                }
            }
            // committed content
            let (_r, s) = env.searcher()?;
            let mut alive: BTreeSet<u64> = BTreeSet::new();
            for seg in s.segment_readers().iter() {
                let uid_col = seg.fast_fields().u64("uid").or_fail("fast_uid_failed")?;
                for doc in seg.doc_ids_alive() {
                    let u = uid_col.first(doc).unwrap_or(u64::MAX);
                    ensure!(alive.insert(u), "uid_present_twice", "uid {u} occurs twice");
                }
            }
            max_segments = max_segments.max(s.segment_readers().len());
            let added: BTreeSet<u64> = all.iter().filter(|r| r.add).map(|r| r.uid).collect();
            for u in &alive {
                ensure!(added.contains(u), "shared:unknown_document", "uid {u} was never added");
            }
            for k in 0..KEYS {
                let adds: Vec<&Rec> = all.iter().filter(|r| r.add && r.key == k).collect();
                let dels: Vec<&Rec> = all.iter().filter(|r| !r.add && r.key == k).collect();
                for a in &adds {
                    let survives = alive.contains(&a.uid);
                    if survives {
                        // (1)
                        if let Some(d) = dels.iter().find(|d| precedes(a, d)) {
                            fail!("shared:delete_missed_document_added_before", "key g{k}: {a:?} survives although {d:?} was called after the add had returned");
                        }
                        cx.label_if(dels.iter().any(|d| !precedes(d, a) && !precedes(a, d)), "overlapping_add_and_delete_same_key");
                    } else {
                        // (2)
                        ensure!(dels.iter().any(|d| !precedes(d, a)), "shared:document_lost_without_later_delete", "key g{k}: {a:?} is gone, but every delete of the key had returned before the add was called: {dels:?}");
                        cx.label_if(dels.iter().any(|d| precedes(a, d)), "delete_after_returned_add");
                    }
                }
                // (3)
                for u in adds.iter().filter(|a| alive.contains(&a.uid)) {
                    for v in adds.iter().filter(|a| !alive.contains(&a.uid)) {
                        cx.label("survivor_and_dead_same_key");
                        ensure!(!precedes(u, v), "shared:not_linearizable_survivor_before_dead", "key g{k}: {u:?} survives, {v:?} (added after it returned) is gone; deletes of the key: {dels:?}; segments {max_segments}");
                    }
                }
            }
            cx.evals(1);
        }
        cx.label_if(max_segments >= 2, "segments>=2");
        cx.label_if(c.programs.iter().flatten().any(|o| matches!(o, SOp::BatchAdds(_) | SOp::BatchDelThenAdds(..))), "batch");
        cx.label(&format!("producers:{}", c.programs.len()));
        cx.count("shared_ops", recs.lock().unwrap().len() as u64);
        cx.nontrivial(fp(c));
        cx.sample(|| json!({"sub": "shared_keys", "cfg": c.cfg, "programs": c.programs.iter().map(|p| p.len()).collect::<Vec<_>>(), "rounds": c.rounds, "ops": recs.lock().unwrap().len()}));
        Ok(())
    }
}

