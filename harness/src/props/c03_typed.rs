//! C03, sub-check `typed_fields` — the field types the main corpus model (`qmodel.rs`) does not have: JSON objects
//! (text, keyword, integer, float and nested sub-paths; indexed with positions and as fast fields), facets, booleans
//! and bytes.  Own small document model and naive evaluator; same collectors and segmentations as `sem`.
//!
//! Only meanings that the rustdoc states are asserted: a term on a JSON path matches documents that hold that token /
//! that number (of the same numeric type: integers are generated as i64, fractional values as f64 - the cross-type
//! normalisation of the query parser is C16's subject) under that path; a phrase needs consecutive positions inside one
//! value; a range on a JSON path is numeric; `ExistsQuery(path, json_subpaths)` matches documents with a value at the
//! path (or, with sub-paths, anywhere below it); a facet term matches documents that carry the facet or a descendant.
use std::collections::BTreeSet;
use std::ops::Bound;

use proptest::prelude::*;
use serde::{Deserialize, Serialize};
use serde_json::json;
use tantivy::collector::{Count, DocSetCollector, TopDocs};
use tantivy::query::{AllQuery, BooleanQuery, ExistsQuery, Occur, PhraseQuery, Query, RangeQuery, TermQuery, TermSetQuery};
use tantivy::schema::*;
use tantivy::{Index, ReloadPolicy, TantivyDocument, Term};

use super::c03::UidMap;
use crate::engine::*;
use crate::util::{writer, WriterCfg};
use crate::{ensure, fail};

#[derive(Clone, Debug, Serialize, Deserialize)]
pub struct TDoc {
    /// js.k = "k<n>"
    pub k: Option<u8>,
    /// js.t = "w<a> w<b> ..." (one text value)
    pub t: Vec<u8>,
    /// js.n = integer(s); one value is written as a scalar, several as an array
    pub n: Vec<i8>,
    /// js.f = x + 0.5
    pub f: Option<i8>,
    /// js.o.x = "x<n>"
    pub ox: Option<u8>,
    /// js.o.y = integer
    pub oy: Option<i8>,
    /// js.o = integer (a scalar under the key that is an object in other documents); only used when ox and oy are absent
    #[serde(default)]
    pub os: Option<i8>,
    /// js.n additionally holds 2^63 + 5 (an unsigned value above i64::MAX: where no negative value shares the segment the
    /// column of the path is u64, and integer bounds of a range have to be converted)
    #[serde(default)]
    pub big: bool,
    /// facets, each a path of segments "s<n>"
    pub fa: Vec<Vec<u8>>,
    pub bo: Option<bool>,
    pub by: Option<Vec<u8>>,
}
impl TDoc {
    fn o_scalar(&self) -> Option<i8> {
        if self.ox.is_none() && self.oy.is_none() {
            self.os
        } else {
            None
        }
    }
}
#[derive(Clone, Copy, Debug, Serialize, Deserialize, PartialEq)]
pub enum Bd {
    Un,
    In(i8),
    Ex(i8),
}
#[derive(Clone, Debug, Serialize, Deserialize)]
pub enum TQ {
    /// path 0 = k, 1 = t, 2 = o.x
    JWord(u8, u8),
    JPhrase(Vec<u8>),
    JInt(i8),
    /// term on o.y
    JNested(i8),
    JFloat(i8),
    JIntRange(Bd, Bd),
    JFloatRange(Bd, Bd),
    /// 0 js.k, 1 js.t, 2 js.n, 3 js.f, 4 js.o.x, 5 js.o.y (exact path); 6 = js.o with sub-paths, 7 = js with sub-paths,
    /// 8 = js.o exact path (only documents where `o` is a scalar)
    JExists(u8),
    /// set of integers on js.n
    JIntSet(Vec<i8>),
    Facet(Vec<u8>),
    BoolTerm(bool),
    BoolExists,
    BytesTerm(Vec<u8>),
    BytesExists,
    All,
    Bool(Vec<(u8, TQ)>),
}
#[derive(Clone, Debug, Serialize, Deserialize)]
pub struct TypedCase {
    pub docs: Vec<TDoc>,
    pub repeat: u8,
    pub cuts: Vec<u16>,
    pub deletes: Vec<u16>,
    pub expand_dots: bool,
    pub queries: Vec<TQ>,
    pub merge_after: bool,
}

fn in_range(v: f64, lo: Bd, hi: Bd, half: bool) -> bool {
    let b = |x: i8| x as f64 + if half { 0.5 } else { 0.0 };
    (match lo {
        Bd::Un => true,
        Bd::In(x) => v >= b(x),
        Bd::Ex(x) => v > b(x),
    }) && (match hi {
        Bd::Un => true,
        Bd::In(x) => v <= b(x),
        Bd::Ex(x) => v < b(x),
    })
}
fn matches(q: &TQ, d: &TDoc) -> bool {
    match q {
        TQ::JWord(0, w) => d.k == Some(*w),
        TQ::JWord(1, w) => d.t.contains(w),
        TQ::JWord(_, w) => d.ox == Some(*w),
        TQ::JPhrase(ws) => !ws.is_empty() && d.t.windows(ws.len()).any(|x| x == ws.as_slice()),
        TQ::JInt(v) => d.n.contains(v),
        TQ::JNested(v) => d.oy == Some(*v),
        TQ::JFloat(v) => d.f == Some(*v),
        TQ::JIntRange(lo, hi) => d.n.iter().any(|v| in_range(*v as f64, *lo, *hi, false)) || (d.big && !d.n.is_empty() && *hi == Bd::Un),
        TQ::JFloatRange(lo, hi) => d.f.map(|v| in_range(v as f64 + 0.5, *lo, *hi, true)).unwrap_or(false),
        TQ::JExists(0) => d.k.is_some(),
        TQ::JExists(1) => !d.t.is_empty(),
        TQ::JExists(2) => !d.n.is_empty(),
        TQ::JExists(3) => d.f.is_some(),
        TQ::JExists(4) => d.ox.is_some(),
        TQ::JExists(5) => d.oy.is_some(),
        TQ::JExists(6) => d.ox.is_some() || d.oy.is_some() || d.o_scalar().is_some(),
        TQ::JExists(8) => d.o_scalar().is_some(),
        TQ::JExists(_) => d.k.is_some() || !d.t.is_empty() || !d.n.is_empty() || d.f.is_some() || d.ox.is_some() || d.oy.is_some() || d.o_scalar().is_some(),
        TQ::JIntSet(vs) => d.n.iter().any(|v| vs.contains(v)),
        TQ::Facet(p) => d.fa.iter().any(|f| f.len() >= p.len() && f[..p.len()] == p[..]),
        TQ::BoolTerm(b) => d.bo == Some(*b),
        TQ::BoolExists => d.bo.is_some(),
        TQ::BytesTerm(b) => d.by.as_ref() == Some(b),
        TQ::BytesExists => d.by.is_some(),
        TQ::All => true,
        TQ::Bool(cl) => {
            let must: Vec<&TQ> = cl.iter().filter(|c| c.0 == 0).map(|c| &c.1).collect();
            let should: Vec<&TQ> = cl.iter().filter(|c| c.0 == 1).map(|c| &c.1).collect();
            let not: Vec<&TQ> = cl.iter().filter(|c| c.0 == 2).map(|c| &c.1).collect();
            if must.is_empty() && should.is_empty() {
                return false;
            }
            must.iter().all(|q| matches(q, d)) && (!must.is_empty() || should.iter().any(|q| matches(q, d))) && !not.iter().any(|q| matches(q, d))
        }
    }
}

struct F {
    uid: Field,
    js: Field,
    fa: Field,
    bo: Field,
    by: Field,
    expand_dots: bool,
}
fn facet_of(p: &[u8]) -> Facet {
    Facet::from_path(p.iter().map(|s| format!("s{s}")))
}
fn jterm(f: &F, path: &str) -> Term {
    Term::from_field_json_path(f.js, path, f.expand_dots)
}
fn range_of(f: &F, path: &str, lo: Bd, hi: Bd, half: bool) -> Box<dyn Query> {
    let mk = |x: i8| {
        let mut t = jterm(f, path);
        if half {
            t.append_type_and_fast_value(x as f64 + 0.5);
        } else {
            t.append_type_and_fast_value(x as i64);
        }
        t
    };
    let b = |x: Bd| match x {
        Bd::Un => Bound::Unbounded,
        Bd::In(v) => Bound::Included(mk(v)),
        Bd::Ex(v) => Bound::Excluded(mk(v)),
    };
    Box::new(RangeQuery::new(b(lo), b(hi)))
}
fn build(q: &TQ, f: &F) -> Box<dyn Query> {
    let basic = IndexRecordOption::Basic;
    match q {
        TQ::JWord(p, w) => {
            let (path, word) = match p {
                0 => ("k", format!("k{w}")),
                1 => ("t", format!("w{w}")),
                _ => ("o.x", format!("x{w}")),
            };
            let mut t = jterm(f, path);
            t.append_type_and_str(&word);
            Box::new(TermQuery::new(t, IndexRecordOption::WithFreqs))
        }
        TQ::JPhrase(ws) => {
            let terms: Vec<Term> = ws
                .iter()
                .map(|w| {
                    let mut t = jterm(f, "t");
                    t.append_type_and_str(&format!("w{w}"));
                    t
                })
                .collect();
            Box::new(PhraseQuery::new(terms))
        }
        TQ::JInt(v) => {
            let mut t = jterm(f, "n");
            t.append_type_and_fast_value(*v as i64);
            Box::new(TermQuery::new(t, basic))
        }
        TQ::JNested(v) => {
            let mut t = jterm(f, "o.y");
            t.append_type_and_fast_value(*v as i64);
            Box::new(TermQuery::new(t, basic))
        }
        TQ::JFloat(v) => {
            let mut t = jterm(f, "f");
            t.append_type_and_fast_value(*v as f64 + 0.5);
            Box::new(TermQuery::new(t, basic))
        }
        TQ::JIntRange(lo, hi) => range_of(f, "n", *lo, *hi, false),
        TQ::JFloatRange(lo, hi) => range_of(f, "f", *lo, *hi, true),
        TQ::JExists(p) => {
            let (name, sub) = match p {
                0 => ("js.k", false),
                1 => ("js.t", false),
                2 => ("js.n", false),
                3 => ("js.f", false),
                4 => ("js.o.x", false),
                5 => ("js.o.y", false),
                6 => ("js.o", true),
                8 => ("js.o", false),
                _ => ("js", true),
            };
            Box::new(ExistsQuery::new(name.to_string(), sub))
        }
        TQ::JIntSet(vs) => Box::new(TermSetQuery::new(vs.iter().map(|v| {
            let mut t = jterm(f, "n");
            t.append_type_and_fast_value(*v as i64);
            t
        }))),
        TQ::Facet(p) => Box::new(TermQuery::new(Term::from_facet(f.fa, &facet_of(p)), basic)),
        TQ::BoolTerm(b) => Box::new(TermQuery::new(Term::from_field_bool(f.bo, *b), basic)),
        TQ::BoolExists => Box::new(ExistsQuery::new("bo".to_string(), false)),
        TQ::BytesTerm(b) => Box::new(TermQuery::new(Term::from_field_bytes(f.by, b), basic)),
        TQ::BytesExists => Box::new(ExistsQuery::new("by".to_string(), false)),
        TQ::All => Box::new(AllQuery),
        TQ::Bool(cl) => Box::new(BooleanQuery::new(
            cl.iter()
                .map(|(o, q)| {
                    (
                        match o {
                            0 => Occur::Must,
                            1 => Occur::Should,
                            _ => Occur::MustNot,
                        },
                        build(q, f),
                    )
                })
                .collect(),
        )),
    }
}

fn to_doc(uid: u64, d: &TDoc, f: &F) -> TantivyDocument {
    let mut doc = TantivyDocument::new();
    doc.add_u64(f.uid, uid);
    let mut obj: Vec<(String, OwnedValue)> = vec![];
    if let Some(k) = d.k {
        obj.push(("k".into(), OwnedValue::Str(format!("k{k}"))));
    }
    if !d.t.is_empty() {
        obj.push(("t".into(), OwnedValue::Str(d.t.iter().map(|w| format!("w{w}")).collect::<Vec<_>>().join(" "))));
    }
    match (d.n.len(), d.big && !d.n.is_empty()) {
        (0, _) => {}
        (1, false) => obj.push(("n".into(), OwnedValue::I64(d.n[0] as i64))),
        (_, big) => obj.push(("n".into(), OwnedValue::Array(d.n.iter().map(|v| OwnedValue::I64(*v as i64)).chain(big.then_some(OwnedValue::U64((1u64 << 63) + 5))).collect()))),
    }
    if let Some(x) = d.f {
        obj.push(("f".into(), OwnedValue::F64(x as f64 + 0.5)));
    }
    if d.ox.is_some() || d.oy.is_some() {
        let mut o: Vec<(String, OwnedValue)> = vec![];
        if let Some(x) = d.ox {
            o.push(("x".into(), OwnedValue::Str(format!("x{x}"))));
        }
        if let Some(y) = d.oy {
            o.push(("y".into(), OwnedValue::I64(y as i64)));
        }
        obj.push(("o".into(), OwnedValue::Object(o)));
    } else if let Some(v) = d.os {
        obj.push(("o".into(), OwnedValue::I64(v as i64)));
    }
    if !obj.is_empty() {
        doc.add_field_value(f.js, &OwnedValue::Object(obj));
    }
    for p in &d.fa {
        doc.add_facet(f.fa, facet_of(p));
    }
    if let Some(b) = d.bo {
        doc.add_bool(f.bo, b);
    }
    if let Some(b) = &d.by {
        doc.add_bytes(f.by, b);
    }
    doc
}

fn tdoc_strategy() -> impl Strategy<Value = TDoc> {
    (
        (prop::option::weighted(0.7, 0u8..4), prop::collection::vec(0u8..5, 0..6), prop::collection::vec(-6i8..7, 0..4), prop::option::weighted(0.5, -6i8..7)),
        (prop::option::weighted(0.4, 0u8..3), prop::option::weighted(0.4, -3i8..4), prop::option::weighted(0.5, -3i8..4)),
        prop::collection::vec(prop::collection::vec(0u8..3, 1..4), 0..3),
        prop::option::weighted(0.6, any::<bool>()),
        prop::option::weighted(0.5, prop::collection::vec(0u8..3, 0..3)),
    )
        .prop_map(|((k, t, n, f), (ox, oy, os), fa, bo, by)| TDoc { k, t, n, f, ox, oy, os, big: false, fa, bo, by })
}
fn bd() -> impl Strategy<Value = Bd> {
    prop_oneof![1 => Just(Bd::Un), 3 => (-7i8..8).prop_map(Bd::In), 2 => (-7i8..8).prop_map(Bd::Ex)]
}
fn leaf() -> BoxedStrategy<TQ> {
    prop_oneof![
        5 => (0u8..3, 0u8..5).prop_map(|(p, w)| TQ::JWord(p, w)),
        2 => prop::collection::vec(0u8..5, 2..4).prop_map(TQ::JPhrase),
        3 => (-6i8..7).prop_map(TQ::JInt),
        1 => (-3i8..4).prop_map(TQ::JNested),
        2 => (-6i8..7).prop_map(TQ::JFloat),
        // RangeQuery takes its field from a bound: at least one bound has to be set (precondition of RangeQuery::new)
        4 => (bd(), bd()).prop_map(|(a, b)| if a == Bd::Un && b == Bd::Un { TQ::JIntRange(Bd::In(-7), b) } else { TQ::JIntRange(a, b) }),
        2 => (bd(), bd()).prop_map(|(a, b)| if a == Bd::Un && b == Bd::Un { TQ::JFloatRange(a, Bd::In(7)) } else { TQ::JFloatRange(a, b) }),
        5 => (0u8..9).prop_map(TQ::JExists),
        1 => prop::collection::vec(-6i8..7, 0..4).prop_map(TQ::JIntSet),
        4 => prop::collection::vec(0u8..3, 0..4).prop_map(TQ::Facet),
        2 => any::<bool>().prop_map(TQ::BoolTerm),
        1 => Just(TQ::BoolExists),
        2 => prop::collection::vec(0u8..3, 0..3).prop_map(TQ::BytesTerm),
        1 => Just(TQ::BytesExists),
        1 => Just(TQ::All),
    ]
    .boxed()
}
fn tq_strategy() -> BoxedStrategy<TQ> {
    leaf()
        .prop_recursive(2, 12, 4, |inner| prop::collection::vec((prop_oneof![3 => Just(0u8), 3 => Just(1u8), 1 => Just(2u8)], inner), 1..4).prop_map(TQ::Bool))
        .boxed()
}

pub struct Typed;
impl Sub for Typed {
    type Case = TypedCase;
    fn name(&self) -> &'static str {
        "typed_fields"
    }
    fn cases(&self, tier: Tier) -> u32 {
        tier.pick(1200, 20000)
    }
    fn max_shrink_iters(&self) -> u32 {
        1500
    }
    fn strategy(&self, _tier: Tier) -> BoxedStrategy<TypedCase> {
        (
            prop::collection::vec(tdoc_strategy(), 0..24),
            prop_oneof![4 => Just(1u8), 2 => 2u8..8, 1 => Just(12u8)],
            prop::collection::vec(any::<u16>(), 0..5),
            prop::collection::vec(any::<u16>(), 0..5),
            any::<bool>(),
            prop::collection::vec(tq_strategy(), 20..36),
            any::<bool>(),
        )
            .prop_map(|(mut docs, repeat, cuts, deletes, expand_dots, queries, merge_after)| {
                // one corpus in three: js.n is non-negative everywhere and some documents also hold a value above
                // i64::MAX (segments whose column of the path is u64)
                if cuts.first().map(|c| c % 3 == 0).unwrap_or(false) {
                    for (i, d) in docs.iter_mut().enumerate() {
                        for v in d.n.iter_mut() {
                            *v = v.abs();
                        }
                        d.big = i % 3 == 0;
                    }
                }
                TypedCase { docs, repeat, cuts, deletes, expand_dots, queries, merge_after }
            })
            .boxed()
    }
    fn mandatory_labels(&self, _t: Tier) -> Vec<&'static str> {
        vec!["segments>=2", "has_deletes", "merged_recheck", "leaf:json_word", "leaf:json_phrase", "leaf:json_int_range", "leaf:json_float_range", "leaf:json_exists", "leaf:json_exists_subpaths", "leaf:facet", "leaf:bool", "leaf:bytes", "bool_node", "nontrivial_result"]
    }
    fn run(&self, c: &TypedCase, cx: &Ctx) -> CaseResult {
        let mut sb = Schema::builder();
        let uid = sb.add_u64_field("uid", FAST | INDEXED | STORED);
        let mut jo = JsonObjectOptions::default().set_stored().set_fast(None).set_indexing_options(TextFieldIndexing::default().set_tokenizer("default").set_index_option(IndexRecordOption::WithFreqsAndPositions));
        if c.expand_dots {
            jo = jo.set_expand_dots_enabled();
        }
        let js = sb.add_json_field("js", jo);
        let fa = sb.add_facet_field("fa", FacetOptions::default());
        let bo = sb.add_bool_field("bo", INDEXED | FAST);
        let by = sb.add_bytes_field("by", INDEXED | FAST);
        let index = Index::create_in_ram(sb.build());
        let f = F { uid, js, fa, bo, by, expand_dots: c.expand_dots };
        let mut w = writer(&index, WriterCfg::default()).or_fail("INFRA:writer")?;
        w.set_merge_policy(Box::new(tantivy::indexer::NoMergePolicy));
        // documents: the list replicated `repeat` times with fresh uids
        let mut docs: Vec<(u64, &TDoc)> = vec![];
        for r in 0..c.repeat.max(1) as u64 {
            for (i, d) in c.docs.iter().enumerate() {
                docs.push((r * 1000 + i as u64, d));
            }
        }
        let n = docs.len();
        let mut cut_at: BTreeSet<usize> = c.cuts.iter().map(|x| idx(*x, n + 1)).collect();
        cut_at.remove(&0);
        for (i, (u, d)) in docs.iter().enumerate() {
            if cut_at.contains(&i) {
                w.commit().or_fail("commit_failed")?;
            }
            w.add_document(to_doc(*u, d, &f)).or_fail("add_failed")?;
        }
        w.commit().or_fail("commit_failed")?;
        let mut deleted: BTreeSet<u64> = BTreeSet::new();
        if n > 0 {
            for x in &c.deletes {
                let u = docs[idx(*x, n)].0;
                w.delete_term(Term::from_field_u64(uid, u));
                deleted.insert(u);
            }
            if !deleted.is_empty() {
                w.commit().or_fail("commit_failed")?;
            }
        }
        let live: Vec<(u64, &TDoc)> = docs.iter().filter(|(u, _)| !deleted.contains(u)).cloned().collect();
        let reader: tantivy::IndexReader = index.reader_builder().reload_policy(ReloadPolicy::Manual).try_into().or_fail("reader_open_failed")?;
        let nseg = reader.searcher().segment_readers().len();
        cx.label_if(nseg >= 2, "segments>=2");
        cx.label_if(!deleted.is_empty(), "has_deletes");
        cx.label_if(c.expand_dots, "expand_dots");
        let case_fp = fp(&(&c.docs, c.repeat, &c.cuts, &c.deletes));
        let built: Vec<(&TQ, Box<dyn Query>, BTreeSet<u64>)> = c.queries.iter().map(|q| (q, build(q, &f), live.iter().filter(|(_, d)| matches(q, d)).map(|(u, _)| *u).collect())).collect();
        for pass in 0..2 {
            if pass == 1 {
                if !c.merge_after || nseg < 2 {
                    break;
                }
                let ids = index.searchable_segment_ids().or_fail("segment_ids")?;
                w.merge(&ids).wait().or_fail("merge_failed")?;
                reader.reload().or_fail("reload_failed")?;
                cx.label("merged_recheck");
            }
            let searcher = reader.searcher();
            let um = UidMap::new(&searcher)?;
            for (q, tq, expected) in &built {
                cx.evals(1);
                let kind = kind_of(q);
                let got: BTreeSet<u64> = searcher.search(&**tq, &DocSetCollector).map_err(|e| Failure::new(format!("typed:search_error:{kind}"), format!("query {q:?}: {e:?}")))?.into_iter().map(|a| um.uid(a)).collect();
                if &got != expected {
                    let extra: Vec<&u64> = got.difference(expected).take(6).collect();
                    let missing: Vec<&u64> = expected.difference(&got).take(6).collect();
                    let culprit = culprit_of(q, &searcher, &um, &live, &f);
                    let dir = if missing.is_empty() { "overmatch" } else if extra.is_empty() { "undermatch" } else { "mismatch" };
                    fail!(format!("typed:{}_{dir}", kind_of(&culprit)), "pass {pass}, {} segments, expand_dots {}: query {q:?}: expected {} docs, got {}; extra {extra:?} missing {missing:?}; smallest failing sub-query {culprit:?}", searcher.segment_readers().len(), c.expand_dots, expected.len(), got.len());
                }
                let cnt = searcher.search(&**tq, &Count).or_fail("search_failed")?;
                ensure!(cnt == expected.len(), "typed:count_differs_from_docset", "query {q:?}: Count {cnt}, doc set {}", expected.len());
                let cnt2 = tq.count(&searcher).or_fail("count_failed")?;
                ensure!(cnt2 == expected.len(), "typed:query_count_differs_from_docset", "query {q:?}: Query::count {cnt2}, doc set {}", expected.len());
                if pass == 0 {
                    let top: BTreeSet<u64> = searcher.search(&**tq, &TopDocs::with_limit(live.len() + 5).order_by_score()).or_fail("search_failed")?.into_iter().map(|(_, a)| um.uid(a)).collect();
                    ensure!(&top == expected, "typed:topdocs_differs_from_docset", "query {q:?}: TopDocs {} docs, doc set {}", top.len(), expected.len());
                    label_leaves(q, cx);
                    if !expected.is_empty() && expected.len() < live.len() {
                        cx.label("nontrivial_result");
                        if nseg >= 2 || !deleted.is_empty() {
                            cx.nontrivial(mix(case_fp, fp(q)));
                        }
                    }
                }
            }
        }
        cx.sample(|| json!({"sub": "typed_fields", "docs": n, "segments": nseg, "deleted": deleted.len(), "expand_dots": c.expand_dots, "first_doc": c.docs.first(), "queries": c.queries.iter().take(3).collect::<Vec<_>>()}));
        Ok(())
    }
}

fn kind_of(q: &TQ) -> &'static str {
    match q {
        TQ::JWord(..) => "json_word",
        TQ::JPhrase(_) => "json_phrase",
        TQ::JInt(_) | TQ::JNested(_) => "json_int_term",
        TQ::JFloat(_) => "json_float_term",
        TQ::JIntRange(..) => "json_int_range",
        TQ::JFloatRange(..) => "json_float_range",
        TQ::JExists(p) if *p == 6 || *p == 7 => "json_exists_subpaths",
        TQ::JExists(_) => "json_exists",
        TQ::JIntSet(_) => "json_int_set",
        TQ::Facet(_) => "facet",
        TQ::BoolTerm(_) | TQ::BoolExists => "bool",
        TQ::BytesTerm(_) | TQ::BytesExists => "bytes",
        TQ::All => "all",
        TQ::Bool(_) => "bool_node",
    }
}
fn label_leaves(q: &TQ, cx: &Ctx) {
    match q {
        TQ::Bool(cl) => {
            cx.label("bool_node");
            for c in cl {
                label_leaves(&c.1, cx);
            }
        }
        other => cx.label(&format!("leaf:{}", kind_of(other))),
    }
}
fn culprit_of(q: &TQ, searcher: &tantivy::Searcher, um: &UidMap, live: &[(u64, &TDoc)], f: &F) -> TQ {
    if let TQ::Bool(cl) = q {
        for (_, sub) in cl {
            let expected: BTreeSet<u64> = live.iter().filter(|(_, d)| matches(sub, d)).map(|(u, _)| *u).collect();
            let got: Option<BTreeSet<u64>> = searcher.search(&*build(sub, f), &DocSetCollector).ok().map(|s| s.into_iter().map(|a| um.uid(a)).collect());
            if got.as_ref() != Some(&expected) {
                return culprit_of(sub, searcher, um, live, f);
            }
        }
    }
    q.clone()
}
