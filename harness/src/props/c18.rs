//! C18 — at most one IndexWriter per index directory; the lock follows the writer's lifetime.
//!
//! Sub-checks
//! * `lifecycle`      generated sequences of creations (valid / invalid options), rollbacks, drops,
//!                    wait_merging_threads, worker kills and concurrent creation attempts on RamDirectory,
//!                    MmapDirectory (flock) and SimDir (lock files), judged by a two-state model (free / held);
//! * `process`        the same model with the actors spread over the harness process and two child processes
//!                    (`tvv child c18 <dir>`) that share one MmapDirectory (see c18_proc.rs);
//! * `rollback_fault` a rollback whose replacement writer cannot be built (injected read error on meta.json):
//!                    the writer object stays alive, so the lock must stay held.
use std::panic::{catch_unwind, AssertUnwindSafe};
use std::path::PathBuf;
use std::sync::atomic::{AtomicBool, Ordering};
use std::sync::Barrier;

use proptest::prelude::*;
use serde::{Deserialize, Serialize};
use serde_json::json;
use tantivy::collector::Count;
use tantivy::directory::{MmapDirectory, RamDirectory};
use tantivy::indexer::IndexWriterOptions;
use tantivy::query::TermQuery;
use tantivy::schema::*;
use tantivy::{Index, IndexReader, IndexWriter, ReloadPolicy, TantivyDocument, TantivyError, Term};

use crate::engine::*;
use crate::simdir::{FaultRule, SimDir, K};
use crate::util::WriterCfg;
use crate::{ensure, fail};

pub use super::c18_proc::child_main;

pub fn def() -> PropDef {
    PropDef {
        id: "C18",
        level: "exploration",
        rule: "lifecycle: generated sequences (1-20 steps, thorough 1-40) over {create with valid options (5 ways incl. both budget boundaries), create with invalid budget / 0 threads (8 ways), rollback, drop, wait_merging_threads, add+commit, kill by injected indexing-worker I/O error, race of 2-8 creating threads (valid and invalid mixed), creation attempts racing a rollback, creation attempts racing a drop} on three Index handles (created, re-opened on a second directory instance, cloned) of one RamDirectory / MmapDirectory / SimDir; after every step a creation attempt is made while the model says `held`. Non-trivial = the sequence contains an attempt after a rollback, a successful creation after a failed construction, or a race; distinct by the whole case. process: the same model with three actors (harness process + 2 child processes) on one MmapDirectory. rollback_fault: rollback with an injected meta.json read error, then attempts.",
        assumptions: vec![
            "oracle = two-state model (free / held by one writer) driven only by the results of the calls; budgets 15_000_000 (minimum, inclusive) and u32::MAX-1_000_000 (maximum, exclusive) are hard-coded from the rustdoc of Index::writer*",
            "an attempt with invalid options while the lock is held may fail with either LockFailure or InvalidArgument (both are counted); invalid attempts racing valid ones may make every valid attempt fail (the failing construction holds the lock transiently), so `exactly one winner` is only required of races of valid attempts",
            "a writer killed by a worker error is only required to keep the lock until it is dropped; what its later add/commit calls return is C11's subject and is only counted here",
            "thread interleavings of the races are sampled, not enumerated",
            "SingleSegmentIndexWriter takes no lock at all and is not an IndexWriter; the statement does not cover it",
        ],
        subs: vec![Box::new(Lifecycle), Box::new(super::c18_proc::Process), Box::new(RollbackFault), Box::new(LockFault)],
    }
}

// ------------------------------------------------------------------------------------------------
// constants of the documented contract (hard-coded on purpose: independent of tantivy's constants)
pub const BUDGET_MIN: usize = 15_000_000;
pub const BUDGET_MAX_EXCL: usize = u32::MAX as usize - 1_000_000;

#[derive(Clone, Copy, Debug, Serialize, Deserialize, PartialEq, Eq)]
pub enum How {
    /// Index::writer_with_options
    Options,
    /// Index::writer_with_num_threads(threads, threads * budget)
    NumThreads,
    /// Index::writer(total budget) (thread count derived by tantivy)
    Auto,
    /// per-thread budget exactly the documented minimum (valid boundary)
    ExactMin,
    /// per-thread budget one below the documented maximum (valid boundary)
    BelowMax,
}
#[derive(Clone, Copy, Debug, Serialize, Deserialize, PartialEq, Eq)]
pub enum Bad {
    /// 14_999_999 per thread
    BudgetJustBelowMin,
    BudgetSmall(u32),
    /// exactly u32::MAX - 1_000_000 (the maximum is exclusive)
    BudgetAtMax,
    BudgetHuge,
    ZeroThreads,
    /// writer_with_num_threads(threads, total) with total / threads below the minimum
    SplitBelowMin(u8),
    /// Index::writer(total) with a total below the minimum
    AutoBelowMin(u32),
    /// writer_with_num_threads(0, ..): divides by zero before anything is acquired (a panic is accepted)
    ZeroThreadsSplit,
}
impl Bad {
    pub fn name(&self) -> &'static str {
        match self {
            Bad::BudgetJustBelowMin => "budget_min-1",
            Bad::BudgetSmall(_) => "budget_small",
            Bad::BudgetAtMax => "budget_at_max",
            Bad::BudgetHuge => "budget_huge",
            Bad::ZeroThreads => "zero_threads",
            Bad::SplitBelowMin(_) => "split_below_min",
            Bad::AutoBelowMin(_) => "auto_below_min",
            Bad::ZeroThreadsSplit => "zero_threads_split",
        }
    }
}
#[derive(Clone, Copy, Debug, Serialize, Deserialize, PartialEq, Eq)]
pub enum Spec {
    Valid { how: How, threads: u8 },
    Bad(Bad),
}
impl Spec {
    pub fn plain() -> Spec {
        Spec::Valid { how: How::Options, threads: 1 }
    }
    fn is_bad(&self) -> bool {
        matches!(self, Spec::Bad(_))
    }
}

/// classified result of one creation attempt
pub enum Att {
    Ok(IndexWriter),
    /// TantivyError::LockFailure(LockBusy)
    Lock,
    /// TantivyError::LockFailure(IoError)
    LockIo(String),
    Invalid(String),
    Panic(String),
    Other(String),
}
impl Att {
    pub fn short(&self) -> String {
        match self {
            Att::Ok(_) => "Ok(writer)".into(),
            Att::Lock => "LockFailure(LockBusy)".into(),
            Att::LockIo(s) => format!("LockFailure(IoError {s})"),
            Att::Invalid(s) => format!("InvalidArgument({s})"),
            Att::Panic(s) => format!("panic({s})"),
            Att::Other(s) => format!("other error {s}"),
        }
    }
    fn is_lock(&self) -> bool {
        matches!(self, Att::Lock | Att::LockIo(_))
    }
}

fn threads_of(t: u8) -> usize {
    (t as usize).clamp(1, 3)
}

fn create_raw(ix: &Index, spec: &Spec) -> tantivy::Result<IndexWriter> {
    let opts = |budget: usize, threads: usize| IndexWriterOptions::builder().num_worker_threads(threads).num_merge_threads(1).memory_budget_per_thread(budget).build();
    match spec {
        Spec::Valid { how, threads } => {
            let threads = threads_of(*threads);
            let cfg = WriterCfg { threads, merge_threads: 1, ..Default::default() };
            match how {
                How::Options => crate::util::writer(ix, cfg),
                How::NumThreads => ix.writer_with_num_threads(threads, threads * cfg.budget_per_thread()),
                How::Auto => ix.writer(threads * cfg.budget_per_thread()),
                How::ExactMin => ix.writer_with_options(opts(BUDGET_MIN, threads)),
                How::BelowMax => ix.writer_with_options(opts(BUDGET_MAX_EXCL - 1, 1)),
            }
        }
        Spec::Bad(b) => match b {
            Bad::BudgetJustBelowMin => ix.writer_with_options(opts(BUDGET_MIN - 1, 1)),
            Bad::BudgetSmall(n) => ix.writer_with_options(opts((*n as usize) % BUDGET_MIN, 1)),
            Bad::BudgetAtMax => ix.writer_with_options(opts(BUDGET_MAX_EXCL, 1)),
            Bad::BudgetHuge => ix.writer_with_options(opts(usize::MAX / 2, 2)),
            Bad::ZeroThreads => ix.writer_with_options(opts(BUDGET_MIN + 10_000, 0)),
            Bad::SplitBelowMin(t) => {
                let t = (*t as usize).clamp(2, 8);
                ix.writer_with_num_threads(t, t * BUDGET_MIN - 1)
            }
            Bad::AutoBelowMin(n) => ix.writer((*n as usize) % BUDGET_MIN),
            Bad::ZeroThreadsSplit => ix.writer_with_num_threads(0, 4 * BUDGET_MIN),
        },
    }
}

pub fn classify(r: Result<tantivy::Result<IndexWriter>, String>) -> Att {
    match r {
        Err(p) => Att::Panic(p),
        Ok(Ok(w)) => Att::Ok(w),
        Ok(Err(TantivyError::LockFailure(tantivy::directory::error::LockError::LockBusy, _))) => Att::Lock,
        Ok(Err(TantivyError::LockFailure(e, _))) => Att::LockIo(format!("{e:?}")),
        Ok(Err(TantivyError::InvalidArgument(m))) => Att::Invalid(m),
        Ok(Err(e)) => {
            let mut s = format!("{e:?}");
            s.truncate(400);
            Att::Other(s)
        }
    }
}

pub fn attempt(ix: &Index, spec: &Spec) -> Att {
    let r = catch_unwind(AssertUnwindSafe(|| create_raw(ix, spec))).map_err(|p| {
        if let Some(s) = p.downcast_ref::<&str>() {
            s.to_string()
        } else if let Some(s) = p.downcast_ref::<String>() {
            s.clone()
        } else {
            "<panic>".to_string()
        }
    });
    classify(r)
}

// ------------------------------------------------------------------------------------------------
// environment: one directory, three Index handles
#[derive(Clone, Copy, Debug, Serialize, Deserialize, PartialEq, Eq)]
pub enum DirKind {
    Ram,
    Mmap,
    Sim,
}
impl DirKind {
    fn name(self) -> &'static str {
        match self {
            DirKind::Ram => "ram",
            DirKind::Mmap => "mmap",
            DirKind::Sim => "sim",
        }
    }
}
pub const HANDLE_NAMES: [&str; 3] = ["created", "reopened", "cloned"];

pub fn tmp_base() -> PathBuf {
    let root = std::env::var("VERIF_ROOT").unwrap_or_else(|_| "/verif".to_string());
    PathBuf::from(root).join("target").join("tmp")
}
pub fn new_tempdir() -> Result<tempfile::TempDir, Failure> {
    let base = tmp_base();
    std::fs::create_dir_all(&base).or_fail("INFRA:tmp_base")?;
    tempfile::Builder::new().prefix("c18-").tempdir_in(&base).or_fail("INFRA:tempdir")
}
pub fn id_schema() -> (Schema, Field) {
    let mut sb = Schema::builder();
    let id = sb.add_u64_field("id", INDEXED | STORED);
    (sb.build(), id)
}

struct Env {
    kind: DirKind,
    handles: Vec<Index>,
    readers: Vec<Option<IndexReader>>,
    id: Field,
    sim: Option<SimDir>,
    tmp: Option<tempfile::TempDir>,
}
impl Env {
    fn new(kind: DirKind) -> Result<Env, Failure> {
        let (schema, id) = id_schema();
        let mut sim = None;
        let mut tmp = None;
        let (h0, h1) = match kind {
            DirKind::Ram => {
                let d = RamDirectory::create();
                let a = Index::create(d.clone(), schema, Default::default()).or_fail("INFRA:create")?;
                let b = Index::open(d).or_fail("INFRA:open")?;
                (a, b)
            }
            DirKind::Mmap => {
                let t = new_tempdir()?;
                let a = Index::create(MmapDirectory::open(t.path()).or_fail("INFRA:mmap_open")?, schema, Default::default()).or_fail("INFRA:create")?;
                let b = Index::open_in_dir(t.path()).or_fail("INFRA:open")?;
                tmp = Some(t);
                (a, b)
            }
            DirKind::Sim => {
                let d = SimDir::new();
                d.set_logging(false, false);
                let a = Index::create(d.clone(), schema, Default::default()).or_fail("INFRA:create")?;
                let b = Index::open(d.clone()).or_fail("INFRA:open")?;
                sim = Some(d);
                (a, b)
            }
        };
        let h2 = h0.clone();
        Ok(Env { kind, handles: vec![h0, h1, h2], readers: vec![None, None, None], id, sim, tmp })
    }
    fn h(&self, raw: u8) -> usize {
        raw as usize % self.handles.len()
    }
    /// number of committed documents carrying `id`, seen through a (reloaded) reader of handle `h`
    fn count(&mut self, h: usize, id: u64) -> Result<usize, Failure> {
        if self.readers[h].is_none() {
            let r: IndexReader = self.handles[h].reader_builder().reload_policy(ReloadPolicy::Manual).try_into().or_fail("visibility_reader_error")?;
            self.readers[h] = Some(r);
        }
        let r = self.readers[h].as_ref().unwrap();
        r.reload().or_fail("visibility_reader_error")?;
        let q = TermQuery::new(Term::from_field_u64(self.id, id), IndexRecordOption::Basic);
        r.searcher().search(&q, &Count).or_fail("visibility_reader_error")
    }
}

fn doc_with(id_field: Field, id: u64) -> TantivyDocument {
    let mut d = TantivyDocument::default();
    d.add_u64(id_field, id);
    d
}

// ------------------------------------------------------------------------------------------------
#[derive(Clone, Debug, Serialize, Deserialize)]
pub enum Op {
    Create { h: u8, how: How, threads: u8 },
    CreateBad { h: u8, bad: Bad },
    Rollback { pending: u8 },
    Drop,
    WaitMerge,
    AddCommit { docs: u8 },
    /// kill the holder by an I/O error in an indexing worker (SimDir: fault rule on the n-th storage
    /// operation of kind `kind` issued by an indexing thread; MmapDirectory: the directory is moved away
    /// while the worker opens its segment files); `then_add`: call add_document on the dead writer
    /// `by_commit`: the failure is observed through commit() (which joins the failed worker); otherwise through
    /// add_document starting to fail, so that the failed worker is still un-joined when the writer is dropped
    Kill { kind: u8, nth: u8, docs: u8, then_add: bool, by_commit: bool },
    /// concurrent creation attempts: (handle, spec) per thread
    Race { specs: Vec<(u8, Spec)> },
    /// n threads keep attempting while the holder rolls back
    RollbackRace { n: u8, pending: u8 },
    /// n threads keep attempting while the holder is dropped (or consumed by wait_merging_threads)
    DropRace { n: u8, wait: bool },
}
#[derive(Clone, Debug, Serialize, Deserialize)]
pub struct Step {
    pub op: Op,
    /// handle used for the automatic attempt made after the step while the model says `held`, and for the
    /// visibility reader
    pub probe: u8,
}
#[derive(Clone, Debug, Serialize, Deserialize)]
pub struct LifeCase {
    pub dir: DirKind,
    pub steps: Vec<Step>,
}

struct Holder {
    w: IndexWriter,
    handle: usize,
    killed: bool,
    /// killed, and no commit / rollback has joined the failed worker thread yet
    unjoined: bool,
    revived: bool,
    /// last event in the holder's life: created | rollback | killed | revived | race_won
    ctx: &'static str,
}

struct Life<'a, 'b> {
    env: Env,
    holder: Option<Holder>,
    next_id: u64,
    /// why the lock is free right now
    free_cause: &'static str,
    cx: &'a Ctx<'b>,
    nontrivial: bool,
}

const KILL_KINDS: [K; 4] = [K::Create, K::Append, K::Flush, K::Terminate];

impl<'a, 'b> Life<'a, 'b> {
    fn lab(&self, l: &str) {
        self.cx.label(l);
        self.cx.label(&format!("{l}@{}", self.env.kind.name()));
    }
    fn fresh_id(&mut self) -> u64 {
        self.next_id += 1;
        self.next_id
    }

    /// judges one sequential attempt with a valid spec against the model
    fn judge_valid_attempt(&mut self, h: usize, spec: &Spec, auto: bool) -> CaseResult {
        let att = attempt(&self.env.handles[h], spec);
        self.cx.evals(if auto { 1 } else { 0 });
        let held: Option<(usize, &'static str, bool)> = self.holder.as_ref().map(|hd| (hd.handle, hd.ctx, hd.killed));
        match (held, att) {
            (None, Att::Ok(w)) => {
                self.lab(&format!("create_after:{}", self.free_cause));
                if self.free_cause == "failed_construction" || self.free_cause == "race_without_winner" {
                    self.nontrivial = true;
                }
                if let Spec::Valid { how, threads } = spec {
                    self.cx.label(&format!("create_how:{how:?}"));
                    self.cx.label_if(threads_of(*threads) >= 2 && matches!(how, How::Options | How::NumThreads | How::Auto | How::ExactMin), "create_threads>=2");
                }
                self.holder = Some(Holder { w, handle: h, killed: false, unjoined: false, revived: false, ctx: "created" });
                Ok(())
            }
            (None, Att::Other(e)) if e.contains("Failed to spawn") || e.contains("Resource temporarily unavailable") => {
                // thread exhaustion of the test machine, not a statement about the lock
                fail!("INFRA:thread_spawn", "{e}")
            }
            (None, att) => {
                let what = if att.is_lock() { "create_refused_although_free" } else { "create_failed_although_free" };
                fail!(format!("{what}:{}", self.free_cause), "dir {:?} handle {} spec {spec:?}: {} (lock is free because of: {})", self.env.kind, HANDLE_NAMES[h], att.short(), self.free_cause)
            }
            (Some((hh, ctx, killed)), Att::Ok(_w2)) => {
                fail!(
                    format!("second_writer_created:{ctx}"),
                    "dir {:?}: a second IndexWriter was created on handle {} while the writer created on handle {} is alive (holder state: {ctx}, killed={killed})",
                    self.env.kind,
                    HANDLE_NAMES[h],
                    HANDLE_NAMES[hh]
                )
            }
            (Some((hh, ctx, _)), att) if att.is_lock() => {
                let rel = if h == hh {
                    "same_handle"
                } else if (h == 0 && hh == 2) || (h == 2 && hh == 0) {
                    "cloned_handle"
                } else {
                    "other_directory_instance"
                };
                if ctx == "rollback" || ctx == "revived" {
                    self.nontrivial = true;
                }
                self.lab(&format!("attempt_while_held:{rel}"));
                self.lab(&format!("attempt_after:{ctx}"));
                if matches!(att, Att::LockIo(_)) {
                    self.lab("lock_failure_is_io_error");
                }
                Ok(())
            }
            (Some((_, ctx, _)), att) => {
                fail!("wrong_error_while_held", "dir {:?}: attempt on handle {} while held (holder {ctx}): {}", self.env.kind, HANDLE_NAMES[h], att.short())
            }
        }
    }

    fn judge_bad_attempt(&mut self, h: usize, bad: Bad) -> CaseResult {
        let att = attempt(&self.env.handles[h], &Spec::Bad(bad));
        let held = self.holder.is_some();
        match att {
            Att::Ok(w) => {
                // which options are invalid is not C18's subject: a writer that does get constructed is judged as
                // any other creation (it must not coexist with another one, and it now holds the lock)
                if let Some(hd) = self.holder.as_ref() {
                    fail!(format!("second_writer_created:{}", hd.ctx), "dir {:?}: {bad:?} produced a second writer while one is alive", self.env.kind);
                }
                self.lab(&format!("documented_invalid_options_accepted:{}", bad.name()));
                self.holder = Some(Holder { w, handle: h, killed: false, unjoined: false, revived: false, ctx: "created" });
            }
            Att::Invalid(_) => {
                if held {
                    self.lab("bad_while_held:invalid_argument");
                } else {
                    self.lab(&format!("bad_while_free:{}", bad.name()));
                    self.free_cause = "failed_construction";
                }
            }
            Att::Panic(m) => {
                ensure!(bad == Bad::ZeroThreadsSplit, "panic_in_writer_creation", "{bad:?}: {m}");
                if !held {
                    self.lab(&format!("bad_while_free:{}", bad.name()));
                    self.free_cause = "failed_construction";
                }
            }
            a if a.is_lock() => {
                ensure!(held, format!("lock_failure_although_free:{}", self.free_cause), "dir {:?}: {bad:?} -> {}", self.env.kind, a.short());
                self.lab("bad_while_held:lock_failure");
            }
            a => fail!("bad_options_unexpected_error", "dir {:?}: {bad:?} -> {}", self.env.kind, a.short()),
        }
        Ok(())
    }

    /// the holder adds `docs` documents and commits; everything must succeed and be visible through `probe`
    fn holder_commit(&mut self, docs: u8, probe: usize, what: &str) -> CaseResult {
        let ids: Vec<u64> = (0..docs.max(1)).map(|_| self.fresh_id()).collect();
        let id_field = self.env.id;
        let kind = self.env.kind;
        let Some(mut hd) = self.holder.take() else { return Ok(()) };
        if hd.killed {
            // nothing is required of a dead writer except that it keeps the lock
            let a = hd.w.add_document(doc_with(id_field, ids[0])).is_ok();
            let c = hd.w.commit().is_ok();
            hd.unjoined = false;
            self.holder = Some(hd);
            self.lab(&format!("dead_writer_add_{}_commit_{}", if a { "ok" } else { "err" }, if c { "ok" } else { "err" }));
            if a && c {
                // observation only (C11's subject): both calls reported success on a writer whose worker died
                let n = self.env.count(probe, ids[0])?;
                self.cx.label(if n == 1 { "dead_writer_acknowledged_doc:visible" } else { "dead_writer_acknowledged_doc:LOST" });
            }
            return Ok(());
        }
        let strict = !hd.revived;
        let mut ok = true;
        let mut detail = String::new();
        for id in &ids {
            if let Err(e) = hd.w.add_document(doc_with(id_field, *id)) {
                ok = false;
                detail = format!("add_document: {e:?}");
                break;
            }
        }
        if ok {
            if let Err(e) = hd.w.commit() {
                ok = false;
                detail = format!("commit: {e:?}");
            }
        }
        let ctx = hd.ctx;
        self.holder = Some(hd);
        if !ok {
            if strict {
                fail!(format!("holder_disturbed:{what}"), "dir {kind:?}: the live writer (state {ctx}) failed: {detail}");
            }
            self.lab("revived_writer_commit_err");
            return Ok(());
        }
        for id in &ids {
            let n = self.env.count(probe, *id)?;
            if n != 1 {
                if strict {
                    fail!(format!("holder_commit_not_visible:{what}"), "dir {kind:?}: document {id} committed by the holder (state {ctx}) is seen {n} times through handle {}", HANDLE_NAMES[probe]);
                }
                self.lab("revived_writer_commit_invisible");
                return Ok(());
            }
        }
        self.lab(if strict { "holder_commit_visible" } else { "revived_writer_commit_visible" });
        Ok(())
    }

    fn step(&mut self, st: &Step) -> CaseResult {
        let probe = self.env.h(st.probe);
        match &st.op {
            Op::Create { h, how, threads } => {
                let h = self.env.h(*h);
                self.judge_valid_attempt(h, &Spec::Valid { how: *how, threads: *threads }, false)?;
            }
            Op::CreateBad { h, bad } => {
                let h = self.env.h(*h);
                self.judge_bad_attempt(h, *bad)?;
            }
            Op::Rollback { pending } => {
                let ids: Vec<u64> = (0..*pending).map(|_| self.fresh_id()).collect();
                let id_field = self.env.id;
                let kind = self.env.kind;
                if let Some(mut hd) = self.holder.take() {
                    for id in &ids {
                        let r = hd.w.add_document(doc_with(id_field, *id));
                        if !hd.killed && !hd.revived {
                            r.or_fail("holder_disturbed:add_before_rollback")?;
                        }
                    }
                    let r = hd.w.rollback();
                    if hd.killed {
                        match r {
                            Ok(_) => {
                                hd.killed = false;
                                hd.unjoined = false;
                                hd.revived = true;
                                hd.ctx = "revived";
                                self.lab("rollback_of_dead_writer:ok");
                            }
                            Err(_) => self.lab("rollback_of_dead_writer:err"),
                        }
                    } else {
                        if let Err(e) = r {
                            fail!("rollback_failed", "dir {kind:?}: rollback of a live writer: {e:?}");
                        }
                        if !hd.revived {
                            hd.ctx = "rollback";
                        }
                        self.lab("rollback");
                    }
                    self.holder = Some(hd);
                } else {
                    self.cx.label("noop:rollback_without_writer");
                }
            }
            Op::Drop => {
                if let Some(hd) = self.holder.take() {
                    self.free_cause = match (hd.killed, hd.unjoined) {
                        (true, true) => "killed_unjoined_drop",
                        (true, false) => "killed_drop",
                        _ => "drop",
                    };
                    drop(hd);
                } else {
                    self.cx.label("noop:drop_without_writer");
                }
            }
            Op::WaitMerge => {
                if let Some(hd) = self.holder.take() {
                    let killed = hd.killed;
                    let unjoined = hd.unjoined;
                    let r = hd.w.wait_merging_threads();
                    if !killed {
                        if let Err(e) = r {
                            fail!("wait_merging_threads_failed", "dir {:?}: {e:?}", self.env.kind);
                        }
                    }
                    self.free_cause = match (killed, unjoined) {
                        (true, true) => "killed_unjoined_wait_merge",
                        (true, false) => "killed_wait_merge",
                        _ => "wait_merge",
                    };
                } else {
                    self.cx.label("noop:wait_without_writer");
                }
            }
            Op::AddCommit { docs } => {
                if self.holder.is_some() {
                    self.holder_commit(*docs, probe, "add_commit")?;
                } else {
                    self.cx.label("noop:commit_without_writer");
                }
            }
            Op::Kill { kind, nth, docs, then_add, by_commit } => self.kill(*kind, *nth, *docs, *then_add, *by_commit)?,
            Op::Race { specs } => self.race(specs)?,
            Op::RollbackRace { n, pending } => self.rollback_race(*n, *pending)?,
            Op::DropRace { n, wait } => self.drop_race(*n, *wait)?,
        }
        // while a writer object exists, every further attempt must fail with a lock error
        if self.holder.is_some() {
            self.judge_valid_attempt(probe, &Spec::plain(), true)?;
        }
        Ok(())
    }

    fn kill(&mut self, kind: u8, nth: u8, docs: u8, then_add: bool, by_commit: bool) -> CaseResult {
        let ids: Vec<u64> = (0..docs.max(1)).map(|_| self.fresh_id()).collect();
        let id_field = self.env.id;
        let dir_kind = self.env.kind;
        match self.holder.as_ref() {
            None => {
                self.cx.label("noop:kill_without_writer");
                return Ok(());
            }
            Some(hd) if hd.killed => {
                self.cx.label("noop:kill_of_dead_writer");
                return Ok(());
            }
            _ => {}
        }
        if dir_kind == DirKind::Ram {
            self.cx.label("noop:kill_unavailable_on_ram");
            return Ok(());
        }
        let mut hd = self.holder.take().unwrap();
        let k = KILL_KINDS[kind as usize % KILL_KINDS.len()];
        let mut moved: Option<(PathBuf, PathBuf)> = None;
        let fired_before = self.env.sim.as_ref().map(|s| s.faults_fired()).unwrap_or(0);
        match dir_kind {
            DirKind::Ram => unreachable!(),
            DirKind::Sim => {
                let rule = FaultRule { kinds: vec![k], thread: "thrd-tantivy-index".into(), path_suffix: String::new(), nth: nth as usize, permanent: true, locks: false };
                self.env.sim.as_ref().unwrap().set_faults(vec![rule]);
            }
            DirKind::Mmap => {
                let p = self.env.tmp.as_ref().unwrap().path().to_path_buf();
                let mut away = p.clone().into_os_string();
                away.push(".away");
                let away = PathBuf::from(away);
                std::fs::rename(&p, &away).or_fail("INFRA:rename_away")?;
                moved = Some((p, away));
            }
        }
        let mut add_failed = false;
        for id in &ids {
            if hd.w.add_document(doc_with(id_field, *id)).is_err() {
                add_failed = true;
            }
        }
        // observe the death of the worker either through add_document starting to fail (the pauses only pace the
        // polling; if the worker is still alive after them the commit below decides) or through commit()
        let mut seen_by_add = false;
        if !by_commit {
            for _ in 0..400 {
                if hd.w.add_document(doc_with(id_field, ids[0])).is_err() {
                    seen_by_add = true;
                    break;
                }
                std::thread::sleep(std::time::Duration::from_micros(100));
            }
        }
        let committed = if seen_by_add { Err(TantivyError::InternalError("not committed".into())) } else { hd.w.commit() };
        let mut fired = true;
        if let Some(sim) = self.env.sim.as_ref() {
            sim.clear_faults();
            fired = sim.faults_fired() > fired_before;
        }
        if let Some((p, away)) = moved {
            std::fs::rename(&away, &p).or_fail("INFRA:rename_back")?;
        }
        if committed.is_ok() && !add_failed && !fired {
            // the fault position was never reached: the writer is alive and the documents are committed
            self.holder = Some(hd);
            self.lab("kill_missed");
            return Ok(());
        }
        // from here on nothing but "keeps the lock until dropped" is required of this writer
        hd.killed = true;
        hd.unjoined = seen_by_add;
        hd.ctx = "killed";
        self.cx.label(if seen_by_add { "kill_seen_by:add_document" } else { "kill_seen_by:commit" });
        if committed.is_ok() {
            // an injected worker error that commit() did not report is C11's subject, not C18's
            self.lab("kill_fault_not_reported_by_commit");
        }
        let kind_name = if dir_kind == DirKind::Sim { format!("{k:?}") } else { "dir_moved".to_string() };
        if then_add {
            let r = hd.w.add_document(doc_with(id_field, ids[0]));
            self.cx.label(if r.is_ok() { "dead_writer_add:ok" } else { "dead_writer_add:err" });
        }
        self.holder = Some(hd);
        self.lab("kill_fired");
        self.cx.label(&format!("kill_fired:{kind_name}"));
        Ok(())
    }

    fn race(&mut self, specs: &[(u8, Spec)]) -> CaseResult {
        let n = specs.len();
        let handles = &self.env.handles;
        let barrier = Barrier::new(n);
        let results: Vec<Att> = std::thread::scope(|s| {
            let hs: Vec<_> = specs
                .iter()
                .enumerate()
                .map(|(i, (h, spec))| {
                    let ix = &handles[*h as usize % handles.len()];
                    let barrier = &barrier;
                    std::thread::Builder::new()
                        .name(format!("ctl-race-{i}"))
                        .spawn_scoped(s, move || {
                            barrier.wait();
                            attempt(ix, spec)
                        })
                        .expect("spawn")
                })
                .collect();
            hs.into_iter().map(|h| h.join().unwrap_or_else(|_| Att::Panic("race thread".into()))).collect()
        });
        self.cx.evals(n as u64);
        self.nontrivial = true;
        let held = self.holder.is_some();
        let any_bad = specs.iter().any(|(_, s)| s.is_bad());
        let summary: Vec<String> = results.iter().map(|a| a.short()).collect();
        let mut winners: Vec<(usize, IndexWriter)> = vec![];
        for (i, att) in results.into_iter().enumerate() {
            let (h, spec) = &specs[i];
            match att {
                Att::Ok(w) => {
                    if let Spec::Bad(b) = spec {
                        self.cx.label(&format!("documented_invalid_options_accepted:{}", b.name()));
                    }
                    winners.push((self.env.h(*h), w));
                }
                a if a.is_lock() => {}
                Att::Invalid(_) if spec.is_bad() => {}
                Att::Panic(_) if *spec == Spec::Bad(Bad::ZeroThreadsSplit) => {}
                a => fail!("race_unexpected_error", "dir {:?} thread {i} {spec:?}: {} (all: {summary:?})", self.env.kind, a.short()),
            }
        }
        if held {
            let ctx = self.holder.as_ref().unwrap().ctx;
            ensure!(winners.is_empty(), format!("second_writer_created:race_while_{ctx}"), "dir {:?}: {} of {n} racing attempts succeeded while a writer is alive: {summary:?}", self.env.kind, winners.len());
            self.lab("race_held");
        } else {
            ensure!(winners.len() <= 1, "race_several_winners", "dir {:?}: {} of {n} concurrent attempts produced a writer: {summary:?}", self.env.kind, winners.len());
            if !any_bad {
                ensure!(winners.len() == 1, format!("race_no_winner:{}", self.free_cause), "dir {:?}: none of {n} concurrent valid attempts succeeded although the lock was free ({}): {summary:?}", self.env.kind, self.free_cause);
                self.lab("race_free_valid");
            } else {
                self.lab(if winners.is_empty() { "race_free_mixed:no_winner" } else { "race_free_mixed:one_winner" });
            }
            self.cx.label(&format!("race_threads:{n}"));
            match winners.pop() {
                Some((h, w)) => self.holder = Some(Holder { w, handle: h, killed: false, unjoined: false, revived: false, ctx: "race_won" }),
                None => self.free_cause = "race_without_winner",
            }
        }
        Ok(())
    }

    fn rollback_race(&mut self, n: u8, pending: u8) -> CaseResult {
        let ids: Vec<u64> = (0..pending).map(|_| self.fresh_id()).collect();
        let id_field = self.env.id;
        let dir_kind = self.env.kind;
        let Some(mut hd) = self.holder.take() else {
            self.cx.label("noop:rollback_race_without_writer");
            return Ok(());
        };
        let handles = &self.env.handles;
        let n = (n as usize).clamp(1, 6);
        let done = AtomicBool::new(false);
        let barrier = Barrier::new(n + 1);
        let was_dead = hd.killed;
        let (rb, bad): (tantivy::Result<u64>, Vec<String>) = std::thread::scope(|s| {
            let ths: Vec<_> = (0..n)
                .map(|i| {
                    let ix = &handles[i % handles.len()];
                    let (done, barrier) = (&done, &barrier);
                    std::thread::Builder::new()
                        .name(format!("ctl-race-{i}"))
                        .spawn_scoped(s, move || {
                            let mut bad: Vec<String> = vec![];
                            let mut tries = 0u32;
                            barrier.wait();
                            loop {
                                let finished = done.load(Ordering::SeqCst);
                                let att = attempt(ix, &Spec::plain());
                                tries += 1;
                                if !att.is_lock() {
                                    bad.push(att.short());
                                    // a writer obtained here is dropped at once
                                }
                                if (finished && tries >= 3) || bad.len() > 3 {
                                    break;
                                }
                                // only paces the attempts (keeps 60 busy threads off the 16 cores); no verdict depends on it
                                std::thread::sleep(std::time::Duration::from_micros(20));
                            }
                            bad
                        })
                        .expect("spawn")
                })
                .collect();
            barrier.wait();
            for id in &ids {
                let _ = hd.w.add_document(doc_with(id_field, *id));
            }
            let rb = hd.w.rollback();
            done.store(true, Ordering::SeqCst);
            let bad = ths.into_iter().flat_map(|t| t.join().unwrap_or_else(|_| vec!["race thread panicked".into()])).collect();
            (rb, bad)
        });
        self.nontrivial = true;
        ensure!(bad.is_empty(), "second_writer_created:during_rollback", "dir {dir_kind:?}: attempts made while the holder was rolling back did not fail with a lock error: {bad:?}");
        match rb {
            Ok(_) => {
                if was_dead {
                    hd.killed = false;
                    hd.unjoined = false;
                    hd.revived = true;
                    hd.ctx = "revived";
                } else if !hd.revived {
                    hd.ctx = "rollback";
                }
            }
            Err(e) => ensure!(was_dead, "rollback_failed", "dir {dir_kind:?}: rollback of a live writer (attempts racing): {e:?}"),
        }
        self.holder = Some(hd);
        self.lab("rollback_race");
        Ok(())
    }

    fn drop_race(&mut self, n: u8, wait: bool) -> CaseResult {
        let dir_kind = self.env.kind;
        let Some(mut hd) = self.holder.take() else {
            self.cx.label("noop:drop_race_without_writer");
            return Ok(());
        };
        // wait_merging_threads with a merge really in progress (SimDir: the merge thread is held at its first file):
        // the writer exists, and keeps its lock, until the call returns
        let mut merge_gate: Option<(SimDir, usize)> = None;
        if wait && !hd.killed {
            if let Some(sd) = self.env.sim.clone() {
                let id_field = self.env.id;
                let mut ok = true;
                for _ in 0..2 {
                    let id = self.fresh_id();
                    ok &= hd.w.add_document(doc_with(id_field, id)).is_ok() && hd.w.commit().is_ok();
                }
                let ids = self.env.handles[hd.handle].searchable_segment_ids().unwrap_or_default();
                if ok && ids.len() >= 2 {
                    let g = sd.add_gate(crate::simdir::GateSpec { thread: "merge_thread".into(), kind: Some(crate::simdir::K::Create), path_suffix: String::new(), nth: 0, max_hold: std::time::Duration::from_millis(120) });
                    let _merge_future = hd.w.merge(&ids);
                    if sd.wait_reached(g, std::time::Duration::from_millis(100)) {
                        merge_gate = Some((sd, g));
                    } else {
                        sd.disarm(g);
                    }
                }
            }
        }
        let merge_gate = &merge_gate;
        let handles = &self.env.handles;
        let n = (n as usize).clamp(1, 6);
        let done = AtomicBool::new(false);
        let barrier = Barrier::new(n + 1);
        let killed = hd.killed;
        // every thread attempts until it wins or has failed once after the drop completed: exactly one wins
        let won_during_merge = AtomicBool::new(false);
        let won_during_merge = &won_during_merge;
        let results: Vec<(usize, Option<IndexWriter>, Vec<String>)> = std::thread::scope(|s| {
            let ths: Vec<_> = (0..n)
                .map(|i| {
                    let h = (i + 1) % handles.len();
                    let ix = &handles[h];
                    let (done, barrier) = (&done, &barrier);
                    std::thread::Builder::new()
                        .name(format!("ctl-race-{i}"))
                        .spawn_scoped(s, move || {
                            let mut bad = vec![];
                            barrier.wait();
                            loop {
                                let finished = done.load(Ordering::SeqCst);
                                match attempt(ix, &Spec::plain()) {
                                    Att::Ok(w) => {
                                        // still held now => it was held when the creation succeeded: the previous
                                        // writer cannot have returned from wait_merging_threads yet
                                        if let Some((sd, g)) = merge_gate {
                                            if sd.gate_pending(*g) {
                                                won_during_merge.store(true, Ordering::SeqCst);
                                            }
                                        }
                                        return (h, Some(w), bad);
                                    }
                                    a if a.is_lock() => {}
                                    a => bad.push(a.short()),
                                }
                                if finished || bad.len() > 3 {
                                    return (h, None, bad);
                                }
                                std::thread::sleep(std::time::Duration::from_micros(20));
                            }
                        })
                        .expect("spawn")
                })
                .collect();
            barrier.wait();
            if wait {
                let _ = hd.w.wait_merging_threads();
            } else {
                drop(hd);
            }
            done.store(true, Ordering::SeqCst);
            ths.into_iter().map(|t| t.join().unwrap_or_else(|_| (0, None, vec!["race thread panicked".into()]))).collect()
        });
        self.nontrivial = true;
        if let Some((sd, g)) = merge_gate {
            sd.disarm(*g);
            self.lab("drop_race:wait_merge_with_merge_in_progress");
        }
        ensure!(
            !won_during_merge.load(Ordering::SeqCst),
            "writer_created_while_previous_waits_for_merges",
            "dir {dir_kind:?}: a second writer was created while the first one was inside wait_merging_threads with its merge thread still at work"
        );
        let bad: Vec<String> = results.iter().flat_map(|r| r.2.clone()).collect();
        ensure!(bad.is_empty(), "race_unexpected_error", "dir {dir_kind:?}: attempts racing a drop: {bad:?}");
        let mut winners: Vec<(usize, IndexWriter)> = results.into_iter().filter_map(|(h, w, _)| w.map(|w| (h, w))).collect();
        ensure!(winners.len() <= 1, "race_several_winners", "dir {dir_kind:?}: {} threads obtained a writer around a drop", winners.len());
        ensure!(
            winners.len() == 1,
            format!("create_refused_although_free:{}", if wait { "wait_merge" } else { "drop" }),
            "dir {dir_kind:?}: every one of {n} threads failed once more after the holder (killed={killed}) had been {}",
            if wait { "consumed by wait_merging_threads" } else { "dropped" }
        );
        let (h, w) = winners.pop().unwrap();
        self.holder = Some(Holder { w, handle: h, killed: false, unjoined: false, revived: false, ctx: "race_won" });
        self.lab(if wait { "drop_race:wait_merge" } else { "drop_race:drop" });
        Ok(())
    }

    fn finish(&mut self, salt: usize) -> CaseResult {
        // the surviving holder still works
        if self.holder.is_some() {
            self.holder_commit(1, (salt + 1) % 3, "final")?;
        }
        if let Some(hd) = self.holder.take() {
            self.free_cause = if hd.killed { "killed_drop" } else { "drop" };
            drop(hd);
        }
        // a new writer can always be opened afterwards, through every handle; the one opened through handle
        // `salt % 3` is also used (commit + visibility through another handle)
        for h in 0..self.env.handles.len() {
            self.judge_valid_attempt(h, &Spec::plain(), false)?;
            if h == salt % 3 {
                self.holder_commit(1, (h + 1) % 3, "final")?;
            }
            let hd = self.holder.take().unwrap();
            drop(hd);
            self.free_cause = "drop";
        }
        Ok(())
    }
}

pub struct Lifecycle;

fn valid_spec_strategy() -> impl Strategy<Value = (How, u8)> {
    (prop_oneof![6 => Just(How::Options), 3 => Just(How::NumThreads), 2 => Just(How::Auto), 1 => Just(How::ExactMin), 1 => Just(How::BelowMax)], 1u8..=3)
}
fn bad_strategy() -> impl Strategy<Value = Bad> {
    prop_oneof![
        3 => Just(Bad::BudgetJustBelowMin),
        2 => any::<u32>().prop_map(Bad::BudgetSmall),
        1 => Just(Bad::BudgetSmall(0)),
        3 => Just(Bad::BudgetAtMax),
        1 => Just(Bad::BudgetHuge),
        3 => Just(Bad::ZeroThreads),
        2 => (2u8..=8).prop_map(Bad::SplitBelowMin),
        1 => any::<u32>().prop_map(Bad::AutoBelowMin),
        1 => Just(Bad::ZeroThreadsSplit),
    ]
}
fn op_strategy() -> impl Strategy<Value = Op> {
    let race_spec = prop_oneof![
        5 => valid_spec_strategy().prop_map(|(how, threads)| Spec::Valid { how, threads }),
        1 => bad_strategy().prop_map(Spec::Bad),
    ];
    let valid_only = valid_spec_strategy().prop_map(|(how, threads)| Spec::Valid { how, threads });
    prop_oneof![
        8 => (0u8..3, valid_spec_strategy()).prop_map(|(h, (how, threads))| Op::Create { h, how, threads }),
        4 => (0u8..3, bad_strategy()).prop_map(|(h, bad)| Op::CreateBad { h, bad }),
        4 => (0u8..3).prop_map(|pending| Op::Rollback { pending }),
        4 => Just(Op::Drop),
        2 => Just(Op::WaitMerge),
        3 => (1u8..3).prop_map(|docs| Op::AddCommit { docs }),
        4 => (0u8..4, 0u8..6, 1u8..3, any::<bool>(), any::<bool>()).prop_map(|(kind, nth, docs, then_add, by_commit)| Op::Kill { kind, nth, docs, then_add, by_commit }),
        2 => prop::collection::vec((0u8..3, valid_only), 2..=8).prop_map(|specs| Op::Race { specs }),
        1 => prop::collection::vec((0u8..3, race_spec), 2..=8).prop_map(|specs| Op::Race { specs }),
        2 => (1u8..=4, 0u8..3).prop_map(|(n, pending)| Op::RollbackRace { n, pending }),
        2 => (1u8..=4, any::<bool>()).prop_map(|(n, wait)| Op::DropRace { n, wait }),
    ]
}

impl Sub for Lifecycle {
    type Case = LifeCase;
    fn name(&self) -> &'static str {
        "lifecycle"
    }
    fn cases(&self, tier: Tier) -> u32 {
        tier.pick(3000, 24000)
    }
    fn shards(&self, _tier: Tier) -> usize {
        10
    }
    fn max_shrink_iters(&self) -> u32 {
        600
    }
    fn strategy(&self, tier: Tier) -> BoxedStrategy<LifeCase> {
        let dir = match std::env::var("TVV_C18_DIR").ok().as_deref() {
            // debugging knob only (makes the mandatory classes of the other directories empty -> exit 2)
            Some("ram") => Just(DirKind::Ram).boxed(),
            Some("mmap") => Just(DirKind::Mmap).boxed(),
            Some("sim") => Just(DirKind::Sim).boxed(),
            _ => prop_oneof![3 => Just(DirKind::Ram), 3 => Just(DirKind::Mmap), 4 => Just(DirKind::Sim)].boxed(),
        };
        let step = (op_strategy(), 0u8..3).prop_map(|(op, probe)| Step { op, probe });
        (dir, prop::collection::vec(step, 1..tier.pick(21, 41))).prop_map(|(dir, steps)| LifeCase { dir, steps }).boxed()
    }
    fn mandatory_labels(&self, _t: Tier) -> Vec<&'static str> {
        vec![
            "attempt_after:rollback@ram",
            "attempt_after:rollback@mmap",
            "attempt_after:rollback@sim",
            "attempt_after:killed@sim",
            "attempt_after:killed@mmap",
            "attempt_after:revived",
            "attempt_after:race_won",
            "attempt_while_held:same_handle",
            "attempt_while_held:cloned_handle",
            "attempt_while_held:other_directory_instance@mmap",
            "attempt_while_held:other_directory_instance@ram",
            "create_after:failed_construction@ram",
            "create_after:failed_construction@mmap",
            "create_after:failed_construction@sim",
            "create_after:drop@mmap",
            "create_after:drop@sim",
            "create_after:wait_merge@ram",
            "create_after:wait_merge@mmap",
            "create_after:killed_drop@sim",
            "create_after:killed_drop@mmap",
            "create_after:killed_wait_merge",
            "create_after:killed_unjoined_drop@sim",
            "create_after:killed_unjoined_drop@mmap",
            "create_after:killed_unjoined_wait_merge",
            "bad_while_free:budget_min-1",
            "bad_while_free:budget_at_max",
            "bad_while_free:zero_threads",
            "bad_while_free:split_below_min",
            "create_how:ExactMin",
            "create_how:BelowMax",
            "create_how:Auto",
            "create_threads>=2",
            "race_free_valid@ram",
            "race_free_valid@mmap",
            "race_free_valid@sim",
            "race_held@mmap",
            "race_threads:8",
            "rollback_race@ram",
            "rollback_race@mmap",
            "rollback_race@sim",
            "drop_race:drop@mmap",
            "drop_race:wait_merge",
            "drop_race:wait_merge_with_merge_in_progress@sim",
            "kill_fired@sim",
            "kill_fired@mmap",
            "holder_commit_visible@mmap",
        ]
    }
    fn run(&self, c: &LifeCase, cx: &Ctx) -> CaseResult {
        let env = Env::new(c.dir)?;
        let mut life = Life { env, holder: None, next_id: 0, free_cause: "initial", cx, nontrivial: false };
        let mut r = Ok(());
        let timing = std::env::var("TVV_C18_TIMING").is_ok();
        for st in &c.steps {
            let t0 = std::time::Instant::now();
            r = life.step(st);
            if timing {
                let name = format!("{:?}", st.op);
                let name = name.split([' ', '{', '(']).next().unwrap_or("").to_string();
                cx.count(&format!("us:{name}"), t0.elapsed().as_micros() as u64);
                cx.count(&format!("n:{name}"), 1);
            }
            if r.is_err() {
                break;
            }
        }
        if r.is_ok() {
            let t0 = std::time::Instant::now();
            r = life.finish(c.steps.len());
            if timing {
                cx.count("us:finish", t0.elapsed().as_micros() as u64);
                cx.count("n:finish", 1);
            }
        }
        // writers first, then readers / handles, then the temp dir (drop order of `life`'s fields is holder last
        // otherwise): make it explicit
        let nontrivial = life.nontrivial;
        drop(life.holder.take());
        drop(life);
        r?;
        cx.label(&format!("dir:{}", c.dir.name()));
        if nontrivial {
            cx.nontrivial(fp(c));
        }
        cx.sample(|| json!({"sub":"lifecycle","dir":c.dir,"steps":c.steps.iter().take(8).collect::<Vec<_>>()}));
        Ok(())
    }
}

// ------------------------------------------------------------------------------------------------
// rollback whose replacement writer cannot be constructed
#[derive(Clone, Debug, Serialize, Deserialize)]
pub struct RollbackFaultCase {
    pub threads: u8,
    pub commits: u8,
    pub pending: u8,
    /// which read of meta.json (0-based, counted from the start of the rollback) fails
    pub nth: u8,
    pub permanent: bool,
    pub probe: u8,
}
pub struct RollbackFault;
/// signature of the finding "a rollback that fails releases the lock although the writer stays alive"
pub const FAILED_ROLLBACK: &str = "second_writer_created:after_failed_rollback";
impl Sub for RollbackFault {
    type Case = RollbackFaultCase;
    fn name(&self) -> &'static str {
        "rollback_fault"
    }
    fn cases(&self, tier: Tier) -> u32 {
        tier.pick(300, 4000)
    }
    fn shards(&self, _tier: Tier) -> usize {
        8
    }
    fn strategy(&self, _tier: Tier) -> BoxedStrategy<RollbackFaultCase> {
        (1u8..=3, 0u8..3, 0u8..3, 0u8..5, any::<bool>(), 0u8..3)
            .prop_map(|(threads, commits, pending, nth, permanent, probe)| RollbackFaultCase { threads, commits, pending, nth, permanent, probe })
            .boxed()
    }
    fn mandatory_labels(&self, _t: Tier) -> Vec<&'static str> {
        vec!["rollback_failed_by_fault", "rollback_unaffected"]
    }
    fn run(&self, c: &RollbackFaultCase, cx: &Ctx) -> CaseResult {
        let mut env = Env::new(DirKind::Sim)?;
        let sim = env.sim.clone().unwrap();
        let id_field = env.id;
        let probe = env.h(c.probe);
        let mut w = match attempt(&env.handles[0], &Spec::Valid { how: How::Options, threads: c.threads }) {
            Att::Ok(w) => w,
            a => fail!("create_failed_although_free:initial", "{}", a.short()),
        };
        let mut id = 0u64;
        for _ in 0..c.commits {
            id += 1;
            w.add_document(doc_with(id_field, id)).or_fail("holder_disturbed:add_commit")?;
            w.commit().or_fail("holder_disturbed:add_commit")?;
        }
        for _ in 0..c.pending {
            id += 1;
            w.add_document(doc_with(id_field, id)).or_fail("holder_disturbed:add_before_rollback")?;
        }
        sim.set_faults(vec![FaultRule { kinds: vec![K::AtomicRead], thread: String::new(), path_suffix: "meta.json".into(), nth: c.nth as usize, permanent: c.permanent, locks: false }]);
        let r = w.rollback();
        sim.clear_faults();
        let failed = r.is_err();
        cx.label(if failed { "rollback_failed_by_fault" } else { "rollback_unaffected" });
        // the writer object is alive in both cases: the lock must still be held
        let mut tolerated = false;
        for k in 0..2u8 {
            let h = (probe + k as usize) % 3;
            match attempt(&env.handles[h], &Spec::plain()) {
                a if a.is_lock() => {}
                Att::Ok(_) if failed && cx.known_open(FAILED_ROLLBACK) => {
                    // open known finding: tolerated and counted, the rest of the case is still judged
                    cx.excluded(FAILED_ROLLBACK, 1);
                    tolerated = true;
                }
                Att::Ok(_) => fail!(
                    if failed { FAILED_ROLLBACK } else { "second_writer_created:rollback" },
                    "SimDir: rollback returned {:?}; the writer object is still alive but a second writer could be created on handle {}",
                    r.as_ref().map(|_| ()),
                    HANDLE_NAMES[h]
                ),
                a => fail!("wrong_error_while_held", "after rollback {:?}: {}", r.as_ref().map(|_| ()), a.short()),
            }
            cx.evals(1);
        }
        if !failed {
            // an unaffected rollback leaves a working writer
            id += 1;
            w.add_document(doc_with(id_field, id)).or_fail("holder_disturbed:add_commit")?;
            w.commit().or_fail("holder_disturbed:add_commit")?;
            ensure!(env.count(probe, id)? == 1, "holder_commit_not_visible:add_commit", "after rollback");
        } else {
            // a second rollback of the same object must not bring the process down (it may fail)
            let again = catch_unwind(AssertUnwindSafe(|| w.rollback().is_ok()));
            cx.label(match again {
                Ok(true) => "second_rollback:ok",
                Ok(false) => "second_rollback:err",
                Err(_) => "second_rollback:panic",
            });
            if let (Ok(true), false) = (&again, tolerated) {
                match attempt(&env.handles[probe], &Spec::plain()) {
                    a if a.is_lock() => {}
                    a => fail!(FAILED_ROLLBACK, "after a repeated rollback: {}", a.short()),
                }
            }
            cx.nontrivial(fp(c));
        }
        drop(w);
        match attempt(&env.handles[probe], &Spec::plain()) {
            Att::Ok(mut w2) => {
                id += 1;
                w2.add_document(doc_with(id_field, id)).or_fail("holder_disturbed:final")?;
                w2.commit().or_fail("holder_disturbed:final")?;
                ensure!(env.count((probe + 1) % 3, id)? == 1, "holder_commit_not_visible:final", "");
            }
            a => fail!(if failed { "create_refused_although_free:drop_after_failed_rollback" } else { "create_refused_although_free:drop" }, "{}", a.short()),
        }
        cx.sample(|| json!({"sub":"rollback_fault","case":c,"rollback_failed":failed}));
        Ok(())
    }
}

// ------------------------------------------------------------------------------------------------
/// A creation attempt hits an I/O error on the writer lock file (SimDir fault on the lock path, which strikes whether
/// or not the file exists) while a writer is alive: the attempt is refused, and so is every later attempt until the
/// holder goes away; the holder keeps working; afterwards a writer can be created again.  With no holder the failed
/// attempt leaves the lock free.
#[derive(Clone, Debug, Serialize, Deserialize)]
pub struct LockFaultCase {
    pub holder: bool,
    pub threads: u8,
    /// number of refused (fault-free) attempts before the faulty one
    pub before: u8,
    /// which storage operation on the lock file fails: 0 create, 1 flush / append / terminate (whatever comes)
    pub kind: u8,
    pub permanent: bool,
    pub probe: u8,
    pub rollback_between: bool,
}
pub struct LockFault;
impl Sub for LockFault {
    type Case = LockFaultCase;
    fn name(&self) -> &'static str {
        "lock_fault"
    }
    fn cases(&self, tier: Tier) -> u32 {
        tier.pick(400, 5000)
    }
    fn shards(&self, _tier: Tier) -> usize {
        8
    }
    fn strategy(&self, _tier: Tier) -> BoxedStrategy<LockFaultCase> {
        (prop::bool::weighted(0.8), 1u8..=3, 0u8..3, 0u8..2, any::<bool>(), 0u8..3, any::<bool>())
            .prop_map(|(holder, threads, before, kind, permanent, probe, rollback_between)| LockFaultCase { holder, threads, before, kind, permanent, probe, rollback_between })
            .boxed()
    }
    fn mandatory_labels(&self, _t: Tier) -> Vec<&'static str> {
        vec!["faulty_attempt_while_held", "faulty_attempt_while_free", "attempt_failed_with_io_error"]
    }
    fn run(&self, c: &LockFaultCase, cx: &Ctx) -> CaseResult {
        let mut env = Env::new(DirKind::Sim)?;
        let sim = env.sim.clone().unwrap();
        let id_field = env.id;
        let probe = env.h(c.probe);
        let mut id = 0u64;
        let mut holder: Option<IndexWriter> = if c.holder {
            match attempt(&env.handles[0], &Spec::Valid { how: How::Options, threads: c.threads }) {
                Att::Ok(w) => Some(w),
                a => fail!("create_failed_although_free:initial", "{}", a.short()),
            }
        } else {
            None
        };
        for k in 0..c.before {
            if holder.is_some() {
                match attempt(&env.handles[(probe + k as usize) % 3], &Spec::plain()) {
                    a if a.is_lock() => {}
                    Att::Ok(_) => fail!("second_writer_created:created", "a plain attempt succeeded while the holder is alive"),
                    a => fail!("wrong_error_while_held", "{}", a.short()),
                }
            }
        }
        // the faulty attempt
        let kinds = if c.kind == 0 { vec![K::Create] } else { vec![K::Flush, K::Append, K::Terminate] };
        sim.set_faults(vec![FaultRule { kinds, thread: String::new(), path_suffix: "writer.lock".into(), nth: 0, permanent: c.permanent, locks: true }]);
        let faulty = attempt(&env.handles[probe], &Spec::plain());
        sim.clear_faults();
        cx.label(if holder.is_some() { "faulty_attempt_while_held" } else { "faulty_attempt_while_free" });
        let mut stray: Option<IndexWriter> = None;
        match faulty {
            Att::Ok(w) => {
                ensure!(holder.is_none(), "second_writer_created:after_lock_io_error", "the attempt that hit an I/O error on the lock file returned a writer while the holder is alive");
                // no holder and the fault did not fire on this path (e.g. nothing is flushed): a normal creation
                cx.label("faulty_attempt_succeeded_while_free");
                stray = Some(w);
            }
            a => {
                cx.label_if(!a.is_lock() || a.short().contains("IoError") || a.short().contains("Io"), "attempt_failed_with_io_error");
            }
        }
        if let Some(w) = holder.as_mut() {
            if c.rollback_between {
                w.rollback().or_fail("holder_disturbed:rollback")?;
            }
            // every later attempt is refused while the holder is alive
            for k in 0..2usize {
                match attempt(&env.handles[(probe + k) % 3], &Spec::plain()) {
                    a if a.is_lock() => {}
                    Att::Ok(_) => fail!("second_writer_created:after_lock_io_error", "after an attempt that failed with an I/O error on the lock file, a later attempt on handle {} created a second writer although the holder is alive", HANDLE_NAMES[(probe + k) % 3]),
                    a => fail!("wrong_error_while_held", "{}", a.short()),
                }
                cx.evals(1);
            }
            // and the holder is undisturbed
            id += 1;
            w.add_document(doc_with(id_field, id)).or_fail("holder_disturbed:add_commit")?;
            w.commit().or_fail("holder_disturbed:add_commit")?;
            ensure!(env.count(probe, id)? == 1, "holder_commit_not_visible:add_commit", "after a faulty attempt");
        }
        drop(holder.take());
        drop(stray.take());
        // free again
        match attempt(&env.handles[probe], &Spec::plain()) {
            Att::Ok(mut w2) => {
                id += 1;
                w2.add_document(doc_with(id_field, id)).or_fail("holder_disturbed:final")?;
                w2.commit().or_fail("holder_disturbed:final")?;
                ensure!(env.count((probe + 1) % 3, id)? == 1, "holder_commit_not_visible:final", "");
            }
            a => fail!("create_refused_although_free:after_lock_io_error", "every writer is gone but a new one cannot be created: {}", a.short()),
        }
        cx.nontrivial(fp(c));
        cx.sample(|| json!({"sub": "lock_fault", "case": c}));
        Ok(())
    }
}
