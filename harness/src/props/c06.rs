//! C06 — top-K collection returns exactly the best K, with deterministic ties.
use std::cmp::Ordering;
use std::collections::{BTreeMap, BTreeSet};

use proptest::prelude::*;
use serde::{Deserialize, Serialize};
use serde_json::json;
use tantivy::collector::sort_key::{SortBySimilarityScore, SortByStaticFastValue};
use tantivy::collector::TopDocs;
use tantivy::query::Query;
use tantivy::{DocAddress, Order, ReloadPolicy, Score, SegmentReader};

use super::c03::UidMap;
use crate::engine::*;
use crate::qmodel::*;
use crate::scoring::AllScores;
use crate::{ensure, fail};

pub fn def() -> PropDef {
    PropDef {
        id: "C06",
        level: "exploration",
        rule: "Generated corpora biased towards ties (document lists replicated 1-160x, few distinct field values, missing values, >= 3 uneven segments, deletes) x scoring queries (single term, unions and intersections of 2-5 frequency terms = the block-WAND paths, must+should mixes, generic boolean trees) x K in {1,2,3,10,N,N+5} x offset in {0,1,K,N-1,N,N+3} x sort key {score, u64/f64/date fast field asc/desc with missing values, string fast field asc/desc, tweak_score, (fast field, score) tuple} x single- or 4-thread executor. Oracle: the same searcher's exhaustive list from a non-pruning collector (plain collect) with keys taken from the model documents, sorted by (key in the requested order, None last, address ascending) and sliced [O, O+K); exactly comparable keys must match bit-for-bit and position-for-position; multi-clause score sums use a validity predicate (returned score within tolerance of the exhaustive score of that address, nothing omitted that is better than the worst returned by more than the tolerance, order non-increasing, bit-equal scores by address). Paging over exactly comparable keys must enumerate every match exactly once. Non-trivial = K < matches and (tie at the cut or >= 2 segments); distinct by hash(corpus, query, K, O, key).",
        assumptions: vec![
            "the complete result list comes from the same searcher through Collector::collect (no pruning); fast-field keys come from the model documents",
            "multi-clause float sums are compared with a relative tolerance of 4e-6 per clause",
        ],
        subs: vec![Box::new(TopK)],
    }
}

#[derive(Clone, Copy, Debug, PartialEq, Eq, Serialize, Deserialize)]
pub enum Key {
    Score,
    Num(bool),
    /// the multi-valued copy of `num` (documented: only the first value counts)
    MNum(bool),
    Fnum(bool),
    Date(bool),
    Str(bool),
    Tweak,
    NumThenScore,
    /// SortByErasedType on the JSON fast column `attrs.v` (integers of mixed column type across segments)
    JsonV(bool),
}
#[derive(Clone, Debug, Serialize, Deserialize)]
pub enum SQ {
    Term(u8),
    Union(Vec<u8>),
    Inter(Vec<u8>),
    MustShould(u8, Vec<u8>),
    Tree(Q),
    /// single term of the multi-valued raw field `tag` (postings without term frequencies)
    Tag(u8),
    TagUnion(Vec<u8>),
    /// single term / union on `bnf` (frequencies, no field norms)
    TermNf(u8),
    UnionNf(Vec<u8>),
    /// union of body terms queried without frequencies (IndexRecordOption::Basic on a field indexed with positions)
    UnionBasic(Vec<u8>),
    /// `+m s^-k`: a required term and an optional one with a negative boost (demotion): scores below the required
    /// term's own score, negative for some documents
    Demote(u8, u8, u8),
    /// a single term with a negative boost: every score is negative
    Negative(u8, u8),
}
#[derive(Clone, Debug, Serialize, Deserialize)]
pub struct Probe {
    pub q: SQ,
    /// 0:1 1:2 2:3 3:10 4:N 5:N+5
    pub k: u8,
    /// 0:0 1:1 2:K 3:N-1 4:N 5:N+3
    pub o: u8,
    pub key: Key,
}
#[derive(Clone, Debug, Serialize, Deserialize)]
pub struct TopKCase {
    pub corpus: CorpusSpec,
    pub probes: Vec<Probe>,
    pub threads4: bool,
}

fn to_q(sq: &SQ) -> Q {
    match sq {
        SQ::Term(w) => Q::Term(*w, 1),
        SQ::Union(ws) => Q::Bool(ws.iter().map(|w| (1u8, Q::Term(*w, 1))).collect(), None),
        SQ::Inter(ws) => Q::Bool(ws.iter().map(|w| (0u8, Q::Term(*w, 1))).collect(), None),
        SQ::MustShould(m, ws) => Q::Bool(std::iter::once((0u8, Q::Term(*m, 1))).chain(ws.iter().map(|w| (1u8, Q::Term(*w, 1)))).collect(), None),
        SQ::Tree(q) => q.clone(),
        SQ::Tag(t) => Q::Tag(*t),
        SQ::TagUnion(ts) => Q::Bool(ts.iter().map(|t| (1u8, Q::Tag(*t))).collect(), None),
        SQ::TermNf(w) => Q::TermNf(*w),
        SQ::UnionNf(ws) => Q::Bool(ws.iter().map(|w| (1u8, Q::TermNf(*w))).collect(), None),
        SQ::UnionBasic(ws) => Q::Bool(ws.iter().map(|w| (1u8, Q::Term(*w, 0))).collect(), None),
        SQ::Demote(m, w, k) => Q::Bool(vec![(0u8, Q::Term(*m, 1)), (1u8, Q::Boost(Box::new(Q::Term(*w, 1)), 200 + *k % 8))], None),
        SQ::Negative(w, k) => Q::Boost(Box::new(Q::Term(*w, 1)), 200 + *k % 8),
    }
}
fn clauses(q: &Q) -> usize {
    match q {
        Q::Bool(cl, _) => cl.iter().map(|c| clauses(&c.1)).sum::<usize>().max(1),
        Q::DisMax(qs, _) => qs.iter().map(clauses).sum::<usize>().max(1),
        Q::Boost(q, _) | Q::Const(q, _) => clauses(q),
        Q::Phrase { words, .. } => words.len(),
        _ => 1,
    }
}

pub struct TopK;
impl Sub for TopK {
    type Case = TopKCase;
    fn name(&self) -> &'static str {
        "topk"
    }
    fn cases(&self, tier: Tier) -> u32 {
        tier.pick(4500, 60000)
    }
    fn max_shrink_iters(&self) -> u32 {
        1200
    }
    fn strategy(&self, tier: Tier) -> BoxedStrategy<TopKCase> {
        let w = || prop_oneof![5 => 0u8..4, 3 => 4u8..10, 2 => 14u8..18];
        let sq = prop_oneof![
            3 => w().prop_map(SQ::Term),
            4 => prop::collection::vec(w(), 2..6).prop_map(SQ::Union),
            3 => prop::collection::vec(w(), 2..5).prop_map(SQ::Inter),
            2 => (w(), prop::collection::vec(w(), 1..4)).prop_map(|(m, s)| SQ::MustShould(m, s)),
            2 => query_strategy(2).prop_map(SQ::Tree),
            1 => (0..NUM_TAGS).prop_map(SQ::Tag),
            1 => prop::collection::vec(0..NUM_TAGS, 2..4).prop_map(SQ::TagUnion),
            1 => w().prop_map(SQ::TermNf),
            1 => prop::collection::vec(w(), 2..5).prop_map(SQ::UnionNf),
            2 => prop::collection::vec(w(), 2..5).prop_map(SQ::UnionBasic),
            1 => (w(), w(), 0u8..8).prop_map(|(m, s, k)| SQ::Demote(m, s, k)),
            1 => (w(), 0u8..8).prop_map(|(s, k)| SQ::Negative(s, k)),
        ];
        let key = prop_oneof![
            6 => Just(Key::Score),
            2 => any::<bool>().prop_map(Key::Num),
            1 => any::<bool>().prop_map(Key::MNum),
            1 => any::<bool>().prop_map(Key::Fnum),
            1 => any::<bool>().prop_map(Key::Date),
            1 => any::<bool>().prop_map(Key::Str),
            1 => Just(Key::Tweak),
            1 => Just(Key::NumThenScore),
            1 => any::<bool>().prop_map(Key::JsonV),
        ];
        let probe = (sq, 0u8..12, prop_oneof![4 => Just(0u8), 1 => 1u8..6], key).prop_map(|(q, k, o, key)| Probe { q, k, o, key });
        (corpus_strategy(tier.pick(40, 160)), prop::collection::vec(probe, 20..41), any::<bool>(), 0u8..8, prop::collection::vec(any::<u16>(), 3..7))
            .prop_map(|(mut corpus, probes, threads4, uniform, extra_cuts)| {
                // >= 3 uneven segments often
                if corpus.cuts.len() < 2 {
                    corpus.cuts.push(9000);
                    corpus.cuts.push(41000);
                }
                if uniform == 0 && !corpus.docs.is_empty() {
                    // massive ties: every document identical (same score, same keys), many small segments, no
                    // deletes: the result is decided by the address tie-break alone
                    let d0 = corpus.docs[0].clone();
                    let n = corpus.docs.len().min(12);
                    corpus.docs = vec![d0; n];
                    corpus.repeat = corpus.repeat.min(5);
                    corpus.cuts = extra_cuts;
                    corpus.marks = vec![0; corpus.marks.len()];
                } else if uniform <= 2 && corpus.docs.len() >= 3 {
                    // few distinct keys, many copies of each inside every segment: 2-4 template documents
                    // interleaved and replicated, so that a segment holds more than 2K documents with the same
                    // key (its TopNComputer truncates and returns them in no particular order) while other
                    // segments contribute better and worse keys (the merge truncates in the middle of a tie group)
                    let t = 2 + (extra_cuts[0] as usize % 3);
                    let templates: Vec<QDoc> = corpus.docs.iter().take(t).cloned().collect();
                    let n = corpus.docs.len().clamp(12, 40);
                    corpus.docs = (0..n).map(|i| templates[(i * 7 + i / t) % templates.len()].clone()).collect();
                    corpus.repeat = corpus.repeat.clamp(3, 10);
                    corpus.cuts = extra_cuts;
                    if uniform == 2 {
                        corpus.deletes.truncate(1);
                    }
                } else if (uniform == 3 || uniform >= 6) && corpus.docs.len() >= 6 {
                    // block-max pruning: 4-8 template documents with different (term frequency, length) pairs replicated
                    // until every segment holds several full 128-document posting blocks of the frequent words, and
                    // mark words on the leading documents so that the average field length differs between the segments
                    // (the block maxima are written with the statistics of the segment, the scores are computed with those
                    // of the searcher)
                    let t = 4 + (extra_cuts[0] as usize % 5);
                    let templates: Vec<QDoc> = corpus.docs.iter().take(t).cloned().collect();
                    if uniform == 3 && extra_cuts[0] % 2 == 0 {
                        corpus.docs = (0..40).map(|i| templates[(i * 3 + i / t) % templates.len()].clone()).collect();
                        corpus.repeat = 40;
                    } else {
                        // not periodic: regions of ~400 documents use mainly two of the templates each (so the average
                        // length differs from region to region, in both directions), about 1 % of the documents are
                        // any template - the rare short or term-rich document that a whole block has to be kept for
                        let n = 1500 + (extra_cuts[1] as usize % 700);
                        let seed = extra_cuts[0] as u64 * 65537 + extra_cuts[2] as u64;
                        // besides the templates: long versions (every value of the body 6-10 times: high term frequency in a
                        // long document) and tiny versions (the first word only) of the first templates
                        let mut templates = templates;
                        for k in 0..templates.len().min(3) {
                            let mut long = templates[k].clone();
                            let times = 6 + (seed as usize + k) % 5;
                            long.body = long.body.iter().map(|v| v.iter().cycle().take(v.len() * times).cloned().collect()).collect();
                            let mut tiny = templates[k].clone();
                            tiny.body = tiny.body.iter().take(1).map(|v| v.iter().take(1).cloned().collect()).collect();
                            templates.push(long);
                            templates.push(tiny);
                        }
                        let base = templates.len() - 2 * templates.len().min(3).min((templates.len()) / 3);
                        let _ = base;
                        corpus.docs = (0..n)
                            .map(|i| {
                                let h = mix(seed, i as u64);
                                let region = i / 400;
                                // odd regions are dominated by the long versions, even ones by tiny and plain documents
                                let k = if h % 61 == 0 {
                                    (h >> 8) as usize % templates.len()
                                } else if region % 2 == 1 {
                                    let longs: Vec<usize> = (0..templates.len()).filter(|j| templates[*j].body.iter().map(|v| v.len()).sum::<usize>() > 12).collect();
                                    if longs.is_empty() { (h >> 16) as usize % templates.len() } else { longs[(h >> 16) as usize % longs.len()] }
                                } else {
                                    ((h >> 16) as usize % 3 + region) % templates.len()
                                };
                                templates[k].clone()
                            })
                            .collect();
                        corpus.repeat = 1;
                    }
                    corpus.cuts = extra_cuts.iter().take(2).cloned().collect();
                    corpus.deletes.truncate(1);
                    if corpus.marks.len() >= 2 {
                        corpus.marks[0] = 300 + (extra_cuts[1] % 600);
                        corpus.marks[1] = 900;
                    }
                }
                TopKCase { corpus, probes, threads4 }
            })
            .boxed()
    }
    fn mandatory_labels(&self, _t: Tier) -> Vec<&'static str> {
        vec![
            "key:Score", "key:Num", "key:MNum", "key:Str", "key:Tweak", "key:NumThenScore", "tie_at_cut", "segments>=3", "k<matches", "offset>0", "offset_beyond_end", "union_of_terms", "intersection_of_terms",
            "threads4", "paging", "docs>1024", "missing_key_values",
        ]
    }
    fn run(&self, c: &TopKCase, cx: &Ctx) -> CaseResult {
        let corpus = build_corpus(&c.corpus)?;
        let mut index = corpus.index.clone();
        if c.threads4 {
            index.set_multithread_executor(4).or_fail("INFRA:executor")?;
        }
        let reader: tantivy::IndexReader = index.reader_builder().reload_policy(ReloadPolicy::Manual).try_into().or_fail("reader_open_failed")?;
        let searcher = reader.searcher();
        let um = UidMap::new(&searcher)?;
        let bcx = BuildCtx { f: &corpus.f, restrict_slop: true, restrict_fuzzy_prefix: true, excluded: Default::default() };
        let by_uid: BTreeMap<u64, &QDoc> = corpus.docs.iter().map(|(u, d)| (*u, d)).collect();
        let corpus_fp = fp(&c.corpus);
        let n_live = corpus.num_live();
        cx.label_if(corpus.num_segments >= 3, "segments>=3");
        cx.label_if(c.threads4, "threads4");
        cx.label_if(corpus.docs.len() > 1024, "docs>1024");
        let mut paged = false;
        for p in &c.probes {
            let q = normalise(&to_q(&p.q), &bcx);
            let tq = build_query(&q, &corpus.f)?;
            // exhaustive list (non-pruning)
            let all: Vec<(Score, DocAddress)> = searcher.search(&*tq, &AllScores).or_fail("search_failed")?;
            let n = all.len();
            let k = match p.k {
                0 => 1,
                1 => 2,
                2 => 3,
                3 => 10,
                4 => n.max(1),
                5 => n + 5,
                // 4..=9: the buffer of 2K entries is truncated in the middle of the per-segment results
                x => x as usize - 2,
            };
            let o = match p.o {
                0 => 0,
                1 => 1,
                2 => k,
                3 => n.saturating_sub(1),
                4 => n,
                _ => n + 3,
            };
            cx.evals(1);
            cx.label(&format!("key:{}", match p.key { Key::Score => "Score", Key::Num(_) => "Num", Key::MNum(_) => "MNum", Key::Fnum(_) => "Fnum", Key::Date(_) => "Date", Key::Str(_) => "Str", Key::Tweak => "Tweak", Key::NumThenScore => "NumThenScore", Key::JsonV(_) => "JsonV" }));
            cx.label_if(k < n, "k<matches");
            cx.label_if(o > 0, "offset>0");
            cx.label_if(o >= n, "offset_beyond_end");
            cx.label_if(matches!(p.q, SQ::Union(_)), "union_of_terms");
            cx.label_if(matches!(p.q, SQ::Inter(_)), "intersection_of_terms");
            let nclauses = clauses(&q);
            let exact_scores = nclauses == 1;
            let ctxt = format!("query {q:?} K={k} O={o} key={:?} ({} matches, {} segments, threads4={})", p.key, n, corpus.num_segments, c.threads4);
            let mut tie_at_cut = false;
            match p.key {
                Key::Score => {
                    let got: Vec<(Score, DocAddress)> = searcher.search(&*tq, &TopDocs::with_limit(k).and_offset(o).order_by_score()).or_fail("search_failed")?;
                    let mut exp = all.clone();
                    exp.sort_by(|a, b| b.0.partial_cmp(&a.0).unwrap_or(Ordering::Equal).then(a.1.cmp(&b.1)));
                    let cut = (o + k).min(n);
                    if cut > 0 && cut < n && exp[cut - 1].0 == exp[cut].0 {
                        tie_at_cut = true;
                    }
                    let exp_slice: Vec<(Score, DocAddress)> = exp.iter().skip(o).take(k).cloned().collect();
                    ensure!(got.len() == exp_slice.len(), "topk_wrong_length", "{ctxt}: got {} entries, expected {}", got.len(), exp_slice.len());
                    if std::env::var("TVV_DEBUG").is_ok() && got != exp_slice {
                        eprintln!("expected: {:?}", exp.iter().take(o + k + 4).map(|(s, a)| (*s, a.segment_ord, a.doc_id, um.uid(*a))).collect::<Vec<_>>());
                        eprintln!("got:      {:?}", got.iter().map(|(s, a)| (*s, a.segment_ord, a.doc_id, um.uid(*a))).collect::<Vec<_>>());
                        for (ord, seg) in searcher.segment_readers().iter().enumerate() {
                            eprintln!("segment {ord}: max_doc {} alive {}", seg.max_doc(), seg.num_docs());
                        }
                    }
                    if exact_scores {
                        if got != exp_slice {
                            let pos = got.iter().zip(exp_slice.iter()).position(|(a, b)| a != b).unwrap_or(0);
                            fail!(
                                "topk_score_differs_from_exhaustive",
                                "{ctxt}: first difference at rank {}: got {:?} (uid {}), expected {:?} (uid {})",
                                o + pos,
                                got[pos],
                                um.uid(got[pos].1),
                                exp_slice[pos],
                                um.uid(exp_slice[pos].1)
                            );
                        }
                    } else {
                        let tol = |s: f32| 4e-6 * nclauses as f32 * s.abs().max(1.0);
                        let full: BTreeMap<DocAddress, Score> = all.iter().map(|(s, a)| (*a, *s)).collect();
                        for wdw in got.windows(2) {
                            ensure!(wdw[0].0 >= wdw[1].0, "topk_not_sorted", "{ctxt}: {:?} before {:?}", wdw[0], wdw[1]);
                            if wdw[0].0 == wdw[1].0 {
                                ensure!(wdw[0].1 < wdw[1].1, "topk_tie_not_by_address", "{ctxt}: {:?} before {:?}", wdw[0], wdw[1]);
                            }
                        }
                        for (s, a) in &got {
                            let Some(es) = full.get(a) else { fail!("topk_returned_non_match", "{ctxt}: {a:?} is not in the complete result list") };
                            ensure!((s - es).abs() <= tol(*es), "topk_score_not_true_key", "{ctxt}: {a:?} returned score {s}, exhaustive score {es}");
                        }
                        if o == 0 {
                            if let Some(min) = got.last().map(|x| x.0) {
                                for (es, a) in &all {
                                    if !got.iter().any(|g| g.1 == *a) {
                                        ensure!(*es <= min + tol(min), "topk_omitted_better_doc", "{ctxt}: {a:?} (uid {}) with score {es} omitted, worst returned {min}", um.uid(*a));
                                    }
                                }
                            }
                        } else {
                            // with an offset: the returned scores must lie between the tolerance-widened expected bounds
                            if let (Some(first), Some(e0)) = (got.first(), exp_slice.first()) {
                                ensure!((first.0 - e0.0).abs() <= tol(e0.0) * 2.0 || exp.iter().any(|x| x.1 == first.1), "topk_offset_slice_wrong", "{ctxt}: first returned {first:?}, expected around {e0:?}");
                            }
                        }
                    }
                }
                Key::JsonV(asc) => {
                    let order = if asc { Order::Asc } else { Order::Desc };
                    let mut exp: Vec<(u64, DocAddress)> = all.iter().map(|(_, a)| (json_v(um.uid(*a), by_uid[&um.uid(*a)]), *a)).collect();
                    exp.sort_by(|a, b| (if asc { a.0.cmp(&b.0) } else { b.0.cmp(&a.0) }).then(a.1.cmp(&b.1)));
                    let cut = (o + k).min(n);
                    if cut > 0 && cut < n && exp[cut - 1].0 == exp[cut].0 {
                        tie_at_cut = true;
                    }
                    let exp_slice: Vec<(u64, DocAddress)> = exp.iter().skip(o).take(k).cloned().collect();
                    let collector = TopDocs::with_limit(k).and_offset(o).order_by((tantivy::collector::sort_key::SortByErasedType::for_field("attrs.v"), order));
                    match searcher.search(&*tq, &collector) {
                        // (documented: the column must exist in every segment)
                        Err(tantivy::TantivyError::SchemaError(_)) => cx.label("erased_sort_column_missing_in_a_segment"),
                        Err(e) => fail!("search_failed", "{ctxt}: {e:?}"),
                        Ok(top) => {
                            let mut got: Vec<(u64, DocAddress)> = vec![];
                            for (v, a) in top {
                                let x = match v {
                                    tantivy::schema::OwnedValue::U64(x) => x,
                                    tantivy::schema::OwnedValue::I64(x) if x >= 0 => x as u64,
                                    other => fail!("topk_erased_key_unexpected_value", "{ctxt}: key {other:?} for {a:?} (the document holds an unsigned integer)"),
                                };
                                got.push((x, a));
                            }
                            let kinds: BTreeSet<bool> = all.iter().map(|(_, a)| json_v(um.uid(*a), by_uid[&um.uid(*a)]) > i64::MAX as u64).collect();
                            cx.label_if(kinds.len() == 2, "erased_key_values_on_both_sides_of_i64_max");
                            if got != exp_slice {
                                let pos = got.iter().zip(exp_slice.iter()).position(|(a, b)| a != b).unwrap_or(got.len().min(exp_slice.len()));
                                fail!("topk_erased_fast_field_differs_from_exhaustive", "{ctxt}: got {} entries, expected {}; first difference at rank {}: got {:?}, expected {:?}", got.len(), exp_slice.len(), o + pos, got.get(pos), exp_slice.get(pos));
                            }
                        }
                    }
                }
                Key::Num(asc) | Key::MNum(asc) | Key::Fnum(asc) | Key::Date(asc) | Key::Str(asc) => {
                    let order = if asc { Order::Asc } else { Order::Desc };
                    // keys from the model (true key of the document), comparable as (Option<i64>) or Option<String>
                    let keyed: Vec<(Option<i64>, DocAddress)> = all
                        .iter()
                        .map(|(_, a)| {
                            let d = by_uid[&um.uid(*a)];
                            let kx = match p.key {
                                Key::Num(_) | Key::MNum(_) => d.num.map(|x| x as i64),
                                Key::Fnum(_) => d.fnum.map(|x| x as i64),
                                Key::Date(_) => d.date.map(|x| x as i64),
                                _ => d.s.map(|x| x as i64),
                            };
                            (kx, *a)
                        })
                        .collect();
                    cx.label_if(keyed.iter().any(|x| x.0.is_none()), "missing_key_values");
                    let mut exp = keyed.clone();
                    exp.sort_by(|a, b| {
                        let kc = match (a.0, b.0) {
                            (None, None) => Ordering::Equal,
                            (None, Some(_)) => Ordering::Greater, // None last in both orders
                            (Some(_), None) => Ordering::Less,
                            (Some(x), Some(y)) => {
                                if asc {
                                    x.cmp(&y)
                                } else {
                                    y.cmp(&x)
                                }
                            }
                        };
                        kc.then(a.1.cmp(&b.1))
                    });
                    let cut = (o + k).min(n);
                    if cut > 0 && cut < n && exp[cut - 1].0 == exp[cut].0 {
                        tie_at_cut = true;
                    }
                    let exp_slice: Vec<(Option<i64>, DocAddress)> = exp.iter().skip(o).take(k).cloned().collect();
                    let td = TopDocs::with_limit(k).and_offset(o);
                    let got: Vec<(Option<i64>, DocAddress)> = match p.key {
                        Key::Num(_) => searcher.search(&*tq, &td.order_by_fast_field::<u64>("num", order)).or_fail("search_failed")?.into_iter().map(|(v, a)| (v.map(|x| x as i64), a)).collect(),
                        Key::MNum(_) => searcher.search(&*tq, &td.order_by_fast_field::<u64>("mnum", order)).or_fail("search_failed")?.into_iter().map(|(v, a)| (v.map(|x| x as i64), a)).collect(),
                        Key::Fnum(_) => searcher
                            .search(&*tq, &td.order_by_fast_field::<f64>("fnum", order))
                            .or_fail("search_failed")?
                            .into_iter()
                            .map(|(v, a)| (v.map(|x| (x * 2.0) as i64), a))
                            .collect(),
                        Key::Date(_) => searcher
                            .search(&*tq, &td.order_by_fast_field::<tantivy::DateTime>("date", order))
                            .or_fail("search_failed")?
                            .into_iter()
                            .map(|(v, a)| (v.map(|x| (x.into_timestamp_secs() - 1_600_000_000) / 3600), a))
                            .collect(),
                        _ => searcher
                            .search(&*tq, &td.order_by_string_fast_field("s", order))
                            .or_fail("search_failed")?
                            .into_iter()
                            .map(|(v, a)| (v.and_then(|x| x[1..].parse::<i64>().ok()), a))
                            .collect(),
                    };
                    if got != exp_slice {
                        let pos = got.iter().zip(exp_slice.iter()).position(|(a, b)| a != b).unwrap_or(got.len().min(exp_slice.len()));
                        fail!(
                            "topk_fast_field_differs_from_exhaustive",
                            "{ctxt}: got {} entries, expected {}; first difference at rank {}: got {:?}, expected {:?}",
                            got.len(),
                            exp_slice.len(),
                            o + pos,
                            got.get(pos),
                            exp_slice.get(pos)
                        );
                    }
                    // paging over an exactly comparable key enumerates every match exactly once
                    if !paged && n > 0 && n <= 400 && k <= 10 {
                        paged = true;
                        let mut pages: Vec<DocAddress> = vec![];
                        let mut off = 0;
                        loop {
                            let page: Vec<DocAddress> = match p.key {
                                Key::Num(_) => searcher.search(&*tq, &TopDocs::with_limit(k).and_offset(off).order_by_fast_field::<u64>("num", order)).or_fail("search_failed")?.into_iter().map(|x| x.1).collect(),
                                Key::MNum(_) => searcher.search(&*tq, &TopDocs::with_limit(k).and_offset(off).order_by_fast_field::<u64>("mnum", order)).or_fail("search_failed")?.into_iter().map(|x| x.1).collect(),
                                Key::Fnum(_) => searcher.search(&*tq, &TopDocs::with_limit(k).and_offset(off).order_by_fast_field::<f64>("fnum", order)).or_fail("search_failed")?.into_iter().map(|x| x.1).collect(),
                                Key::Date(_) => searcher
                                    .search(&*tq, &TopDocs::with_limit(k).and_offset(off).order_by_fast_field::<tantivy::DateTime>("date", order))
                                    .or_fail("search_failed")?
                                    .into_iter()
                                    .map(|x| x.1)
                                    .collect(),
                                _ => searcher.search(&*tq, &TopDocs::with_limit(k).and_offset(off).order_by_string_fast_field("s", order)).or_fail("search_failed")?.into_iter().map(|x| x.1).collect(),
                            };
                            if page.is_empty() {
                                break;
                            }
                            pages.extend(page);
                            off += k;
                            if off > n + k {
                                break;
                            }
                        }
                        let expected_all: Vec<DocAddress> = exp.iter().map(|x| x.1).collect();
                        ensure!(pages == expected_all, "paging_does_not_enumerate_matches", "{ctxt}: concatenated pages have {} entries, expected {} (in order)", pages.len(), expected_all.len());
                        cx.label("paging");
                    }
                }
                Key::Tweak => {
                    // key = score * (1 + num) computed in f32 exactly as the closure does
                    let got: Vec<(f32, DocAddress)> = searcher
                        .search(
                            &*tq,
                            &TopDocs::with_limit(k).and_offset(o).tweak_score(move |seg: &SegmentReader| {
                                let col = seg.fast_fields().u64("num").unwrap().first_or_default_col(0);
                                move |doc: u32, score: Score| score * (1.0 + col.get_val(doc) as f32)
                            }),
                        )
                        .or_fail("search_failed")?;
                    let mut exp: Vec<(f32, DocAddress)> = all.iter().map(|(s, a)| (s * (1.0 + by_uid[&um.uid(*a)].num.unwrap_or(0) as f32), *a)).collect();
                    exp.sort_by(|a, b| b.0.partial_cmp(&a.0).unwrap_or(Ordering::Equal).then(a.1.cmp(&b.1)));
                    let exp_slice: Vec<(f32, DocAddress)> = exp.iter().skip(o).take(k).cloned().collect();
                    ensure!(got.len() == exp_slice.len(), "topk_wrong_length", "{ctxt}: got {} entries, expected {}", got.len(), exp_slice.len());
                    if exact_scores {
                        ensure!(got == exp_slice, "topk_tweaked_score_differs", "{ctxt}: got {:?}.. expected {:?}..", got.iter().take(4).collect::<Vec<_>>(), exp_slice.iter().take(4).collect::<Vec<_>>());
                    } else {
                        for wdw in got.windows(2) {
                            ensure!(wdw[0].0 >= wdw[1].0, "topk_not_sorted", "{ctxt}: {:?} before {:?}", wdw[0], wdw[1]);
                        }
                    }
                }
                Key::NumThenScore => {
                    let got: Vec<((Option<u64>, Score), DocAddress)> = searcher
                        .search(&*tq, &TopDocs::with_limit(k).and_offset(o).order_by(((SortByStaticFastValue::<u64>::for_field("num"), Order::Desc), (SortBySimilarityScore, Order::Desc))))
                        .or_fail("search_failed")?;
                    let mut exp: Vec<((Option<u64>, Score), DocAddress)> = all.iter().map(|(s, a)| ((by_uid[&um.uid(*a)].num.map(|x| x as u64), *s), *a)).collect();
                    exp.sort_by(|a, b| {
                        let kc = match (a.0 .0, b.0 .0) {
                            (None, None) => Ordering::Equal,
                            (None, Some(_)) => Ordering::Greater,
                            (Some(_), None) => Ordering::Less,
                            (Some(x), Some(y)) => y.cmp(&x),
                        };
                        kc.then(b.0 .1.partial_cmp(&a.0 .1).unwrap_or(Ordering::Equal)).then(a.1.cmp(&b.1))
                    });
                    let exp_slice: Vec<((Option<u64>, Score), DocAddress)> = exp.iter().skip(o).take(k).cloned().collect();
                    ensure!(got.len() == exp_slice.len(), "topk_wrong_length", "{ctxt}: got {} entries, expected {}", got.len(), exp_slice.len());
                    if exact_scores {
                        ensure!(got == exp_slice, "topk_tuple_key_differs", "{ctxt}: got {:?}.. expected {:?}..", got.iter().take(4).collect::<Vec<_>>(), exp_slice.iter().take(4).collect::<Vec<_>>());
                    } else {
                        // first component is exact
                        let g1: Vec<Option<u64>> = got.iter().map(|x| x.0 .0).collect();
                        let e1: Vec<Option<u64>> = exp_slice.iter().map(|x| x.0 .0).collect();
                        ensure!(g1 == e1, "topk_tuple_key_differs", "{ctxt}: primary keys {g1:?} expected {e1:?}");
                    }
                }
            }
            cx.label_if(tie_at_cut, "tie_at_cut");
            if k < n && (tie_at_cut || corpus.num_segments >= 2) {
                cx.nontrivial(mix(corpus_fp, fp(p)));
            }
        }
        let _ = n_live;
        cx.sample(|| json!({"sub":"topk","docs":corpus.docs.len(),"segments":corpus.num_segments,"deleted":corpus.deleted.len(),"threads4":c.threads4,"probes":c.probes.iter().take(4).collect::<Vec<_>>()}));
        Ok(())
    }
}
