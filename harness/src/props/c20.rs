//! C20 — checksum validation detects any corruption of a segment file.
use std::collections::HashSet;
use std::io::{self, Write};
use std::path::{Path, PathBuf};
use std::sync::Arc;

use proptest::prelude::*;
use serde::{Deserialize, Serialize};
use serde_json::json;
use tantivy::directory::error::{DeleteError, OpenReadError, OpenWriteError};
use tantivy::directory::{
    AntiCallToken, Directory, FileHandle, ManagedDirectory, RamDirectory, TerminatingWrite, WatchCallback, WatchHandle, WritePtr,
};
use tantivy::schema::*;
use tantivy::{doc, Index, IndexWriter, TantivyError, Term};

use crate::engine::*;
use crate::{ensure, fail};

pub fn def() -> PropDef {
    PropDef {
        id: "C20",
        level: "fault_enumeration",
        rule: "writes: generated chunk/flush/short-write patterns through ManagedDirectory::open_write (non-trivial = >8 KiB total, a chunk >= BufWriter capacity or a short write, >=2 chunks). damage: generated small indexes (1-4 segments, optional deletes) x generated damages of one or two segment files (single bit flips incl. exhaustive all-bits sweeps of small files, byte substitutions, multi-byte damage, body truncation with intact footer, whole-file truncation at any length, insertions, appended bytes) checked against Index::validate_checksum (non-trivial = damage position neither first nor last byte of the body and file not the smallest of its index; distinct by (index spec, file, damage)). versions: footers rewritten with generated index_format_version values. writes also repeats every write pattern with one write call of the underlying writer failing (the last one = the footer, or a generated one): a terminate() that returns Ok means the file reads back exactly and passes its checksum. coverage: generated histories on SimDir end with the garbage collection of a merge held at one of its deletions while an indexing worker registers the files of a new segment; after the commit one bit of one file of a committed segment is flipped and validate_checksum (writing Index and a fresh Index::open) must report exactly that file.",
        assumptions: vec![
            "CRC32 collisions (2^-32 per damage) are recomputed independently with crc32fast and skipped, counted in counters.crc_collisions_skipped",
            "storage is RamDirectory (plus a short-write wrapper); damage is applied to the raw bytes below ManagedDirectory",
        ],
        subs: vec![Box::new(Writes), Box::new(Damage), Box::new(Versions), Box::new(Coverage)],
    }
}

// ------------------------------------------------------------------------------------------------
// footer helpers (independent re-implementation of the on-disk layout: [body][json][len u32 LE][1337 u32 LE])
fn split_footer(raw: &[u8]) -> Option<(usize, serde_json::Value)> {
    if raw.len() < 8 {
        return None;
    }
    let magic = u32::from_le_bytes(raw[raw.len() - 4..].try_into().unwrap());
    let flen = u32::from_le_bytes(raw[raw.len() - 8..raw.len() - 4].try_into().unwrap()) as usize;
    if magic != 1337 || flen > 50_000 || raw.len() < flen + 8 {
        return None;
    }
    let body_len = raw.len() - 8 - flen;
    let v: serde_json::Value = serde_json::from_slice(&raw[body_len..body_len + flen]).ok()?;
    Some((body_len, v))
}
fn crc(bytes: &[u8]) -> u32 {
    let mut h = crc32fast::Hasher::new();
    h.update(bytes);
    h.finalize()
}
/// true if `raw` is (by the independent parser) a well-formed file whose footer crc matches its body
fn looks_intact(raw: &[u8]) -> bool {
    match split_footer(raw) {
        Some((body_len, v)) => v.get("crc").and_then(|c| c.as_u64()) == Some(crc(&raw[..body_len]) as u64),
        None => false,
    }
}

// ------------------------------------------------------------------------------------------------
// a directory whose writers accept at most `limit[i % n]` bytes per `write` call (exercises the
// `buf[..count]` hashing in the footer proxy)
#[derive(Clone, Debug)]
struct ShortDir {
    ram: RamDirectory,
    limits: Arc<Vec<usize>>,
    /// number of write calls received so far (all writers of this directory), and the call that fails (usize::MAX = none)
    calls: Arc<std::sync::atomic::AtomicUsize>,
    fail_at: Arc<std::sync::atomic::AtomicUsize>,
}
struct ShortWriter {
    inner: WritePtr,
    limits: Arc<Vec<usize>>,
    n: usize,
    calls: Arc<std::sync::atomic::AtomicUsize>,
    fail_at: Arc<std::sync::atomic::AtomicUsize>,
}
impl Write for ShortWriter {
    fn write(&mut self, buf: &[u8]) -> io::Result<usize> {
        let call = self.calls.fetch_add(1, std::sync::atomic::Ordering::SeqCst);
        if call == self.fail_at.load(std::sync::atomic::Ordering::SeqCst) {
            return Err(io::Error::other("injected write fault"));
        }
        let lim = if self.limits.is_empty() { usize::MAX } else { self.limits[self.n % self.limits.len()] };
        self.n += 1;
        let k = buf.len().min(lim.max(1));
        self.inner.write_all(&buf[..k])?;
        Ok(k)
    }
    fn flush(&mut self) -> io::Result<()> {
        self.inner.flush()
    }
}
impl TerminatingWrite for ShortWriter {
    fn terminate_ref(&mut self, _: AntiCallToken) -> io::Result<()> {
        self.inner.flush()?;
        // WritePtr = BufWriter<Box<dyn TerminatingWrite>>
        let inner = std::mem::replace(&mut self.inner, io::BufWriter::new(Box::new(NullWriter)));
        inner.terminate()
    }
}
struct NullWriter;
impl Write for NullWriter {
    fn write(&mut self, buf: &[u8]) -> io::Result<usize> {
        Ok(buf.len())
    }
    fn flush(&mut self) -> io::Result<()> {
        Ok(())
    }
}
impl TerminatingWrite for NullWriter {
    fn terminate_ref(&mut self, _: AntiCallToken) -> io::Result<()> {
        Ok(())
    }
}
impl Directory for ShortDir {
    fn get_file_handle(&self, path: &Path) -> Result<Arc<dyn FileHandle>, OpenReadError> {
        self.ram.get_file_handle(path)
    }
    fn delete(&self, path: &Path) -> Result<(), DeleteError> {
        self.ram.delete(path)
    }
    fn exists(&self, path: &Path) -> Result<bool, OpenReadError> {
        self.ram.exists(path)
    }
    fn open_write(&self, path: &Path) -> Result<WritePtr, OpenWriteError> {
        let inner = self.ram.open_write(path)?;
        Ok(io::BufWriter::with_capacity(0, Box::new(ShortWriter { inner, limits: self.limits.clone(), n: 0, calls: self.calls.clone(), fail_at: self.fail_at.clone() })))
    }
    fn atomic_read(&self, path: &Path) -> Result<Vec<u8>, OpenReadError> {
        self.ram.atomic_read(path)
    }
    fn atomic_write(&self, path: &Path, data: &[u8]) -> io::Result<()> {
        self.ram.atomic_write(path, data)
    }
    fn sync_directory(&self) -> io::Result<()> {
        Ok(())
    }
    fn watch(&self, cb: WatchCallback) -> tantivy::Result<WatchHandle> {
        self.ram.watch(cb)
    }
}

// ------------------------------------------------------------------------------------------------
#[derive(Clone, Debug, Serialize, Deserialize)]
pub struct WriteCase {
    /// (chunk length, action after it: 0 nothing, 1 flush)
    chunks: Vec<(u32, u8)>,
    /// per-write acceptance limits of the underlying writer (empty = accepts everything)
    limits: Vec<u32>,
    salt: u8,
    /// after the fault-free run the same writes are repeated with one write call of the underlying writer failing:
    /// None = the last call (the one that carries the end of the footer), Some(r) = call number idx(r, number of calls)
    #[serde(default)]
    fault: Option<Option<u16>>,
}
pub struct Writes;
impl Sub for Writes {
    type Case = WriteCase;
    fn name(&self) -> &'static str {
        "writes"
    }
    fn cases(&self, tier: Tier) -> u32 {
        tier.pick(3000, 60000)
    }
    fn strategy(&self, _tier: Tier) -> BoxedStrategy<WriteCase> {
        let len = prop_oneof![
            4 => 0u32..40,
            3 => 8180u32..8200,
            2 => 0u32..20_000,
            1 => 60_000u32..70_000,
            1 => Just(8192u32),
        ];
        let limit = prop_oneof![3 => 1u32..10, 2 => 100u32..9000, 1 => Just(8192u32), 1 => Just(u32::MAX)];
        (
            prop::collection::vec((len, prop_oneof![4 => Just(0u8), 1 => Just(1u8)]), 0..12),
            prop_oneof![2 => Just(vec![]), 3 => prop::collection::vec(limit, 1..4)],
            any::<u8>(),
            prop_oneof![2 => Just(None), 2 => Just(Some(None)), 3 => any::<u16>().prop_map(|r| Some(Some(r)))],
        )
            .prop_map(|(chunks, limits, salt, fault)| WriteCase { chunks, limits, salt, fault })
            .boxed()
    }
    fn mandatory_labels(&self, _t: Tier) -> Vec<&'static str> {
        vec!["short_writes", "chunk>=8192", "total>8192", "write_fault:footer_write", "write_fault:terminate_reported_it", "write_fault:body_write"]
    }
    fn run(&self, c: &WriteCase, cx: &Ctx) -> CaseResult {
        let ram = RamDirectory::create();
        let calls = Arc::new(std::sync::atomic::AtomicUsize::new(0));
        let fail_at = Arc::new(std::sync::atomic::AtomicUsize::new(usize::MAX));
        let short = ShortDir { ram: ram.clone(), limits: Arc::new(c.limits.iter().map(|l| *l as usize).collect()), calls: calls.clone(), fail_at: fail_at.clone() };
        let managed = ManagedDirectory::wrap(Box::new(short)).or_fail("wrap")?;
        let path = Path::new("file.bin");
        let mut w = managed.open_write(path).or_fail("open_write")?;
        let mut expected: Vec<u8> = vec![];
        let mut x = c.salt as u32 | 0x100;
        for (len, act) in &c.chunks {
            let mut chunk = Vec::with_capacity(*len as usize);
            for _ in 0..*len {
                x = x.wrapping_mul(1664525).wrapping_add(1013904223);
                chunk.push((x >> 24) as u8);
            }
            w.write_all(&chunk).or_fail("write_all")?;
            expected.extend_from_slice(&chunk);
            if *act == 1 {
                w.flush().or_fail("flush")?;
            }
        }
        w.terminate().or_fail("terminate")?;
        // (1) reading back through the managed directory yields exactly the content
        let got = managed.open_read(path).or_fail("open_read")?.read_bytes().or_fail("read_bytes")?;
        ensure!(got.as_slice() == expected.as_slice(), "readback_differs", "len got {} expected {}", got.len(), expected.len());
        // (2) validate_checksum is true
        ensure!(managed.validate_checksum(path).or_fail("validate_checksum")?, "fresh_file_fails_checksum", "{c:?}");
        // (3) the raw file = body + footer with current version and crc of the body
        let raw = ram.open_read(path).or_fail("raw_open")?.read_bytes().or_fail("raw_read")?;
        let Some((body_len, footer)) = split_footer(raw.as_slice()) else { fail!("no_footer", "raw len {}", raw.len()) };
        ensure!(body_len == expected.len(), "footer_body_len", "{body_len} vs {}", expected.len());
        ensure!(&raw.as_slice()[..body_len] == expected.as_slice(), "raw_body_differs", "");
        ensure!(footer["crc"].as_u64() == Some(crc(&expected) as u64), "footer_crc_wrong", "footer {footer} expected crc {}", crc(&expected));
        ensure!(
            footer["version"]["index_format_version"].as_u64() == Some(tantivy::INDEX_FORMAT_VERSION as u64),
            "footer_version_wrong",
            "{footer}"
        );
        let total = expected.len();
        let big_chunk = c.chunks.iter().any(|(l, _)| *l >= 8192);
        let short_w = c.limits.iter().any(|l| (*l as usize) < 8192);
        cx.label_if(short_w, "short_writes");
        cx.label_if(big_chunk, "chunk>=8192");
        cx.label_if(total > 8192, "total>8192");
        cx.label_if(total == 0, "empty_file");
        if total > 8192 && (big_chunk || short_w) && c.chunks.len() >= 2 {
            cx.nontrivial(fp(c));
        }
        // (4) the same writes once more, with one write call of the underlying writer failing: whatever call fails,
        // a terminate() that returns Ok means the file is complete - body, footer, checksum
        if let Some(which) = c.fault {
            let n_calls = calls.load(std::sync::atomic::Ordering::SeqCst);
            if n_calls > 0 {
                let k = match which {
                    None => n_calls - 1,
                    Some(r) => idx(r, n_calls),
                };
                calls.store(0, std::sync::atomic::Ordering::SeqCst);
                fail_at.store(k, std::sync::atomic::Ordering::SeqCst);
                let path2 = Path::new("file2.bin");
                let mut w = managed.open_write(path2).or_fail("open_write")?;
                let mut all_ok = true;
                let mut x = c.salt as u32 | 0x100;
                let mut body_calls_before_fault = true;
                for (len, act) in &c.chunks {
                    let mut chunk = Vec::with_capacity(*len as usize);
                    for _ in 0..*len {
                        x = x.wrapping_mul(1664525).wrapping_add(1013904223);
                        chunk.push((x >> 24) as u8);
                    }
                    all_ok &= w.write_all(&chunk).is_ok();
                    if *act == 1 {
                        all_ok &= w.flush().is_ok();
                    }
                    if !all_ok {
                        body_calls_before_fault = false;
                        break;
                    }
                }
                if all_ok {
                    let t = w.terminate();
                    let fired = calls.load(std::sync::atomic::Ordering::SeqCst) > k;
                    cx.label_if(fired && k + 3 >= n_calls, "write_fault:footer_write");
                    match t {
                        Err(_) => cx.label("write_fault:terminate_reported_it"),
                        Ok(()) => {
                            let got = managed.open_read(path2).map_err(|e| Failure::new("terminate_ok_but_file_unreadable", format!("write call {k} of {n_calls} failed, terminate() returned Ok, open_read: {e:?}")))?;
                            let got = got.read_bytes().or_fail("read_bytes")?;
                            ensure!(got.as_slice() == expected.as_slice(), "terminate_ok_but_content_differs", "write call {k} of {n_calls} failed, terminate() returned Ok; read back {} bytes, written {}", got.len(), expected.len());
                            ensure!(managed.validate_checksum(path2).unwrap_or(false), "terminate_ok_but_checksum_invalid", "write call {k} of {n_calls} failed, terminate() returned Ok");
                        }
                    }
                } else {
                    drop(w);
                }
                cx.label_if(!body_calls_before_fault, "write_fault:body_write");
                fail_at.store(usize::MAX, std::sync::atomic::Ordering::SeqCst);
            }
        }
        cx.sample(|| json!({"sub":"writes","chunks":c.chunks,"limits":c.limits}));
        Ok(())
    }
}

// ------------------------------------------------------------------------------------------------
#[derive(Clone, Debug, Serialize, Deserialize)]
pub struct IndexSpec {
    /// docs per commit
    pub commits: Vec<u8>,
    pub delete: bool,
    pub salt: u8,
}
#[derive(Clone, Debug, Serialize, Deserialize)]
pub enum Dmg {
    /// flip one bit of the body; position is a fraction of the body in 1/65536
    BitFlip { pos: u16, bit: u8 },
    /// flip every bit of the body, one at a time (files up to `max_body` bytes)
    AllBits { max_body: u32 },
    ByteSub { pos: u16, xor: u8 },
    Multi { edits: Vec<(u16, u8)> },
    /// keep only `keep` (fraction) of the body, footer intact
    TruncBody { keep: u16 },
    /// every body truncation length, footer intact
    AllTruncBody { max_body: u32 },
    /// cut the whole file (footer damaged)
    TruncFile { keep: u16 },
    /// cut the whole file to exactly `len` bytes (small lengths: the 0..16 byte corner)
    TruncFileTo { len: u8 },
    Insert { pos: u16, bytes: Vec<u8> },
    AppendAfterFooter { bytes: Vec<u8> },
    /// damage a second file as well (bit flip): exactly both must be reported
    TwoFiles { other: u16, pos: u16, pos2: u16 },
}
#[derive(Clone, Debug, Serialize, Deserialize)]
pub struct DamageCase {
    pub index: IndexSpec,
    pub damages: Vec<(u16, Dmg)>,
}

pub fn build_small_index(spec: &IndexSpec) -> Result<(RamDirectory, Index), Failure> {
    let mut sb = Schema::builder();
    let id = sb.add_u64_field("id", FAST | INDEXED | STORED);
    let body = sb.add_text_field("body", TEXT | STORED);
    let dir = RamDirectory::create();
    let index = Index::create(dir.clone(), sb.build(), Default::default()).or_fail("INFRA:create")?;
    let mut w: IndexWriter = crate::util::writer(&index, Default::default()).or_fail("INFRA:writer")?;
    w.set_merge_policy(Box::new(tantivy::merge_policy::NoMergePolicy));
    let mut n = 0u64;
    for (ci, docs) in spec.commits.iter().enumerate() {
        for i in 0..*docs as u64 {
            w.add_document(doc!(id=>n, body=>format!("hello w{} w{} s{}", i % 3, ci, spec.salt))).or_fail("INFRA:add")?;
            n += 1;
        }
        w.commit().or_fail("INFRA:commit")?;
    }
    if spec.delete && n > 1 {
        w.delete_term(Term::from_field_u64(id, (spec.salt as u64) % n));
        w.commit().or_fail("INFRA:commit")?;
    }
    drop(w);
    Ok((dir, index))
}

fn at(pos: u16, len: usize) -> usize {
    idx(pos, len)
}

pub struct Damage;
impl Sub for Damage {
    type Case = DamageCase;
    fn name(&self) -> &'static str {
        "damage"
    }
    fn cases(&self, tier: Tier) -> u32 {
        tier.pick(1600, 24000)
    }
    fn max_shrink_iters(&self) -> u32 {
        400
    }
    fn strategy(&self, tier: Tier) -> BoxedStrategy<DamageCase> {
        let index = (prop::collection::vec(1u8..8, 1..4), any::<bool>(), any::<u8>()).prop_map(|(commits, delete, salt)| IndexSpec { commits, delete, salt });
        let small = prop::collection::vec(any::<u8>(), 1..17);
        let all_bits_max = tier.pick(512u32, 65536u32);
        let dmg = prop_oneof![
            30 => (any::<u16>(), 0u8..8).prop_map(|(pos, bit)| Dmg::BitFlip { pos, bit }),
            2 => Just(Dmg::AllBits { max_body: all_bits_max }),
            10 => (any::<u16>(), 1u8..=255).prop_map(|(pos, xor)| Dmg::ByteSub { pos, xor }),
            8 => prop::collection::vec((any::<u16>(), 1u8..=255), 2..6).prop_map(|edits| Dmg::Multi { edits }),
            10 => any::<u16>().prop_map(|keep| Dmg::TruncBody { keep }),
            1 => Just(Dmg::AllTruncBody { max_body: all_bits_max * 4 }),
            8 => any::<u16>().prop_map(|keep| Dmg::TruncFile { keep }),
            4 => (0u8..20).prop_map(|len| Dmg::TruncFileTo { len }),
            6 => (any::<u16>(), small.clone()).prop_map(|(pos, bytes)| Dmg::Insert { pos, bytes }),
            4 => small.prop_map(|bytes| Dmg::AppendAfterFooter { bytes }),
            5 => (any::<u16>(), any::<u16>(), any::<u16>()).prop_map(|(other, pos, pos2)| Dmg::TwoFiles { other, pos, pos2 }),
        ];
        (index, prop::collection::vec((any::<u16>(), dmg), 1..tier.pick(120, 300)))
            .prop_map(|(index, damages)| DamageCase { index, damages })
            .boxed()
    }
    fn mandatory_labels(&self, _t: Tier) -> Vec<&'static str> {
        vec!["bitflip", "all_bits_sweep", "trunc_body", "trunc_file", "insert", "append", "two_files", "del_file_damaged"]
    }
    fn run(&self, c: &DamageCase, cx: &Ctx) -> CaseResult {
        let (dir, index) = build_small_index(&c.index)?;
        let intact = index.validate_checksum().or_fail("intact_index_errors")?;
        ensure!(intact.is_empty(), "intact_index_reported", "{intact:?}");
        let mut files: Vec<PathBuf> =
            index.searchable_segment_metas().or_fail("INFRA:metas")?.iter().flat_map(|m| m.list_files()).filter(|p| dir.exists(p).unwrap_or(false)).collect();
        files.sort();
        ensure!(!files.is_empty(), "INFRA:no_files", "");
        let raws: Vec<Vec<u8>> = files.iter().map(|f| dir.atomic_read(f).unwrap()).collect();
        let min_len = raws.iter().map(|r| r.len()).min().unwrap();
        let index_fp = fp(&c.index);
        let check = |cx: &Ctx, damaged: &[(usize, Vec<u8>)], footer_broken: bool, what: &str| -> CaseResult {
            let d2 = dir.deep_clone();
            for (fi, bytes) in damaged {
                d2.atomic_write(&files[*fi], bytes).or_fail("INFRA:atomic_write")?;
            }
            let ix = Index::open(d2).or_fail("open_damaged_index")?;
            let expect: HashSet<PathBuf> = damaged.iter().map(|(fi, _)| files[*fi].clone()).collect();
            cx.count("damages", 1);
            cx.evals(1);
            match ix.validate_checksum() {
                Ok(set) => {
                    ensure!(
                        set == expect,
                        if set.is_empty() { "damage_undetected" } else { "wrong_files_reported" },
                        "{what}: reported {set:?} expected {expect:?}"
                    );
                }
                Err(e) => {
                    ensure!(footer_broken, "error_instead_of_report", "{what}: validate_checksum returned {e:?} although only the body was damaged");
                    let msg = format!("{e:?}");
                    ensure!(
                        expect.iter().any(|p| msg.contains(p.to_str().unwrap())),
                        "error_does_not_name_file",
                        "{what}: {msg} does not name {expect:?}"
                    );
                }
            }
            Ok(())
        };
        for (fsel, dmg) in &c.damages {
            let fi = at(*fsel, files.len());
            let raw = &raws[fi];
            let Some((body_len, _)) = split_footer(raw) else { fail!("no_footer", "{:?}", files[fi]) };
            let is_del = files[fi].extension().map(|e| e == "del").unwrap_or(false);
            let what = format!("{:?} (body {body_len}) {dmg:?}", files[fi].file_name().unwrap());
            let nontrivial_pos = |p: usize| p > 0 && p + 1 < body_len && raw.len() > min_len;
            match dmg {
                Dmg::BitFlip { pos, bit } => {
                    if body_len == 0 {
                        continue;
                    }
                    let p = at(*pos, body_len);
                    let mut d = raw.clone();
                    d[p] ^= 1 << bit;
                    check(cx, &[(fi, d)], false, &what)?;
                    cx.label("bitflip");
                    cx.label_if(is_del, "del_file_damaged");
                    if nontrivial_pos(p) {
                        cx.nontrivial(mix(index_fp, mix(fi as u64, (p * 8 + *bit as usize) as u64)));
                    }
                }
                Dmg::AllBits { max_body } => {
                    if body_len == 0 || body_len > *max_body as usize {
                        continue;
                    }
                    for p in 0..body_len {
                        for bit in 0..8 {
                            let mut d = raw.clone();
                            d[p] ^= 1 << bit;
                            check(cx, &[(fi, d)], false, &what)?;
                            if nontrivial_pos(p) {
                                cx.nontrivial(mix(index_fp, mix(fi as u64, (p * 8 + bit) as u64)));
                            }
                        }
                    }
                    cx.label("all_bits_sweep");
                    cx.label_if(is_del, "del_file_damaged");
                    cx.count("files_with_every_bit_flipped", 1);
                }
                Dmg::ByteSub { pos, xor } => {
                    if body_len == 0 {
                        continue;
                    }
                    let p = at(*pos, body_len);
                    let mut d = raw.clone();
                    d[p] ^= xor;
                    check(cx, &[(fi, d)], false, &what)?;
                    cx.label("bytesub");
                    if nontrivial_pos(p) {
                        cx.nontrivial(mix(index_fp, mix(fi as u64 + 1000, (p * 256 + *xor as usize) as u64)));
                    }
                }
                Dmg::Multi { edits } => {
                    if body_len == 0 {
                        continue;
                    }
                    let mut d = raw.clone();
                    for (pos, xor) in edits {
                        d[at(*pos, body_len)] ^= xor;
                    }
                    if crc(&d[..body_len]) == crc(&raw[..body_len]) {
                        cx.count("crc_collisions_skipped", 1);
                        continue;
                    }
                    check(cx, &[(fi, d)], false, &what)?;
                    cx.label("multi");
                    if raw.len() > min_len {
                        cx.nontrivial(mix(index_fp, mix(fi as u64 + 2000, fp(edits))));
                    }
                }
                Dmg::TruncBody { keep } => {
                    if body_len == 0 {
                        continue;
                    }
                    let k = at(*keep, body_len); // < body_len
                    let mut d = raw[..k].to_vec();
                    d.extend_from_slice(&raw[body_len..]);
                    if crc(&raw[..k]) == crc(&raw[..body_len]) {
                        cx.count("crc_collisions_skipped", 1);
                        continue;
                    }
                    check(cx, &[(fi, d)], false, &what)?;
                    cx.label("trunc_body");
                    if nontrivial_pos(k) {
                        cx.nontrivial(mix(index_fp, mix(fi as u64 + 3000, k as u64)));
                    }
                }
                Dmg::AllTruncBody { max_body } => {
                    if body_len == 0 || body_len > *max_body as usize {
                        continue;
                    }
                    for k in 0..body_len {
                        if crc(&raw[..k]) == crc(&raw[..body_len]) {
                            cx.count("crc_collisions_skipped", 1);
                            continue;
                        }
                        let mut d = raw[..k].to_vec();
                        d.extend_from_slice(&raw[body_len..]);
                        check(cx, &[(fi, d)], false, &what)?;
                        if nontrivial_pos(k) {
                            cx.nontrivial(mix(index_fp, mix(fi as u64 + 3000, k as u64)));
                        }
                    }
                    cx.label("all_trunc_body_sweep");
                }
                Dmg::TruncFile { keep } => {
                    let k = at(*keep, raw.len());
                    let d = raw[..k].to_vec();
                    if looks_intact(&d) {
                        cx.count("accidentally_wellformed_skipped", 1);
                        continue;
                    }
                    check(cx, &[(fi, d)], true, &what)?;
                    cx.label("trunc_file");
                    if k > 0 && raw.len() > min_len {
                        cx.nontrivial(mix(index_fp, mix(fi as u64 + 4000, k as u64)));
                    }
                }
                Dmg::TruncFileTo { len } => {
                    let k = (*len as usize).min(raw.len().saturating_sub(1));
                    let d = raw[..k].to_vec();
                    if looks_intact(&d) {
                        cx.count("accidentally_wellformed_skipped", 1);
                        continue;
                    }
                    check(cx, &[(fi, d)], true, &what)?;
                    cx.label("trunc_file");
                    cx.label("trunc_file_tiny");
                    if k > 0 && raw.len() > min_len {
                        cx.nontrivial(mix(index_fp, mix(fi as u64 + 4000, k as u64)));
                    }
                }
                Dmg::Insert { pos, bytes } => {
                    let p = at(*pos, body_len + 1);
                    let mut d = raw[..p].to_vec();
                    d.extend_from_slice(bytes);
                    d.extend_from_slice(&raw[p..]);
                    if crc(&d[..body_len + bytes.len()]) == crc(&raw[..body_len]) {
                        cx.count("crc_collisions_skipped", 1);
                        continue;
                    }
                    check(cx, &[(fi, d)], false, &what)?;
                    cx.label("insert");
                    if raw.len() > min_len {
                        cx.nontrivial(mix(index_fp, mix(fi as u64 + 5000, mix(p as u64, fp(bytes)))));
                    }
                }
                Dmg::AppendAfterFooter { bytes } => {
                    let mut d = raw.clone();
                    d.extend_from_slice(bytes);
                    if looks_intact(&d) {
                        cx.count("accidentally_wellformed_skipped", 1);
                        continue;
                    }
                    check(cx, &[(fi, d)], true, &what)?;
                    cx.label("append");
                    if raw.len() > min_len {
                        cx.nontrivial(mix(index_fp, mix(fi as u64 + 6000, fp(bytes))));
                    }
                }
                Dmg::TwoFiles { other, pos, pos2 } => {
                    let fj = at(*other, files.len());
                    if fj == fi {
                        continue;
                    }
                    let Some((body2, _)) = split_footer(&raws[fj]) else { fail!("no_footer", "{:?}", files[fj]) };
                    if body_len == 0 || body2 == 0 {
                        continue;
                    }
                    let mut d1 = raw.clone();
                    d1[at(*pos, body_len)] ^= 0x10;
                    let mut d2 = raws[fj].clone();
                    d2[at(*pos2, body2)] ^= 0x01;
                    check(cx, &[(fi, d1), (fj, d2)], false, &what)?;
                    cx.label("two_files");
                    cx.nontrivial(mix(index_fp, mix(mix(fi as u64, fj as u64) + 7000, mix(*pos as u64, *pos2 as u64))));
                }
            }
        }
        cx.label_if(c.index.delete, "index_with_del_file");
        cx.label_if(c.index.commits.len() >= 2, "segments>=2");
        cx.sample(|| json!({"sub":"damage","index":c.index,"files":files.iter().map(|f| f.to_str().unwrap().to_string()).collect::<Vec<_>>(),"damages":c.damages.iter().take(6).collect::<Vec<_>>()}));
        Ok(())
    }
}

// ------------------------------------------------------------------------------------------------
#[derive(Clone, Debug, Serialize, Deserialize)]
pub struct VersionCase {
    index: IndexSpec,
    file: u16,
    version: u32,
    /// library version numbers written into the footer (irrelevant for compatibility)
    semver: (u8, u8, u8),
    /// 0: `semver` as generated; 1: the running library's own major.minor.patch; 2: its major.minor with another patch
    #[serde(default)]
    own_semver: u8,
}
pub struct Versions;
impl Sub for Versions {
    type Case = VersionCase;
    fn name(&self) -> &'static str {
        "versions"
    }
    fn cases(&self, tier: Tier) -> u32 {
        tier.pick(1200, 20000)
    }
    fn strategy(&self, _tier: Tier) -> BoxedStrategy<VersionCase> {
        let index = (prop::collection::vec(1u8..5, 1..3), any::<bool>(), any::<u8>()).prop_map(|(commits, delete, salt)| IndexSpec { commits, delete, salt });
        let version = prop_oneof![4 => 0u32..12, 1 => any::<u32>(), 1 => Just(u32::MAX), 1 => Just(i32::MAX as u32)];
        (index, any::<u16>(), version, (any::<u8>(), any::<u8>(), any::<u8>()), prop_oneof![2 => Just(0u8), 2 => Just(1u8), 1 => Just(2u8)])
            .prop_map(|(index, file, version, semver, own_semver)| VersionCase { index, file, version, semver, own_semver })
            .boxed()
    }
    fn mandatory_labels(&self, _t: Tier) -> Vec<&'static str> {
        vec!["unsupported_low", "unsupported_high", "supported", "footer_with_the_library_release"]
    }
    fn run(&self, c: &VersionCase, cx: &Ctx) -> CaseResult {
        let (dir, index) = build_small_index(&c.index)?;
        let mut files: Vec<PathBuf> =
            index.searchable_segment_metas().or_fail("INFRA:metas")?.iter().flat_map(|m| m.list_files()).filter(|p| dir.exists(p).unwrap_or(false)).collect();
        files.sort();
        let fi = idx(c.file, files.len());
        let raw = dir.atomic_read(&files[fi]).or_fail("INFRA:read")?;
        let Some((body_len, written)) = split_footer(&raw) else { fail!("no_footer", "{:?}", files[fi]) };
        let body = &raw[..body_len];
        // the release numbers the running library writes itself
        let own = |k: &str| written["version"][k].as_u64().unwrap_or(0) as u32;
        let (major, minor, patch) = match c.own_semver {
            0 => (c.semver.0 as u32, c.semver.1 as u32, c.semver.2 as u32),
            1 => (own("major"), own("minor"), own("patch")),
            _ => (own("major"), own("minor"), c.semver.2 as u32),
        };
        cx.label_if(c.own_semver > 0, "footer_with_the_library_release");
        let footer = json!({"version": {"major": major, "minor": minor, "patch": patch, "index_format_version": c.version}, "crc": crc(body)});
        let fj = serde_json::to_vec(&footer).unwrap();
        let mut d = body.to_vec();
        d.extend_from_slice(&fj);
        d.extend_from_slice(&(fj.len() as u32).to_le_bytes());
        d.extend_from_slice(&1337u32.to_le_bytes());
        let d2 = dir.deep_clone();
        d2.atomic_write(&files[fi], &d).or_fail("INFRA:write")?;
        let supported = (tantivy::INDEX_FORMAT_OLDEST_SUPPORTED_VERSION..=tantivy::INDEX_FORMAT_VERSION).contains(&c.version);
        let ix = Index::open(d2).or_fail("open")?;
        let r = ix.directory().open_read(&files[fi]);
        if supported {
            let slice = r.or_fail("supported_version_refused")?;
            let bytes = slice.read_bytes().or_fail("read")?;
            ensure!(bytes.as_slice() == body, "supported_version_misread", "");
            ensure!(ix.validate_checksum().or_fail("validate")?.is_empty(), "supported_version_checksum", "");
            cx.label("supported");
        } else {
            match r {
                Err(OpenReadError::IncompatibleIndex(_)) => {}
                Err(e) => fail!("unsupported_version_wrong_error", "version {} -> {e:?}", c.version),
                Ok(_) => fail!("unsupported_version_accepted", "version {} was opened for reading", c.version),
            }
            // opening a reader over the index must be refused with the incompatibility error too
            // (all components except .del are opened by a SegmentReader)
            let is_del = files[fi].extension().map(|e| e == "del").unwrap_or(false);
            let temp = files[fi].to_str().unwrap().ends_with(".temp");
            if !temp {
                match ix.reader() {
                    Err(TantivyError::IncompatibleIndex(_)) => {}
                    Err(TantivyError::OpenReadError(OpenReadError::IncompatibleIndex(_))) => {}
                    Err(e) => fail!("unsupported_version_wrong_error_reader", "version {} file {:?} -> {e:?}", c.version, files[fi]),
                    Ok(_) => fail!("unsupported_version_reader_opened", "version {} file {:?} (del={is_del})", c.version, files[fi]),
                }
            }
            cx.label(if c.version < tantivy::INDEX_FORMAT_OLDEST_SUPPORTED_VERSION { "unsupported_low" } else { "unsupported_high" });
            cx.nontrivial(mix(fp(&c.index), mix(fi as u64, c.version as u64)));
        }
        cx.sample(|| json!({"sub":"versions","file":files[fi].to_str(),"version":c.version}));
        Ok(())
    }
}

// ------------------------------------------------------------------------------------------------
/// `coverage`: validation walks every component of every committed segment, whatever the history that produced the
/// segments - including segments whose files were created while a garbage collection was deleting other files.
/// A generated history (C02's alphabet) runs on SimDir; then, with >= 2 committed segments, the garbage collection that
/// ends a merge is held at one of its deletions while an indexing worker starts a new segment; after the commit one
/// bit of one file of one committed segment is flipped: validate_checksum must name exactly that file, through the
/// writing Index and through a fresh Index::open.
#[derive(Clone, Debug, Serialize, Deserialize)]
pub struct CoverageCase {
    pub cfg: crate::hist::HistCfg,
    pub prefix: Vec<crate::hist::Op>,
    pub adds: Vec<crate::hist::AddSpec>,
    /// hold the collector at its n-th deletion
    pub nth: u8,
    /// victim file (fraction of the committed files), byte (fraction of the body), bit
    pub victim: (u16, u16, u8),
}
pub struct Coverage;
impl Sub for Coverage {
    type Case = CoverageCase;
    fn name(&self) -> &'static str {
        "coverage"
    }
    fn cases(&self, tier: Tier) -> u32 {
        tier.pick(400, 6000)
    }
    fn shards(&self, _t: Tier) -> usize {
        8
    }
    fn max_shrink_iters(&self) -> u32 {
        200
    }
    fn strategy(&self, _tier: Tier) -> BoxedStrategy<CoverageCase> {
        use crate::hist::*;
        static DIRS: [DirKind; 1] = [DirKind::Sim];
        let cfg = cfg_strategy(&DIRS).prop_map(|mut c| {
            c.threads = c.threads.min(3);
            c.policy = Policy::NoMerge;
            c.short_writes = false;
            c
        });
        let prefix_op = prop_oneof![8 => add_strategy().prop_map(Op::Add), 1 => any::<u16>().prop_map(Op::DelUid), 3 => Just(Op::Commit), 1 => Just(Op::Rollback), 1 => any::<u16>().prop_map(Op::Merge)];
        (cfg, prop::collection::vec(prefix_op, 3..24), prop::collection::vec(add_strategy(), 1..5), 0u8..5, (any::<u16>(), any::<u16>(), 0u8..8))
            .prop_map(|(cfg, prefix, adds, nth, victim)| CoverageCase { cfg, prefix, adds, nth, victim })
            .boxed()
    }
    fn mandatory_labels(&self, _t: Tier) -> Vec<&'static str> {
        vec!["collector_held_while_files_are_registered", "victim_in_segment_created_during_collection", "victim_in_older_segment"]
    }
    fn run(&self, c: &CoverageCase, cx: &Ctx) -> CaseResult {
        use crate::hist::*;
        use crate::simdir::{GateSpec, K};
        use std::time::Duration;
        let mut env = Env::new(c.cfg.clone())?;
        env.check_quiescence = false;
        env.skip_dirty_delete_all = true;
        let DirHandle::Sim(sd) = &env.dir else { return Err(Failure::new("INFRA:not_sim", "")) };
        let sd = sd.clone();
        sd.set_logging(true, false);
        for op in &c.prefix {
            env.apply(op, cx)?;
        }
        env.apply(&Op::Commit, cx)?;
        let mut ids = env.index.searchable_segment_ids().or_fail("segment_ids_failed")?;
        if ids.len() < 2 {
            // make a second segment
            for a in &c.adds {
                env.apply(&Op::Add(a.clone()), cx)?;
            }
            env.apply(&Op::Commit, cx)?;
            ids = env.index.searchable_segment_ids().or_fail("segment_ids_failed")?;
        }
        let mut new_files: std::collections::BTreeSet<String> = Default::default();
        if ids.len() >= 2 {
            let gate = sd.add_gate(GateSpec { thread: "segment_updater".into(), kind: Some(K::Delete), path_suffix: String::new(), nth: c.nth as usize, max_hold: Duration::from_millis(250) });
            let fut = env.writer.as_mut().unwrap().merge(&ids);
            let reached = sd.wait_reached(gate, Duration::from_millis(300));
            let before = sd.log_len();
            for a in &c.adds {
                env.apply(&Op::Add(a.clone()), cx)?;
            }
            // wait (bounded) until a worker has created the files of the new segment
            let t0 = std::time::Instant::now();
            loop {
                new_files = sd.clone_log().iter().skip(before).filter(|o| o.kind == K::Create && o.thread.starts_with("thrd-tantivy-index")).map(|o| o.path.to_string_lossy().to_string()).collect();
                if new_files.len() >= 5 || t0.elapsed() > Duration::from_millis(150) {
                    break;
                }
                std::thread::sleep(Duration::from_millis(1));
            }
            cx.label_if(reached && sd.gate_pending(gate) && !new_files.is_empty(), "collector_held_while_files_are_registered");
            sd.disarm(gate);
            let _ = fut.wait();
        } else {
            for a in &c.adds {
                env.apply(&Op::Add(a.clone()), cx)?;
            }
        }
        env.apply(&Op::Commit, cx)?;
        {
            let w = env.writer.take().unwrap();
            w.wait_merging_threads().or_fail("wait_merging_threads_failed")?;
        }
        // the files of the committed segments
        let mut files: Vec<String> = vec![];
        {
            let metas = env.index.searchable_segment_metas().or_fail("metas_failed")?;
            for m in &metas {
                for f in m.list_files() {
                    let name = f.to_string_lossy().to_string();
                    if sd.st.lock().unwrap().files.contains_key(&f) {
                        files.push(name);
                    }
                }
            }
        }
        files.sort();
        if files.is_empty() {
            return Ok(());
        }
        // prefer (every other case) a file of the segment that was created during the collection
        let during: Vec<String> = files.iter().filter(|f| new_files.contains(*f)).cloned().collect();
        let victim = if !during.is_empty() && c.victim.2 % 2 == 0 { during[idx(c.victim.0, during.len())].clone() } else { files[idx(c.victim.0, files.len())].clone() };
        cx.label_if(new_files.contains(&victim), "victim_in_segment_created_during_collection");
        cx.label_if(!new_files.contains(&victim), "victim_in_older_segment");
        let vpath = PathBuf::from(&victim);
        {
            let mut st = sd.st.lock().unwrap();
            let data = st.files.get(&vpath).cloned().unwrap();
            let Some((body_len, _)) = split_footer(&data) else { return Err(Failure::new("no_footer", format!("{victim}: {} bytes", data.len()))) };
            if body_len == 0 {
                return Ok(());
            }
            let mut bytes = (*data).clone();
            bytes[idx(c.victim.1, body_len)] ^= 1 << (c.victim.2 % 8);
            st.files.insert(vpath.clone(), Arc::new(bytes));
        }
        cx.evals(1);
        for (what, ix) in [("writing index", env.index.clone()), ("fresh Index::open", Index::open(sd.clone()).or_fail("index_open_failed")?)] {
            let bad = ix.validate_checksum().or_fail("validate_checksum_failed")?;
            ensure!(
                bad.contains(&vpath),
                "damaged_file_not_reported",
                "{what}: one bit of {victim} (file of a committed segment{}) was flipped, validate_checksum reports {bad:?}; managed files: {}",
                if new_files.contains(&victim) { ", created while a garbage collection was deleting files" } else { "" },
                ix.directory().list_managed_files().len()
            );
            ensure!(bad.len() == 1, "undamaged_file_reported", "{what}: only {victim} was damaged, validate_checksum reports {bad:?}");
        }
        cx.nontrivial(fp(c));
        cx.sample(|| json!({"sub": "coverage", "cfg": c.cfg, "prefix": c.prefix.len(), "victim": victim}));
        Ok(())
    }
}
