//! C01 — commit is atomic and durable across a crash at any instant.
use proptest::prelude::*;
use serde::{Deserialize, Serialize};
use serde_json::json;

use crate::crash::check_image;
use crate::engine::*;
use crate::hist::*;
use crate::simdir::{image, thread_class, DataOutcome, Pending, Replay, K};

pub fn def() -> PropDef {
    PropDef {
        id: "C01",
        level: "fault_enumeration",
        rule: "Generated histories (5-40 ops: adds, deletes, batches, commits with payload c<n>, aborts, rollbacks, explicit and policy merges, gc, writer drop/reopen; 1-4 threads, flush-every-N, sorted or not) run once on SimDir with all background threads live; the operation log (create/append/flush/terminate/atomic-write/delete/sync-directory with payloads and thread) is then cut at every boundary (thorough) or at every boundary next to a metadata/updater/merge operation plus a stride elsewhere (quick) and each cut is materialised under persistence outcomes MIN (only what the contract guarantees durable), MAX, RENAMES-only, UNLINKS-only, CREATES-only, ORDERED prefixes of the pending directory operations and INDEP random subsets, each with un-synced bytes lost / empty / truncated at a generated offset / fully present. Every image must satisfy the recovery predicate: Index::open, payload in {last acknowledged commit, commit in progress}, referenced files present, checksums valid, searcher content == model of that commit, and (on a deterministic quarter of the images) new writer + add + commit + gc succeed with the expected content and no orphan. Non-trivial = boundary strictly inside a commit / merge / gc call or an image that differs from both MIN and MAX; distinct by hash(history, boundary, outcome).",
        assumptions: vec![
            "durability model = the Directory contract as implemented by MmapDirectory: bytes durable after terminate (sync_data), directory entries (create, atomic_write's rename, unlink) durable after the next sync_directory; atomic_write content is synced before its rename",
            "crash points are storage-operation boundaries; a crash inside one write is covered by the truncated outcome",
            "lock files are excluded from images (advisory locks die with the process)",
            "sub mmap_syscalls checks the first assumption on the real MmapDirectory: generated Directory programs and indexing histories run in a child process under strace; per operation (atomic_write: temp file written completely, fsynced, then renamed; terminate: fsync after the last write, every appended byte written; sync_directory: fsync of the directory; delete: unlink) and per commit (every file referenced by the published meta.json was data-synced and its directory entry synced before the meta.json rename, which is itself followed by a directory sync before commit() returns)",
        ],
        subs: vec![Box::new(Crash { orphans: false }), Box::new(super::c01_mmap::MmapSyscalls)],
    }
}

#[derive(Clone, Debug, Serialize, Deserialize)]
pub struct CrashCase {
    pub cfg: HistCfg,
    pub ops: Vec<Op>,
    pub salt: u64,
}

/// `orphans` = also evaluate C10's no-orphan predicate on every deeply recovered image (used by C10)
pub struct Crash {
    pub orphans: bool,
}
impl Sub for Crash {
    type Case = CrashCase;
    fn name(&self) -> &'static str {
        "crash"
    }
    fn cases(&self, tier: Tier) -> u32 {
        if self.orphans {
            tier.pick(10, 100)
        } else {
            tier.pick(64, 250)
        }
    }
    fn max_shrink_iters(&self) -> u32 {
        120
    }
    fn strategy(&self, _tier: Tier) -> BoxedStrategy<CrashCase> {
        static DIRS: [DirKind; 1] = [DirKind::Sim];
        let cfg = cfg_strategy(&DIRS).prop_map(|mut c| {
            c.threads = c.threads.min(4);
            c
        });
        (cfg, prop::collection::vec(op_strategy(true), 5..40), any::<u64>()).prop_map(|(cfg, ops, salt)| CrashCase { cfg, ops, salt }).boxed()
    }
    fn mandatory_labels(&self, _t: Tier) -> Vec<&'static str> {
        vec!["boundary_in_commit", "boundary_by_merge_thread", "image_between_min_and_max", "outcome:MIN", "outcome:INDEP", "outcome:ORDERED", "deep_recovery", "history_with_merge", "history_with_rollback", "commit_failed_at_metadata_write", "boundary_after_failed_commit"]
    }
    fn run(&self, c: &CrashCase, cx: &Ctx) -> CaseResult {
        // 1. run the history once on SimDir
        let mut env = Env::new(c.cfg.clone())?;
        env.check_quiescence = false;
        env.verify_each_commit = false;
        env.skip_dirty_delete_all = true;
        let DirHandle::Sim(sd) = &env.dir else { return Err(Failure::new("INFRA:not_sim", "")) };
        let sd = sd.clone();
        let created_at = sd.log_len();
        for op in &c.ops {
            env.apply(op, cx)?;
        }
        env.apply(&Op::Commit, cx)?;
        // In one history out of four (without a merging policy) one more transaction follows whose commit fails with an
        // I/O error at the replacement of meta.json (or at a directory sync of the updater); the failed writer then
        // collects garbage; the crash images taken from there on must still expose the last commit (or the one that
        // failed, if its metadata had been replaced already).
        // In another quarter of the histories: whoever collects garbage from a thread other than the segment updater (the
        // merge thread at the end of a merge, say) is held right before it takes the meta lock, until a commit that
        // supersedes a delete file of the previous commit sits between the replacement of meta.json and the directory
        // sync that makes it durable; then the collector runs.  (On a tree where every collection runs on the updater
        // thread the first gate is never reached and this is just one more merge and commit.)
        let mut must_check: Vec<(usize, usize)> = vec![];
        if c.salt % 4 == 2 {
            // (three more small commits, so that there are segments to merge and one to keep out of the merge)
            for r in 0..3u8 {
                for k in 0..3u8 {
                    env.apply(&Op::Add(AddSpec { grp: (r + k) % NUM_GROUPS, words: vec![k % NUM_WORDS, r % NUM_WORDS], num: (r * 3 + k) as i16 }), cx)?;
                }
                env.apply(&Op::Commit, cx)?;
            }
            // the segment with the most live documents stays out of the merge and gets a delete file first
            let mut seg_uids: Vec<(tantivy::index::SegmentId, Vec<u64>)> = vec![];
            {
                let (_r, s) = env.searcher()?;
                for seg in s.segment_readers() {
                    let col = seg.fast_fields().u64("uid").or_fail("fast_uid_failed")?;
                    seg_uids.push((seg.segment_id(), seg.doc_ids_alive().filter_map(|d| col.first(d)).collect()));
                }
            }
            seg_uids.sort_by_key(|x| std::cmp::Reverse(x.1.len()));
            let ids: Vec<tantivy::index::SegmentId> = seg_uids.iter().skip(1).map(|x| x.0).collect();
            if ids.len() >= 2 && seg_uids[0].1.len() >= 3 {
                let youngest: Vec<u64> = seg_uids[0].1.iter().take(2).cloned().collect();
                {
                    let uid_field = env.f.uid;
                    env.writer.as_ref().unwrap().delete_term(tantivy::Term::from_field_u64(uid_field, youngest[0]));
                    env.pending.remove(&youngest[0]);
                    env.last_opstamp = None;
                    env.apply(&Op::Commit, cx)?;
                    // (a log point: "Running garbage collection" is logged before the collector takes any lock)
                    let g_gc = crate::loggate::arm("merge_thread", "Running garbage collection", std::time::Duration::from_millis(400));
                    let fut = env.writer.as_mut().unwrap().merge(&ids);
                    let _ = fut.wait();
                    if crate::loggate::wait_reached(g_gc, std::time::Duration::from_millis(25)) {
                        cx.label("collector_outside_updater_held_before_meta_lock");
                        let g_a = sd.add_gate(crate::simdir::GateSpec { thread: "segment_updater".into(), kind: Some(K::AtomicWrite), path_suffix: "meta.json".into(), nth: 0, max_hold: std::time::Duration::from_millis(300) });
                        env.writer.as_ref().unwrap().delete_term(tantivy::Term::from_field_u64(uid_field, youngest[1]));
                        env.pending.remove(&youngest[1]);
                        env.last_opstamp = None;
                        let payload = format!("c{}", env.commits + 1);
                        let span_start = sd.log_len();
                        let commit_future = {
                            let w = env.writer.as_mut().unwrap();
                            let mut pc = w.prepare_commit().or_fail("prepare_commit_failed")?;
                            pc.set_payload(&payload);
                            pc.commit_future()
                        };
                        if sd.wait_reached(g_a, std::time::Duration::from_millis(250)) {
                            let g_s = sd.add_gate(crate::simdir::GateSpec { thread: "segment_updater".into(), kind: Some(K::SyncDir), path_suffix: String::new(), nth: 0, max_hold: std::time::Duration::from_millis(300) });
                            sd.release(g_a);
                            sd.wait_reached(g_s, std::time::Duration::from_millis(250));
                            crate::loggate::release(g_gc);
                            // let the collector finish
                            std::thread::sleep(std::time::Duration::from_millis(60));
                            sd.disarm(g_s);
                        } else {
                            sd.disarm(g_a);
                            crate::loggate::release(g_gc);
                        }
                        let o = commit_future.wait().or_fail("commit_failed")?;
                        if std::env::var("TVV_C01_DEBUG").is_ok() {
                            for (n, op) in sd.clone_log().iter().enumerate().skip(span_start) {
                                eprintln!("C01DBG {n:5} {:22} {:?} {}", op.thread, op.kind, op.path.display());
                            }
                        }
                        env.commits += 1;
                        env.stats.commits += 1;
                        env.last_commit_opstamp = o;
                        env.committed = env.pending.clone();
                        env.models.push(env.committed.clone());
                        env.commit_spans.push((env.commits, span_start, sd.log_len()));
                        must_check.push((span_start, sd.log_len()));
                        env.dirty = false;
                    } else {
                        crate::loggate::disarm(g_gc);
                    }
                }
            }
        }
        let mut failed_commit: Option<(u64, usize)> = None;
        let mut models_extra: Option<Model> = None;
        if c.salt % 4 == 1 && c.cfg.policy == Policy::NoMerge {
            env.apply(&Op::Add(AddSpec { grp: (c.salt >> 8) as u8 % NUM_GROUPS, words: vec![1, 2], num: 3 }), cx)?;
            env.apply(&Op::DelUid((c.salt >> 16) as u16), cx)?;
            env.apply(&Op::DelGroup((c.salt >> 20) as u8 % NUM_GROUPS), cx)?;
            let start = sd.log_len();
            let at_rename = (c.salt >> 4) & 1 == 0;
            sd.set_faults(vec![crate::simdir::FaultRule {
                kinds: vec![if at_rename { K::AtomicWrite } else { K::SyncDir }],
                thread: "segment_updater".into(),
                path_suffix: if at_rename { "meta.json".into() } else { String::new() },
                nth: 0,
                permanent: false,
                locks: false,
            }]);
            let would_publish = env.pending.clone();
            let r = env.apply(&Op::Commit, cx);
            let fired = sd.faults_fired() > 0;
            sd.clear_faults();
            match r {
                Err(_) if fired => {
                    failed_commit = Some((env.commits + 1, start));
                    models_extra = Some(would_publish);
                    cx.label("commit_failed_at_metadata_write");
                    if let Some(w) = env.writer.as_ref() {
                        let _ = w.garbage_collect_files().wait();
                    }
                }
                Err(f) => return Err(f),
                Ok(()) => {}
            }
        }
        {
            let w = env.writer.take().unwrap();
            let r = w.wait_merging_threads();
            if failed_commit.is_none() {
                r.or_fail("wait_merging_threads_failed")?;
            }
        }
        let log = sd.take_log();
        cx.label_if(env.stats.commits_during_merge_end > 0, "commit_held_while_merge_ends");
        let spans = env.commit_spans.clone();
        let mut models = env.models.clone();
        if let (Some((jf, _)), Some(m)) = (&failed_commit, models_extra) {
            debug_assert_eq!(*jf as usize, models.len());
            models.push(m);
        }
        drop(env);
        cx.label_if(log.iter().any(|o| thread_class(&o.thread) == "merge"), "history_with_merge");
        cx.label_if(c.ops.iter().any(|o| matches!(o, Op::Rollback | Op::PrepareAbort)), "history_with_rollback");
        cx.count("log_ops", log.len() as u64);

        // 2. choose boundaries
        let n = log.len();
        let interesting = |b: usize| -> bool {
            // boundary b lies between op b-1 and op b
            let near = |o: &crate::simdir::Op| {
                matches!(o.kind, K::AtomicWrite | K::Delete | K::SyncDir | K::Terminate | K::Create) || matches!(thread_class(&o.thread), "updater" | "merge")
            };
            (b > 0 && near(&log[b - 1])) || (b < n && near(&log[b]))
        };
        let mut boundaries: Vec<usize> = vec![];
        match cx.tier {
            Tier::Thorough => boundaries.extend(created_at..=n),
            Tier::Quick => {
                let all_int: Vec<usize> = (created_at..=n).filter(|b| interesting(*b)).collect();
                let cap = 170usize;
                let step = all_int.len().div_ceil(cap).max(1);
                let off = (c.salt as usize) % step;
                boundaries.extend(all_int.iter().skip(off).step_by(step).cloned());
                boundaries.extend((created_at..=n).filter(|b| !interesting(*b)).skip((c.salt as usize >> 8) % 7).step_by(7).take(40));
                // every boundary of a deliberately constructed schedule
                for (a, b) in &must_check {
                    boundaries.extend((*a..=*b).filter(|x| *x <= n));
                }
                boundaries.sort();
                boundaries.dedup();
            }
        }
        // 3. replay incrementally and judge images
        let case_fp = fp(c);
        let mut replay = Replay::new();
        let mut fed = 0usize;
        for &b in &boundaries {
            while fed < b {
                replay.feed(&log[fed]);
                fed += 1;
            }
            let last_acked = spans.iter().filter(|(_, _, end)| *end <= b).map(|(j, _, _)| *j).max().unwrap_or(0);
            let mut acceptable = vec![last_acked];
            let mut in_commit = false;
            for (j, start, end) in &spans {
                if *start <= b && b < *end {
                    acceptable.push(*j);
                    in_commit = true;
                }
            }
            if let Some((jf, start)) = failed_commit {
                if b > start {
                    // the failed commit may have replaced the metadata before it reported the error
                    acceptable.push(jf);
                    cx.label("boundary_after_failed_commit");
                }
            }
            let by_bg = b > 0 && matches!(thread_class(&log[b - 1].thread), "merge");
            let by_updater = b > 0 && thread_class(&log[b - 1].thread) == "updater";
            cx.label_if(in_commit, "boundary_in_commit");
            cx.label_if(by_bg, "boundary_by_merge_thread");
            cx.label_if(by_updater && !in_commit, "boundary_by_updater_outside_commit");
            let np = replay.pending.len();
            let unsynced_files = replay.data.values().filter(|f| f.written.len() > f.synced).count();
            let h = mix(c.salt, b as u64);
            // outcome list: (name, mask, data)
            type Mask = Box<dyn Fn(usize, &Pending) -> bool>;
            let mut outcomes: Vec<(String, Mask, DataOutcome)> = vec![
                ("MIN".into(), Box::new(|_, _| false), DataOutcome::Lost),
                ("MAX".into(), Box::new(|_, _| true), DataOutcome::Full),
            ];
            if np > 0 {
                outcomes.push(("RENAMES".into(), Box::new(|_, p| matches!(p, Pending::Rename(..))), DataOutcome::Lost));
                outcomes.push(("UNLINKS".into(), Box::new(|_, p| matches!(p, Pending::Unlink(..))), DataOutcome::Truncated(h)));
                outcomes.push(("CREATES".into(), Box::new(|_, p| matches!(p, Pending::Create(..))), DataOutcome::Empty));
                let nord = cx.tier.pick(2usize, 6).min(np);
                for i in 0..nord {
                    let k = 1 + (mix(h, i as u64) as usize) % np; // prefix length 1..=np
                    outcomes.push((format!("ORDERED"), Box::new(move |idx, _| idx < k), if i % 2 == 0 { DataOutcome::Truncated(mix(h, 77 + i as u64)) } else { DataOutcome::Lost }));
                }
                let r = cx.tier.pick(3u64, 12);
                for i in 0..r {
                    let m = mix(h, 1000 + i);
                    let data = match i % 3 {
                        0 => DataOutcome::Truncated(m),
                        1 => DataOutcome::Lost,
                        _ => DataOutcome::Full,
                    };
                    outcomes.push(("INDEP".into(), Box::new(move |idx, _| (mix(m, idx as u64) >> 17) & 1 == 1), data));
                }
            } else if unsynced_files > 0 {
                outcomes.push(("DATA".into(), Box::new(|_, _| false), DataOutcome::Truncated(h)));
                outcomes.push(("DATA".into(), Box::new(|_, _| false), DataOutcome::Full));
            }
            for (oi, (name, mask, data)) in outcomes.iter().enumerate() {
                let files = image(&replay, &**mask, *data);
                let applied = replay.pending.iter().enumerate().filter(|(i, p)| mask(*i, p)).count();
                let between = np > 0 && applied > 0 && applied < np;
                let deep = (mix(h, oi as u64) & 3) == 0;
                cx.evals(1);
                cx.count("images", 1);
                cx.label(&format!("outcome:{name}"));
                cx.label_if(between, "image_between_min_and_max");
                cx.label_if(deep, "deep_recovery");
                // known finding (C10): under reordering outcomes a file creation can persist while the
                // preceding .managed.json replace does not -> unmanaged orphan. While it is open the
                // orphan predicate is evaluated for the ordered outcomes only (exclusions counted).
                let reordered = !matches!(name.as_str(), "MIN" | "MAX" | "ORDERED" | "DATA");
                let mut orphans = self.orphans;
                if orphans && reordered && cx.known_open("recover:orphan_unmanaged@reordered") {
                    orphans = false;
                    cx.excluded("recover:orphan_unmanaged@reordered", 1);
                }
                cx.label_if(orphans, "orphan_predicate_evaluated");
                match check_image(files, &acceptable, &models, deep || self.orphans, orphans) {
                    Ok(_) => {}
                    Err(f) => {
                        // orphan findings are keyed by the outcome *class*: an ordered (journal-like) storage
                        // vs. one that reorders un-synced directory operations
                        let sig = if f.sig.starts_with("recover:orphan") {
                            let class = if matches!(name.as_str(), "MIN" | "MAX" | "ORDERED" | "DATA") { "ordered" } else { "reordered" };
                            format!("{}@{}", f.sig, class)
                        } else {
                            format!("{}@{}", f.sig, name)
                        };
                        let prev = if b > 0 { format!("{:?} {:?} by {}", log[b - 1].kind, log[b - 1].path, log[b - 1].thread) } else { "-".into() };
                        let pend: Vec<String> = replay
                            .pending
                            .iter()
                            .enumerate()
                            .map(|(i, p)| {
                                format!(
                                    "{}{}",
                                    if mask(i, p) { "+" } else { "-" },
                                    match p {
                                        Pending::Create(p) => format!("create {}", p.display()),
                                        Pending::Rename(p, _) => format!("rename {}", p.display()),
                                        Pending::Unlink(p) => format!("unlink {}", p.display()),
                                    }
                                )
                            })
                            .collect();
                        return Err(Failure::new(
                            sig,
                            format!(
                                "boundary {b}/{n} (after {prev}), outcome {name} data {data:?}, acceptable commits {acceptable:?}: {}; pending dir ops (+ applied): {pend:?}",
                                f.detail
                            ),
                        ));
                    }
                }
                if in_commit || by_bg || between {
                    cx.nontrivial(mix(case_fp, mix(b as u64, oi as u64)));
                }
            }
        }
        cx.sample(|| json!({"sub": "crash", "cfg": c.cfg, "ops": c.ops, "log_ops": n, "boundaries_checked": boundaries.len(), "commit_spans": spans}));
        Ok(())
    }
}
