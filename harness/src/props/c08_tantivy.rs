//! C08 layer B — fast fields through tantivy: schema -> IndexWriter -> SegmentReader::fast_fields(),
//! after indexing and after deletes + IndexWriter::merge (optionally in a sorted index).
use std::collections::BTreeMap;
use std::net::Ipv6Addr;

use proptest::prelude::*;
use serde::{Deserialize, Serialize};
use serde_json::json;
use tantivy::columnar::{Column, DynamicColumn};
use tantivy::schema::document::OwnedValue;
use tantivy::schema::*;
use tantivy::{DateTime, Index, IndexSettings, IndexSortByField, IndexWriter, Order, SegmentReader, TantivyDocument, Term};

use super::c08::*;
use super::c08_columnar::{check_dynamic_column, query_strategy};
use crate::engine::*;
use crate::{ensure, fail};

#[derive(Clone, Debug, Serialize, Deserialize)]
pub enum J {
    Null,
    B(bool),
    I(i64),
    U(u64),
    /// f64 bits
    F(u64),
    S(String),
    /// date, nanoseconds
    D(i64),
    A(Vec<J>),
    /// object; keys are indexes into JKEYS
    O(Vec<(u8, J)>),
}
const JKEYS: [&str; 7] = ["a", "b", "c", "k", "k.x", "x", "a b"];

#[derive(Clone, Debug, Default, Serialize, Deserialize)]
pub struct DocSpec {
    pub u: Vec<u64>,
    pub i: Vec<i64>,
    pub f: Vec<u64>,
    pub b: Vec<bool>,
    pub d: Vec<i64>,
    pub ip: Vec<(u64, u64)>,
    pub by: Vec<Vec<u8>>,
    pub s: Vec<String>,
    pub t: Vec<String>,
    pub j: Vec<(u8, J)>,
}

#[derive(Clone, Debug, Serialize, Deserialize)]
pub struct SchemaSpec {
    /// 0 seconds, 1 millis, 2 micros, 3 nanos
    pub date_precision: u8,
    /// fast tokenizer of "fs": 0 none, 1 "raw"
    pub raw_tok: u8,
    /// fast tokenizer of "ft": 0 "default", 1 "whitespace"
    pub text_tok: u8,
    /// fast tokenizer of the json field: 0 none, 1 "raw", 2 "default"
    pub json_tok: u8,
    pub expand_dots: bool,
    /// None: unsorted; Some(desc): index sorted by "sk"
    pub sort: Option<bool>,
    /// cardinality mode per field u,i,f,b,d,ip,by,s: 0 exactly one value per doc, 1 at most one, 2 as generated
    pub modes: [u8; 8],
}

#[derive(Clone, Debug, Serialize, Deserialize)]
pub struct ThroughCase {
    pub schema: SchemaSpec,
    pub docs: Vec<DocSpec>,
    /// commit after these positions (fractions of docs.len())
    pub cuts: Vec<u16>,
    /// total number of documents: the generated docs are repeated cyclically up to this count (0 = docs.len())
    #[serde(default)]
    pub inflate: u32,
    /// docs deleted before the merge (fractions)
    pub deletes: Vec<u16>,
    pub queries: Vec<RangeQ>,
}

// ------------------------------------------------------------------------------------------------
// model
type DocModel = BTreeMap<(String, Cat), Vec<Val>>;

fn tokens(text: &str, tok: &str) -> Vec<String> {
    match tok {
        "raw" | "" => vec![text.to_string()],
        "whitespace" => text.split(|c: char| c.is_whitespace()).filter(|w| !w.is_empty()).map(|w| w.to_string()).collect(),
        _ => text.split(|c: char| !c.is_alphanumeric()).filter(|w| !w.is_empty() && w.len() < 40).map(|w| w.to_lowercase()).collect(),
    }
}

fn truncate_date(nanos: i64, precision: u8) -> i64 {
    let unit: i64 = match precision {
        0 => 1_000_000_000,
        1 => 1_000_000,
        2 => 1_000,
        _ => 1,
    };
    (nanos / unit) * unit
}

fn escape_dots(seg: &str) -> String {
    seg.replace('.', "\\.")
}

fn flatten_json(j: &J, path: &mut Vec<String>, spec: &SchemaSpec, out: &mut DocModel) {
    let name = |path: &Vec<String>| -> String { std::iter::once("j".to_string()).chain(path.iter().map(|s| escape_dots(s))).collect::<Vec<_>>().join(".") };
    match j {
        J::Null => {}
        J::B(b) => out.entry((name(path), Cat::Bool)).or_default().push(Val::B(*b)),
        J::I(x) => out.entry((name(path), Cat::Num)).or_default().push(Val::I(*x)),
        J::U(x) => out.entry((name(path), Cat::Num)).or_default().push(Val::U(*x)),
        J::F(x) => out.entry((name(path), Cat::Num)).or_default().push(Val::F(*x)),
        J::D(x) => out.entry((name(path), Cat::Date)).or_default().push(Val::D(*x)),
        J::S(s) => {
            let toks = match spec.json_tok {
                0 => vec![s.clone()],
                1 => tokens(s, "raw"),
                _ => tokens(s, "default"),
            };
            if !toks.is_empty() {
                out.entry((name(path), Cat::Str)).or_default().extend(toks.into_iter().map(|t| Val::Bin(t.into_bytes())));
            }
        }
        J::A(els) => {
            for e in els {
                flatten_json(e, path, spec, out);
            }
        }
        J::O(kvs) => {
            for (k, v) in dedup_keys(kvs) {
                let key = JKEYS[k as usize % JKEYS.len()];
                let pushed = if spec.expand_dots {
                    let segs: Vec<&str> = key.split('.').collect();
                    for s in &segs {
                        path.push(s.to_string());
                    }
                    segs.len()
                } else {
                    path.push(key.to_string());
                    1
                };
                flatten_json(v, path, spec, out);
                for _ in 0..pushed {
                    path.pop();
                }
            }
        }
    }
}

/// objects keep the first occurrence of a key
fn dedup_keys(kvs: &[(u8, J)]) -> Vec<(u8, &J)> {
    let mut seen = vec![];
    let mut out = vec![];
    for (k, v) in kvs {
        let k = *k % JKEYS.len() as u8;
        if !seen.contains(&k) {
            seen.push(k);
            out.push((k, v));
        }
    }
    out
}

fn to_owned_value(j: &J) -> OwnedValue {
    match j {
        J::Null => OwnedValue::Null,
        J::B(b) => OwnedValue::Bool(*b),
        J::I(x) => OwnedValue::I64(*x),
        J::U(x) => OwnedValue::U64(*x),
        J::F(x) => OwnedValue::F64(f64::from_bits(*x)),
        J::S(s) => OwnedValue::Str(s.clone()),
        J::D(x) => OwnedValue::Date(DateTime::from_timestamp_nanos(*x)),
        J::A(els) => OwnedValue::Array(els.iter().map(to_owned_value).collect()),
        J::O(kvs) => OwnedValue::Object(dedup_keys(kvs).into_iter().map(|(k, v)| (JKEYS[k as usize].to_string(), to_owned_value(v))).collect()),
    }
}

fn apply_mode<T: Clone>(vals: &[T], mode: u8, default: T) -> Vec<T> {
    match mode {
        0 => vec![vals.first().cloned().unwrap_or(default)],
        1 => vals.first().cloned().into_iter().collect(),
        _ => vals.to_vec(),
    }
}

struct Fields {
    uid: Field,
    sk: Field,
    fu: Field,
    fi: Field,
    ff: Field,
    fb: Field,
    fd: Field,
    fip: Field,
    fby: Field,
    fs: Field,
    ft: Field,
    j: Field,
}

fn build_schema(spec: &SchemaSpec) -> (Schema, Fields) {
    let mut sb = Schema::builder();
    let uid = sb.add_u64_field("uid", FAST | STORED | INDEXED);
    let sk = sb.add_u64_field("sk", FAST);
    let fu = sb.add_u64_field("fu", FAST);
    let fi = sb.add_i64_field("fi", FAST);
    let ff = sb.add_f64_field("ff", FAST);
    let fb = sb.add_bool_field("fb", FAST);
    let precision = match spec.date_precision {
        0 => DateTimePrecision::Seconds,
        1 => DateTimePrecision::Milliseconds,
        2 => DateTimePrecision::Microseconds,
        _ => DateTimePrecision::Nanoseconds,
    };
    let fd = sb.add_date_field("fd", DateOptions::default().set_fast().set_precision(precision));
    let fip = sb.add_ip_addr_field("fip", IpAddrOptions::default().set_fast());
    let fby = sb.add_bytes_field("fby", BytesOptions::default().set_fast());
    let fs = sb.add_text_field("fs", TextOptions::default().set_fast(if spec.raw_tok == 0 { None } else { Some("raw") }));
    let ft = sb.add_text_field("ft", TEXT.set_fast(Some(if spec.text_tok == 0 { "default" } else { "whitespace" })));
    let mut jo = JsonObjectOptions::default().set_fast(match spec.json_tok {
        0 => None,
        1 => Some("raw"),
        _ => Some("default"),
    });
    if spec.expand_dots {
        jo = jo.set_expand_dots_enabled();
    }
    let j = sb.add_json_field("j", jo);
    (sb.build(), Fields { uid, sk, fu, fi, ff, fb, fd, fip, fby, fs, ft, j })
}

fn sort_key(uid: u64) -> u64 {
    mix(uid, 99) % 7
}

/// builds the tantivy document and its model
fn make_doc(uid: u64, d: &DocSpec, spec: &SchemaSpec, f: &Fields) -> (TantivyDocument, DocModel) {
    let mut doc = TantivyDocument::default();
    let mut m: DocModel = BTreeMap::new();
    doc.add_u64(f.uid, uid);
    m.insert(("uid".into(), Cat::Num), vec![Val::U(uid)]);
    doc.add_u64(f.sk, sort_key(uid));
    m.insert(("sk".into(), Cat::Num), vec![Val::U(sort_key(uid))]);
    let md = &spec.modes;
    for v in apply_mode(&d.u, md[0], uid.wrapping_mul(3)) {
        doc.add_u64(f.fu, v);
        m.entry(("fu".into(), Cat::Num)).or_default().push(Val::U(v));
    }
    for v in apply_mode(&d.i, md[1], uid as i64 - 5) {
        doc.add_i64(f.fi, v);
        m.entry(("fi".into(), Cat::Num)).or_default().push(Val::I(v));
    }
    for v in apply_mode(&d.f, md[2], (uid as f64 * 0.5).to_bits()) {
        doc.add_f64(f.ff, f64::from_bits(v));
        m.entry(("ff".into(), Cat::Num)).or_default().push(Val::F(v));
    }
    for v in apply_mode(&d.b, md[3], uid % 2 == 0) {
        doc.add_bool(f.fb, v);
        m.entry(("fb".into(), Cat::Bool)).or_default().push(Val::B(v));
    }
    for v in apply_mode(&d.d, md[4], uid as i64 * 1_000_000_007) {
        doc.add_date(f.fd, DateTime::from_timestamp_nanos(v));
        m.entry(("fd".into(), Cat::Date)).or_default().push(Val::D(truncate_date(v, spec.date_precision)));
    }
    for (hi, lo) in apply_mode(&d.ip, md[5], (0, 0xffff_0000_0000 | (uid & 0xffff_ffff))) {
        let x = ((hi as u128) << 64) | lo as u128;
        doc.add_ip_addr(f.fip, Ipv6Addr::from(x));
        m.entry(("fip".into(), Cat::Ip)).or_default().push(Val::Ip(x));
    }
    for v in apply_mode(&d.by, md[6], uid.to_be_bytes().to_vec()) {
        doc.add_bytes(f.fby, &v);
        m.entry(("fby".into(), Cat::Bytes)).or_default().push(Val::Bin(v));
    }
    for v in apply_mode(&d.s, md[7], format!("s{uid}")) {
        doc.add_text(f.fs, &v);
        m.entry(("fs".into(), Cat::Str)).or_default().push(Val::Bin(v.into_bytes()));
    }
    for v in &d.t {
        doc.add_text(f.ft, v);
        let toks = tokens(v, if spec.text_tok == 0 { "default" } else { "whitespace" });
        if !toks.is_empty() {
            m.entry(("ft".into(), Cat::Str)).or_default().extend(toks.into_iter().map(|t| Val::Bin(t.into_bytes())));
        }
    }
    if !d.j.is_empty() {
        let obj = J::O(d.j.clone());
        doc.add_field_value(f.j, &to_owned_value(&obj));
        let mut path = vec![];
        flatten_json(&obj, &mut path, spec, &mut m);
    }
    (doc, m)
}

fn cat_type_ok(name: &str, dc: &DynamicColumn) -> bool {
    // schema-typed fields must come back with the schema's type
    match name {
        "uid" | "sk" | "fu" => matches!(dc, DynamicColumn::U64(_)),
        "fi" => matches!(dc, DynamicColumn::I64(_)),
        "ff" => matches!(dc, DynamicColumn::F64(_)),
        _ => true,
    }
}

/// one segment against the models of its documents
fn check_segment(seg: &SegmentReader, f: &Fields, models: &BTreeMap<u64, DocModel>, deleted: &[u64], queries: &[RangeQ], cx: &Ctx, phase: &str) -> Result<bool, Failure> {
    let sig = phase;
    let max_doc = seg.max_doc();
    let store = seg.get_store_reader(4).or_fail("INFRA:store_reader")?;
    let mut uids: Vec<u64> = Vec::with_capacity(max_doc as usize);
    for d in 0..max_doc {
        let doc: TantivyDocument = store.get(d).or_fail("INFRA:store_get")?;
        let uid = doc.get_first(f.uid).and_then(|v| v.as_u64()).ok_or_else(|| Failure::new("INFRA:no_uid", format!("doc {d}")))?;
        uids.push(uid);
    }
    if phase == "merged" {
        for u in &uids {
            ensure!(!deleted.contains(u), "INFRA:deleted_doc_in_merged_segment", "uid {u}");
        }
    }
    // logical columns of this segment
    let mut keys: Vec<(String, Cat)> = uids.iter().flat_map(|u| models[u].keys().cloned()).collect();
    keys.sort();
    keys.dedup();
    let ff = seg.fast_fields();
    let mut nontrivial = false;
    let mut json_values_expected = 0u64;
    for key in &keys {
        let mut cm = ColModel::new();
        for u in &uids {
            match models[u].get(key) {
                Some(v) => cm.push_row(v.iter().cloned()),
                None => cm.push_row(std::iter::empty()),
            }
        }
        if key.0.starts_with("j.") {
            json_values_expected += cm.num_vals() as u64;
        }
        let what = format!("{phase} segment(max_doc {max_doc}) field {:?}/{:?}", key.0, key.1);
        let handles = ff.dynamic_column_handles(&key.0).or_fail(&format!("{sig}:dynamic_column_handles"))?;
        let cols: Vec<DynamicColumn> = handles.iter().map(|h| h.open()).collect::<Result<_, _>>().or_fail(&format!("{sig}:open_column"))?;
        let mine: Vec<&DynamicColumn> = cols.iter().filter(|c| cat_of_dynamic(c) == key.1).collect();
        ensure!(mine.len() <= 1, format!("{sig}:duplicate_column"), "{what}: {} columns", mine.len());
        let Some(dc) = mine.first() else {
            ensure!(cm.num_vals() == 0, format!("{sig}:column_missing"), "{what}: {} values were indexed but fast_fields() has no such column (found types {:?})", cm.num_vals(), cols.iter().map(|c| c.column_type()).collect::<Vec<_>>());
            continue;
        };
        ensure!(cat_type_ok(&key.0, dc), format!("{sig}:schema_type_changed"), "{what}: column type {:?}", dc.column_type());
        nontrivial |= check_dynamic_column(dc, &cm, queries, cx, sig, &what)?;
        cx.count("columns_checked", 1);
        cx.evals(1);
        if key.0.starts_with("j.") {
            cx.label("json_subpath_column");
            cx.label_if(key.0.contains("\\."), "json_key_with_escaped_dot");
            cx.label_if(key.0.matches('.').count() >= 2, "json_nested_path");
        }
        // the typed accessors of FastFieldReaders must give the same column
        let rows: Vec<u32> = (0..max_doc).collect();
        macro_rules! typed {
            ($acc:expr, $conv:expr, $pat:pat => $val:expr) => {{
                let col = $acc.or_fail(&format!("{sig}:typed_accessor"))?;
                for r in &rows {
                    let got: Vec<_> = col.values_for_doc(*r).map($conv).collect();
                    let exp: Vec<_> = cm.row(*r).iter().map(|v| match v { $pat => $val, o => panic!("model type {o:?}") }).collect();
                    ensure!(got == exp, format!("{sig}:typed_accessor_values"), "{what}: row {r}: typed accessor returns {got:?}, expected {exp:?}");
                }
            }};
        }
        match key.0.as_str() {
            "uid" | "sk" | "fu" => typed!(ff.u64(&key.0), |v: u64| v, Val::U(x) => *x),
            "fi" => typed!(ff.i64(&key.0), |v: i64| v, Val::I(x) => *x),
            "ff" => typed!(ff.f64(&key.0), |v: f64| v.to_bits(), Val::F(x) => *x),
            "fb" => typed!(ff.bool(&key.0), |v: bool| v, Val::B(x) => *x),
            "fd" => typed!(ff.date(&key.0), |v: DateTime| v.into_timestamp_nanos(), Val::D(x) => *x),
            "fip" => typed!(ff.ip_addr(&key.0), |v: Ipv6Addr| u128::from(v), Val::Ip(x) => *x),
            _ => {}
        }
        if key.1 == Cat::Str {
            let col = ff.str(&key.0).or_fail(&format!("{sig}:typed_accessor"))?;
            ensure!(col.is_some(), format!("{sig}:typed_accessor_missing"), "{what}: fast_fields().str() returns None");
        }
        if key.1 == Cat::Bytes {
            let col = ff.bytes(&key.0).or_fail(&format!("{sig}:typed_accessor"))?;
            ensure!(col.is_some(), format!("{sig}:typed_accessor_missing"), "{what}: fast_fields().bytes() returns None");
        }
        let _: Option<Column<u64>> = None;
    }
    // no JSON value from nowhere: the sub-path columns hold exactly the expected number of values
    let sub = ff.dynamic_subpath_column_handles("j").or_fail(&format!("{sig}:subpath_handles"))?;
    let mut total = 0u64;
    for h in &sub {
        total += h.open().or_fail(&format!("{sig}:open_column"))?.num_values() as u64;
    }
    ensure!(total == json_values_expected, format!("{sig}:json_value_count"), "{phase}: the sub-path columns of the json field hold {total} values, expected {json_values_expected}");
    Ok(nontrivial)
}

pub struct Through;

fn word() -> BoxedStrategy<String> {
    prop_oneof![
        8 => "[a-c]{1,3}",
        3 => "[A-Za-z0-9]{1,8}",
        1 => "[a-z]{39,41}",
        1 => Just("É".to_string()),
    ]
    .boxed()
}
fn text() -> BoxedStrategy<String> {
    (prop::collection::vec((word(), prop_oneof![Just(" "), Just(", "), Just("-"), Just("  "), Just(".")]), 0..6)).prop_map(|ws| ws.into_iter().map(|(w, s)| format!("{w}{s}")).collect::<String>()).boxed()
}
fn f64_bits() -> BoxedStrategy<u64> {
    prop_oneof![
        4 => (-200i32..200).prop_map(|x| (x as f64 * 0.25).to_bits()),
        2 => prop::sample::select(vec![0.0f64, -0.0, f64::INFINITY, f64::NEG_INFINITY, f64::MAX, f64::MIN, f64::MIN_POSITIVE, 5e-324, 1e300, -1e-300]).prop_map(|f| f.to_bits()),
        1 => any::<f64>().prop_map(|f| if f.is_nan() { 1.5f64.to_bits() } else { f.to_bits() }),
    ]
    .boxed()
}
fn i64_val() -> BoxedStrategy<i64> {
    prop_oneof![4 => -50i64..50, 2 => prop::sample::select(vec![i64::MIN, i64::MAX, 0, -1, 1 << 53]), 1 => any::<i64>(), 2 => (0i64..1000).prop_map(|x| 1_700_000_000_000_000_000 + x * 1_000_000_007)].boxed()
}
fn u64_val() -> BoxedStrategy<u64> {
    prop_oneof![4 => 0u64..100, 2 => prop::sample::select(vec![u64::MAX, 0, 1 << 63, (1 << 63) - 1, 1 << 53]), 1 => any::<u64>(), 2 => (0u64..50).prop_map(|x| 1000 + x * 7)].boxed()
}
fn json_leaf() -> BoxedStrategy<J> {
    prop_oneof![
        1 => Just(J::Null),
        2 => any::<bool>().prop_map(J::B),
        4 => i64_val().prop_map(J::I),
        3 => u64_val().prop_map(J::U),
        3 => f64_bits().prop_map(J::F),
        4 => text().prop_map(J::S),
        2 => i64_val().prop_map(J::D),
    ]
    .boxed()
}
fn json_val() -> BoxedStrategy<J> {
    json_leaf()
        .prop_recursive(3, 10, 3, |inner| prop_oneof![2 => prop::collection::vec(inner.clone(), 0..4).prop_map(J::A), 3 => prop::collection::vec((0u8..JKEYS.len() as u8, inner), 0..4).prop_map(J::O)])
        .boxed()
}
fn doc_strategy() -> BoxedStrategy<DocSpec> {
    let ip = prop_oneof![
        3 => (0u64..300).prop_map(|x| (0u64, 0xffff_0000_0000u64 | (0x0a00_0000 + x))),
        2 => any::<u32>().prop_map(|x| (0u64, 0xffff_0000_0000u64 | x as u64)),
        2 => (any::<u64>(), any::<u64>()),
        1 => prop::sample::select(vec![(0u64, 0u64), (u64::MAX, u64::MAX), (1, 0), (0, u64::MAX)]),
    ];
    (
        (prop::collection::vec(u64_val(), 0..3), prop::collection::vec(i64_val(), 0..3), prop::collection::vec(f64_bits(), 0..3), prop::collection::vec(any::<bool>(), 0..3), prop::collection::vec(i64_val(), 0..3)),
        (
            prop::collection::vec(ip, 0..3),
            prop::collection::vec(prop::collection::vec(prop_oneof![Just(0u8), Just(255u8), any::<u8>()], 0..4), 0..3),
            prop::collection::vec(prop_oneof![3 => "[a-c]{0,2}", 1 => text()], 0..3),
            prop::collection::vec(text(), 0..3),
            prop_oneof![2 => Just(vec![]), 3 => prop::collection::vec((0u8..JKEYS.len() as u8, json_val()), 1..4)],
        ),
    )
        .prop_map(|((u, i, f, b, d), (ip, by, s, t, j))| DocSpec { u, i, f, b, d, ip, by, s, t, j })
        .boxed()
}

impl Sub for Through {
    type Case = ThroughCase;
    fn name(&self) -> &'static str {
        "tantivy"
    }
    fn cases(&self, tier: Tier) -> u32 {
        tier.pick(1400, 30_000)
    }
    fn max_shrink_iters(&self) -> u32 {
        300
    }
    fn strategy(&self, tier: Tier) -> BoxedStrategy<ThroughCase> {
        let schema = (0u8..4, 0u8..2, 0u8..2, 0u8..3, any::<bool>(), prop::option::weighted(0.3, any::<bool>()), prop::array::uniform8(0u8..3)).prop_map(
            |(date_precision, raw_tok, text_tok, json_tok, expand_dots, sort, modes)| SchemaSpec { date_precision, raw_tok, text_tok, json_tok, expand_dots, sort, modes },
        );
        let ndocs = prop_oneof![6 => 1usize..12, 6 => 12usize..80, 2 => prop::sample::select(vec![63usize, 64, 65, 128, 129])];
        let inflate: BoxedStrategy<u32> = match tier {
            Tier::Quick => prop_oneof![
                300 => Just(0u32),
                24 => prop::sample::select(vec![511u32, 512, 513, 600, 1025, 1100]),
                6 => prop::sample::select(vec![5119u32, 5121, 5500]),
            ]
            .boxed(),
            Tier::Thorough => prop_oneof![
                300 => Just(0u32),
                24 => prop::sample::select(vec![511u32, 512, 513, 600, 1025, 1100]),
                6 => prop::sample::select(vec![5119u32, 5121, 5500]),
                1 => prop::sample::select(vec![65536u32, 65537, 66000]),
            ]
            .boxed(),
        };
        ndocs
            .prop_flat_map(move |n| {
                (
                    schema.clone(),
                    prop::collection::vec(doc_strategy(), n..n + 1),
                    prop::collection::vec(any::<u16>(), 0..4),
                    prop_oneof![1 => Just(vec![]), 3 => prop::collection::vec(any::<u16>(), 1..(n / 3 + 2))],
                    prop::collection::vec(query_strategy(), 1..5),
                    inflate.clone(),
                )
            })
            .prop_map(|(schema, docs, cuts, deletes, queries, inflate)| ThroughCase { schema, docs, cuts, inflate, deletes, queries })
            .boxed()
    }
    fn mandatory_labels(&self, _tier: Tier) -> Vec<&'static str> {
        vec![
            "segments>=2",
            "merge_with_deletes",
            "sorted_index",
            "json_subpath_column",
            "json_nested_path",
            "json_key_with_escaped_dot",
            "json_expand_dots",
            "json_numeric_types_mixed",
            "tokenised_text_fast_field",
            "date_precision_truncates",
            "docs>512_in_segment",
            "type:u64",
            "type:i64",
            "type:f64",
            "type:bool",
            "type:date",
            "type:ip",
            "type:bytes",
            "type:str",
            "card:full",
            "card:optional",
            "card:multivalued",
        ]
    }
    fn run(&self, c: &ThroughCase, cx: &Ctx) -> CaseResult {
        let (schema, f) = build_schema(&c.schema);
        let mut builder = Index::builder().schema(schema.clone());
        if let Some(desc) = c.schema.sort {
            builder = builder.settings(IndexSettings { sort_by_field: Some(IndexSortByField { field: "sk".into(), order: if desc { Order::Desc } else { Order::Asc } }), ..Default::default() });
        }
        let index = builder.create_in_ram().or_fail("INFRA:create")?;
        let mut w: IndexWriter = crate::util::writer(&index, Default::default()).or_fail("INFRA:writer")?;
        w.set_merge_policy(Box::new(tantivy::merge_policy::NoMergePolicy));
        let n = c.docs.len().max(c.inflate as usize);
        let mut cuts: Vec<usize> = c.cuts.iter().map(|x| idx(*x, n + 1)).filter(|x| *x > 0 && *x < n).collect();
        cuts.sort();
        cuts.dedup();
        let mut models: BTreeMap<u64, DocModel> = BTreeMap::new();
        for i in 0..n {
            let d = &c.docs[i % c.docs.len()];
            if cuts.contains(&i) {
                w.commit().or_fail("INFRA:commit")?;
            }
            let uid = i as u64 + 1;
            let (doc, m) = make_doc(uid, d, &c.schema, &f);
            w.add_document(doc).or_fail("add_document_error")?;
            models.insert(uid, m);
        }
        w.commit().or_fail("INFRA:commit")?;
        let reader = index.reader().or_fail("INFRA:reader")?;
        let searcher = reader.searcher();
        let mut nontrivial = false;
        for seg in searcher.segment_readers() {
            nontrivial |= check_segment(seg, &f, &models, &[], &c.queries, cx, "indexed")?;
            cx.label_if(seg.max_doc() > 512, "docs>512_in_segment");
        }
        let nseg = searcher.segment_readers().len();
        cx.label_if(nseg >= 2, "segments>=2");
        // deletes + merge
        let mut deleted: Vec<u64> = c.deletes.iter().map(|x| idx(*x, n) as u64 + 1).collect();
        deleted.sort();
        deleted.dedup();
        for u in &deleted {
            w.delete_term(Term::from_field_u64(f.uid, *u));
        }
        if !deleted.is_empty() {
            w.commit().or_fail("INFRA:commit")?;
        }
        let ids = index.searchable_segment_ids().or_fail("INFRA:segment_ids")?;
        if !ids.is_empty() {
            w.merge(&ids).wait().or_fail("merge_error")?;
            reader.reload().or_fail("INFRA:reload")?;
            let searcher = reader.searcher();
            let mut alive = 0u32;
            for seg in searcher.segment_readers() {
                nontrivial |= check_segment(seg, &f, &models, &deleted, &c.queries, cx, "merged")?;
                alive += seg.max_doc();
            }
            ensure!(alive as usize == n - deleted.len(), "INFRA:merged_doc_count", "{alive} docs after the merge, expected {}", n - deleted.len());
            cx.label_if(!deleted.is_empty() && alive > 0, "merge_with_deletes");
            if !deleted.is_empty() {
                nontrivial = true;
            }
        }
        drop(w);
        cx.label_if(c.schema.sort.is_some() && n > 1, "sorted_index");
        cx.label_if(c.schema.expand_dots && c.docs.iter().any(|d| !d.j.is_empty()), "json_expand_dots");
        cx.label_if(c.docs.iter().any(|d| !d.t.is_empty()), "tokenised_text_fast_field");
        cx.label_if(c.schema.date_precision < 3 && models.values().any(|m| m.get(&("fd".to_string(), Cat::Date)).is_some()), "date_precision_truncates");
        // a json path that received more than one numeric type
        let mut tys: BTreeMap<&String, u8> = BTreeMap::new();
        for m in models.values() {
            for ((name, cat), vals) in m {
                if *cat == Cat::Num && name.starts_with("j.") {
                    for v in vals {
                        *tys.entry(name).or_default() |= match v {
                            Val::I(_) => 1,
                            Val::U(_) => 2,
                            _ => 4,
                        };
                    }
                }
            }
        }
        cx.label_if(tys.values().any(|t| t.count_ones() >= 2), "json_numeric_types_mixed");
        if nontrivial {
            cx.nontrivial(fp(c));
        }
        cx.sample(|| json!({"sub":"tantivy","schema": c.schema, "docs": c.docs.len(), "segments": nseg, "deleted": deleted.len(), "first_doc": c.docs.first()}));
        if false {
            fail!("unreachable", "");
        }
        Ok(())
    }
}
