//! C13 helpers: deterministic corpus (one segment) and the query-shape language that yields every scorer kind.
use std::ops::Bound;

use serde::{Deserialize, Serialize};
use tantivy::query::*;
use tantivy::schema::*;
use tantivy::{Index, IndexWriter, ReloadPolicy, Searcher, TantivyDocument, Term};

use crate::engine::{mix, Failure, OrFail};

/// Logical description of a corpus. Document `i` is a pure function of `(spec, i)`; shrinking `n` keeps
/// the prefix.
#[derive(Clone, Debug, Serialize, Deserialize, PartialEq, Eq, Hash)]
pub struct CorpusSpec {
    pub n: u32,
    pub seed: u32,
    /// density (percent) of the dense term `a`
    pub dens_a: u8,
    /// run length of the on/off term `d` (creates long gaps: seeks over windows)
    pub run: u16,
    /// 0 = no deletes; otherwise roughly one document in `del + 3` is deleted (alive bitset present)
    pub del: u8,
}

pub struct Fields {
    pub body: Field,
    pub num: Field,
    pub multi: Field,
    pub opt: Field,
    pub idx: Field,
    pub tag: Field,
    pub uid: Field,
}

pub struct Built {
    pub spec: CorpusSpec,
    pub index: Index,
    pub searcher: Searcher,
    pub f: Fields,
    /// model of the alive bitset (doc id == insertion rank, verified at build time)
    pub alive: Vec<bool>,
    pub has_deletes: bool,
}

pub fn h(seed: u32, i: u32, k: u32) -> u64 {
    mix(mix(seed as u64 ^ 0x5bd1_e995, i as u64 + 1), k as u64 + 1)
}

pub const EDGE_DOCS: &[u32] = &[0, 63, 64, 127, 128, 129, 1023, 1024, 2047, 2048, 4095, 4096, 4097, 8191, 8192];
pub const EXACT_LENS: &[u32] = &[127, 128, 129, 256, 257];

pub fn is_deleted(spec: &CorpusSpec, i: u32) -> bool {
    spec.del > 0 && i > 0 && h(spec.seed, i, 90) % (spec.del as u64 + 3) == 0
}

pub fn doc_tokens(spec: &CorpusSpec, i: u32) -> Vec<String> {
    let n = spec.n;
    let r = |k: u32| h(spec.seed, i, k);
    let mut t: Vec<String> = vec![];
    let a = r(1) % 100 < spec.dens_a as u64;
    let b = i % 3 == 0;
    if r(2) % 2 == 0 {
        if a {
            for _ in 0..(1 + r(3) % 3) {
                t.push("a".into());
            }
        }
        if b {
            t.push("b".into());
        }
    } else {
        if b {
            t.push("b".into());
        }
        if r(10) % 4 == 0 {
            t.push("x".into());
        }
        if a {
            t.push("a".into());
        }
    }
    if r(6) % 7 == 0 {
        t.push(format!("pre{}", r(7) % 5));
    }
    if r(8) % 11 == 0 {
        t.push("prx".into());
    }
    if r(4) % 50 == 0 {
        t.push("c".into());
    }
    if (i / spec.run.max(1) as u32) % 2 == 0 {
        t.push("d".into());
    }
    if r(5) % 1000 == 0 {
        t.push("e".into());
    }
    if i < n / 3 {
        t.push("f".into());
    }
    if i >= n - n / 4 {
        t.push("g".into());
    }
    if i % 64 == 63 {
        t.push("h".into());
    }
    if i % 64 == 0 {
        t.push("j".into());
    }
    if EDGE_DOCS.contains(&i) || i + 1 == n {
        t.push("edge".into());
    }
    for l in EXACT_LENS {
        let stride = (n / (l + 1)).max(1);
        if i % stride == 0 && i / stride < *l {
            t.push(format!("q{l}"));
        }
    }
    match r(9) % 6 {
        0 => t.extend(["x", "y", "z"].map(String::from)),
        1 => t.extend(["x", "z", "y"].map(String::from)),
        2 => t.extend(["y", "x", "w", "z"].map(String::from)),
        _ => {}
    }
    t.push("all".into());
    t
}

pub fn build(spec: &CorpusSpec) -> Result<Built, Failure> {
    let mut sb = Schema::builder();
    let body = sb.add_text_field("body", TEXT);
    let num = sb.add_u64_field("num", FAST | INDEXED);
    let multi = sb.add_u64_field("multi", FAST);
    let opt = sb.add_u64_field("opt", FAST);
    let idx = sb.add_u64_field("idx", INDEXED);
    let tag = sb.add_text_field("tag", STRING | FAST);
    let uid = sb.add_u64_field("uid", FAST | INDEXED);
    let index = Index::create_in_ram(sb.build());
    let mut w: IndexWriter = crate::util::writer(&index, Default::default()).or_fail("INFRA:writer")?;
    w.set_merge_policy(Box::new(tantivy::merge_policy::NoMergePolicy));
    let mut alive = Vec::with_capacity(spec.n as usize);
    for i in 0..spec.n {
        let r = |k: u32| h(spec.seed, i, k);
        let mut d = TantivyDocument::new();
        d.add_text(body, doc_tokens(spec, i).join(" "));
        d.add_u64(num, r(20) % 100);
        for j in 0..(r(21) % 4) as u32 {
            d.add_u64(multi, r(22 + j) % 50);
        }
        if r(30) % 3 == 0 {
            d.add_u64(opt, r(31) % 100);
        }
        d.add_u64(idx, r(32) % 100);
        d.add_text(tag, format!("t{:02}", r(33) % 40));
        d.add_u64(uid, i as u64);
        w.add_document(d).or_fail("INFRA:add")?;
        alive.push(!is_deleted(spec, i));
    }
    let mut has_deletes = false;
    for i in 0..spec.n {
        if is_deleted(spec, i) {
            w.delete_term(Term::from_field_u64(uid, i as u64));
            has_deletes = true;
        }
    }
    w.commit().or_fail("INFRA:commit")?;
    drop(w);
    let reader = index.reader_builder().reload_policy(ReloadPolicy::Manual).try_into().or_fail("INFRA:reader")?;
    let searcher = reader.searcher();
    if searcher.segment_readers().len() != 1 {
        return Err(Failure::new("INFRA:segments", format!("{} segments", searcher.segment_readers().len())));
    }
    let sr = searcher.segment_reader(0);
    if sr.max_doc() != spec.n {
        return Err(Failure::new("INFRA:max_doc", format!("{} vs {}", sr.max_doc(), spec.n)));
    }
    // doc id == insertion rank (single indexing thread, one segment): verified through the uid column
    let col = sr.fast_fields().u64("uid").or_fail("INFRA:uid_column")?;
    for i in 0..spec.n {
        if col.first(i) != Some(i as u64) {
            return Err(Failure::new("INFRA:docid_order", format!("doc {i} has uid {:?}", col.first(i))));
        }
    }
    match sr.alive_bitset() {
        Some(bs) => {
            for i in 0..spec.n {
                if bs.is_alive(i) != alive[i as usize] {
                    return Err(Failure::new("INFRA:alive_model", format!("doc {i}")));
                }
            }
        }
        None => {
            if has_deletes {
                return Err(Failure::new("INFRA:alive_model", "no alive bitset although deletes were issued".to_string()));
            }
        }
    }
    Ok(Built { spec: spec.clone(), index, searcher, f: Fields { body, num, multi, opt, idx, tag, uid }, alive, has_deletes })
}

// ------------------------------------------------------------------------------------------------
/// Query shapes. Strings are literal (readable replays).
#[derive(Clone, Debug, Serialize, Deserialize, PartialEq)]
pub enum Q {
    Term { w: String, freq: bool },
    All,
    Empty,
    TermSet { ws: Vec<String> },
    Regex { pat: String },
    Fuzzy { w: String, dist: u8, prefix: bool },
    /// field: num | multi | opt | uid (fast-field range doc set), idx (inverted index -> bitset), tag (str fast)
    Range { field: String, lo: u64, hi: u64 },
    Exists { field: String },
    Phrase { ws: Vec<String>, slop: u8 },
    /// the last word is the prefix
    PhrasePrefix { ws: Vec<String> },
    RegexPhrase { pats: Vec<String>, slop: u8 },
    Bool { must: Vec<Q>, should: Vec<Q>, not: Vec<Q>, min_should: Option<u8> },
    DisMax { qs: Vec<Q>, tie: u8 },
    Boost { q: Box<Q>, by: u8 },
    Const { q: Box<Q>, score: u8 },
}

fn term(f: &Fields, w: &str) -> Term {
    Term::from_field_text(f.body, w)
}

pub fn to_query(q: &Q, f: &Fields) -> Result<Box<dyn Query>, Failure> {
    Ok(match q {
        Q::Term { w, freq } => {
            Box::new(TermQuery::new(term(f, w), if *freq { IndexRecordOption::WithFreqs } else { IndexRecordOption::Basic }))
        }
        Q::All => Box::new(AllQuery),
        Q::Empty => Box::new(EmptyQuery),
        Q::TermSet { ws } => Box::new(TermSetQuery::new(ws.iter().map(|w| term(f, w)).collect::<Vec<_>>())),
        Q::Regex { pat } => Box::new(RegexQuery::from_pattern(pat, f.body).or_fail("INFRA:regex")?),
        Q::Fuzzy { w, dist, prefix } => {
            if *prefix {
                Box::new(FuzzyTermQuery::new_prefix(term(f, w), *dist, true))
            } else {
                Box::new(FuzzyTermQuery::new(term(f, w), *dist, true))
            }
        }
        Q::Range { field, lo, hi } => {
            let (lo, hi) = (*lo.min(hi), *lo.max(hi));
            let (l, u) = match field.as_str() {
                "num" => (Term::from_field_u64(f.num, lo), Term::from_field_u64(f.num, hi)),
                "multi" => (Term::from_field_u64(f.multi, lo), Term::from_field_u64(f.multi, hi)),
                "opt" => (Term::from_field_u64(f.opt, lo), Term::from_field_u64(f.opt, hi)),
                "uid" => (Term::from_field_u64(f.uid, lo), Term::from_field_u64(f.uid, hi)),
                "idx" => (Term::from_field_u64(f.idx, lo), Term::from_field_u64(f.idx, hi)),
                "tag" => (Term::from_field_text(f.tag, &format!("t{:02}", lo % 100)), Term::from_field_text(f.tag, &format!("t{:02}", hi % 100))),
                other => return Err(Failure::new("INFRA:range_field", other.to_string())),
            };
            Box::new(RangeQuery::new(Bound::Included(l), Bound::Included(u)))
        }
        Q::Exists { field } => Box::new(ExistsQuery::new(field.clone(), false)),
        Q::Phrase { ws, slop } => {
            if ws.len() < 2 {
                return Err(Failure::new("INFRA:phrase_len", format!("{ws:?}")));
            }
            let mut p = PhraseQuery::new(ws.iter().map(|w| term(f, w)).collect());
            p.set_slop(*slop as u32);
            Box::new(p)
        }
        Q::PhrasePrefix { ws } => {
            if ws.len() < 2 {
                return Err(Failure::new("INFRA:phrase_len", format!("{ws:?}")));
            }
            Box::new(PhrasePrefixQuery::new(ws.iter().map(|w| term(f, w)).collect()))
        }
        Q::RegexPhrase { pats, slop } => {
            if pats.len() < 2 {
                return Err(Failure::new("INFRA:phrase_len", format!("{pats:?}")));
            }
            let mut p = RegexPhraseQuery::new(f.body, pats.clone());
            p.set_slop(*slop as u32);
            Box::new(p)
        }
        Q::Bool { must, should, not, min_should } => {
            let mut cl: Vec<(Occur, Box<dyn Query>)> = vec![];
            for m in must {
                cl.push((Occur::Must, to_query(m, f)?));
            }
            for s in should {
                cl.push((Occur::Should, to_query(s, f)?));
            }
            for n in not {
                cl.push((Occur::MustNot, to_query(n, f)?));
            }
            match min_should {
                None => Box::new(BooleanQuery::new(cl)),
                Some(k) => Box::new(BooleanQuery::with_minimum_required_clauses(cl, *k as usize)),
            }
        }
        Q::DisMax { qs, tie } => {
            let mut v = vec![];
            for s in qs {
                v.push(to_query(s, f)?);
            }
            Box::new(DisjunctionMaxQuery::with_tie_breaker(v, *tie as f32 / 10.0))
        }
        Q::Boost { q, by } => Box::new(BoostQuery::new(to_query(q, f)?, 0.25 + *by as f32 * 0.25)),
        Q::Const { q, score } => Box::new(ConstScoreQuery::new(to_query(q, f)?, 0.5 + *score as f32 * 0.5)),
    })
}

// ------------------------------------------------------------------------------------------------
// classification of a shape (from the spec; the runtime type of the top-level scorer is labelled separately)

pub fn root_kind(q: &Q) -> &'static str {
    match q {
        Q::Term { .. } => "term",
        Q::All => "all",
        Q::Empty => "empty",
        Q::TermSet { .. } => "termset",
        Q::Regex { .. } => "regex",
        Q::Fuzzy { .. } => "fuzzy",
        Q::Range { field, .. } => {
            if field == "idx" {
                "range_inverted"
            } else {
                "range_fast"
            }
        }
        Q::Exists { .. } => "exists",
        Q::Phrase { .. } => "phrase",
        Q::PhrasePrefix { .. } => "phrase_prefix",
        Q::RegexPhrase { .. } => "regex_phrase",
        Q::Bool { .. } => "bool",
        Q::DisMax { .. } => "dismax",
        Q::Boost { .. } => "boost",
        Q::Const { .. } => "const",
    }
}

pub fn children(q: &Q) -> Vec<&Q> {
    match q {
        Q::Bool { must, should, not, .. } => must.iter().chain(should.iter()).chain(not.iter()).collect(),
        Q::DisMax { qs, .. } => qs.iter().collect(),
        Q::Boost { q, .. } | Q::Const { q, .. } => vec![q.as_ref()],
        _ => vec![],
    }
}

pub fn depth(q: &Q) -> usize {
    1 + children(q).into_iter().map(depth).max().unwrap_or(0)
}

/// number of scoring leaves (for the float tolerance of sums)
pub fn clauses(q: &Q) -> usize {
    match q {
        Q::Bool { must, should, .. } => must.iter().chain(should.iter()).map(clauses).sum::<usize>().max(1),
        Q::DisMax { qs, .. } => qs.iter().map(clauses).sum::<usize>().max(1),
        Q::Boost { q, .. } => clauses(q),
        Q::Const { .. } => 1,
        _ => 1,
    }
}

/// does the shape contain a leaf that tantivy evaluates through `BitSetDocSet`
pub fn has_bitset_leaf(q: &Q) -> bool {
    match q {
        Q::TermSet { .. } | Q::Regex { .. } | Q::Fuzzy { .. } | Q::RegexPhrase { .. } => true,
        Q::Range { field, .. } => field == "idx",
        _ => children(q).into_iter().any(has_bitset_leaf),
    }
}

/// effective structure of a boolean node (mirrors the documented semantics of BooleanQuery, not its code)
pub struct BoolView<'a> {
    pub must: &'a [Q],
    pub should: &'a [Q],
    pub not: &'a [Q],
    pub min: usize,
}
pub fn bool_view(q: &Q) -> Option<BoolView<'_>> {
    if let Q::Bool { must, should, not, min_should } = q {
        let min = match min_should {
            Some(k) => *k as usize,
            None => {
                if must.is_empty() && not.is_empty() && !should.is_empty() {
                    1
                } else {
                    0
                }
            }
        };
        Some(BoolView { must, should, not, min })
    } else {
        None
    }
}

/// is there a union (>= 2 should clauses that decide matching or score) somewhere in the shape
pub fn has_union(q: &Q) -> bool {
    let here = match q {
        Q::Bool { should, .. } => should.len() >= 2,
        Q::DisMax { qs, .. } => qs.len() >= 2,
        _ => false,
    };
    here || children(q).into_iter().any(has_union)
}

fn is_phrase_like(q: &Q) -> bool {
    matches!(q, Q::Phrase { .. } | Q::PhrasePrefix { .. } | Q::RegexPhrase { .. })
}
fn is_fast_range(q: &Q) -> bool {
    match q {
        Q::Range { field, .. } => field != "idx",
        Q::Boost { q, .. } | Q::Const { q, .. } => is_fast_range(q),
        _ => false,
    }
}
/// number of legs of the intersection a boolean node builds (0/1 = no intersection)
fn legs(q: &Q) -> usize {
    match bool_view(q) {
        Some(v) => {
            if v.min >= 2 && v.min == v.should.len() {
                v.must.len() + v.should.len()
            } else {
                v.must.len() + usize::from(v.min >= 1 && !v.should.is_empty())
            }
        }
        None => 0,
    }
}
pub fn any_node(q: &Q, pred: &dyn Fn(&Q) -> bool) -> bool {
    pred(q) || children(q).into_iter().any(|c| any_node(c, pred))
}
pub fn contains_phrase(q: &Q) -> bool {
    any_node(q, &is_phrase_like)
}
/// an intersection one of whose legs is a fast-field range doc set
pub fn is_range_intersection(q: &Q) -> bool {
    match q {
        Q::Bool { must, should, .. } => legs(q) >= 2 && must.iter().chain(should.iter()).any(is_fast_range),
        _ => false,
    }
}
/// a node that keeps its own "danger zone" state after a `seek_danger` miss (intersection, phrase family)
pub fn is_stateful_danger(q: &Q) -> bool {
    is_phrase_like(q) || legs(q) >= 2
}

/// Is there a node satisfying `pred` somewhere below a MustNot clause (tantivy itself then calls
/// `seek_danger` on it with targets dictated by the include side)?
pub fn under_not_with(q: &Q, pred: &dyn Fn(&Q) -> bool) -> bool {
    match q {
        Q::Bool { must, should, not, .. } => not.iter().any(|n| any_node(n, pred)) || must.iter().chain(should.iter()).any(|c| under_not_with(c, pred)),
        _ => children(q).into_iter().any(|c| under_not_with(c, pred)),
    }
}

/// Is there a union (BufferedUnionScorer) that receives `seek_danger` calls and has a clause whose subtree
/// contains a node satisfying `pred`?  `driven` = the root itself receives `seek_danger` (a top-level chain
/// of the program); inside the shape tantivy drives intersection legs and exclusion sets on its own.
pub fn driven_union_with(q: &Q, driven: bool, pred: &dyn Fn(&Q) -> bool) -> bool {
    match q {
        Q::Bool { must, should, not, .. } => {
            let v = bool_view(q).unwrap();
            let nlegs = legs(q);
            // (an Exclude wrapper answers seek_danger through seek, so the include side would not be driven from
            // above; but tantivy drops exclusion clauses whose scorer is empty in the segment, so this cannot be
            // decided from the shape: stay conservative)
            let driven_in = driven;
            // tantivy removes All/Empty clauses and lowers the minimum accordingly, so whether >= 2 should
            // clauses end up as a union, a min-match disjunction or extra intersection legs cannot be decided
            // from the shape: every node with >= 2 should clauses is treated as a possible union
            let is_union = should.len() >= 2;
            let leg_driven = nlegs >= 2 || driven_in;
            // optional side of RequiredOptional: only ever `seek`
            let should_driven = if v.min == 0 && !must.is_empty() { false } else { leg_driven };
            if is_union && should_driven && should.iter().any(|c| any_node(c, pred)) {
                return true;
            }
            must.iter().any(|c| driven_union_with(c, leg_driven, pred))
                || should.iter().any(|c| driven_union_with(c, should_driven, pred))
                || not.iter().any(|c| driven_union_with(c, true, pred))
        }
        Q::DisMax { qs, .. } => {
            if qs.len() >= 2 && driven && qs.iter().any(|c| any_node(c, pred)) {
                return true;
            }
            qs.iter().any(|c| driven_union_with(c, driven, pred))
        }
        Q::Boost { q, .. } | Q::Const { q, .. } => driven_union_with(q, driven, pred),
        _ => false,
    }
}

/// a node that tantivy evaluates with a BufferedUnionScorer
pub fn is_union_node(q: &Q) -> bool {
    match q {
        Q::Bool { should, .. } => should.len() >= 2,
        Q::DisMax { qs, .. } => qs.len() >= 2,
        _ => false,
    }
}

/// Independent evaluation of a shape on document `i` of the corpus model (only for shapes made of
/// terms / all / empty / boolean nodes); used by the opt-in diagnostic TVV_C13_SEMANTIC, not by the check.
pub fn model_matches(q: &Q, spec: &CorpusSpec, toks: &[String]) -> Option<bool> {
    Some(match q {
        Q::Term { w, .. } => toks.iter().any(|t| t == w),
        Q::All => true,
        Q::Empty => false,
        Q::Boost { q, .. } | Q::Const { q, .. } => model_matches(q, spec, toks)?,
        Q::DisMax { qs, .. } => {
            let mut any = false;
            for c in qs {
                any |= model_matches(c, spec, toks)?;
            }
            any
        }
        Q::Bool { must, should, not, min_should } => {
            if min_should.is_some() {
                return None;
            }
            let v = bool_view(q).unwrap();
            let mut ok = true;
            for m in must {
                ok &= model_matches(m, spec, toks)?;
            }
            let mut n = 0;
            for s in should {
                n += usize::from(model_matches(s, spec, toks)?);
            }
            let mut excluded = false;
            for x in not {
                excluded |= model_matches(x, spec, toks)?;
            }
            if must.is_empty() && should.is_empty() {
                false
            } else {
                // without a Must clause the Should clauses decide matching (at least one)
                let need = if must.is_empty() { v.min.max(1) } else { v.min };
                ok && n >= need && !excluded
            }
        }
        _ => return None,
    })
}

/// trigger shape of the open finding `union_seek_danger_stale_child`
pub fn udc_trigger(q: &Q, driven: bool) -> bool {
    driven_union_with(q, driven, &is_stateful_danger)
}

pub fn kind_labels(q: &Q, out: &mut Vec<&'static str>) {
    match q {
        Q::Term { freq, .. } => out.push(if *freq { "kind:term" } else { "kind:term_nofreq" }),
        Q::All => out.push("kind:all"),
        Q::Empty => out.push("kind:empty"),
        Q::TermSet { .. } | Q::Regex { .. } | Q::Fuzzy { .. } => out.push("kind:bitset_const"),
        Q::Range { field, .. } => out.push(match field.as_str() {
            "idx" => "kind:bitset_const",
            "multi" => "kind:range_fast_multivalued",
            "opt" => "kind:range_fast_optional",
            "tag" => "kind:range_fast_str",
            _ => "kind:range_fast",
        }),
        Q::Exists { .. } => out.push("kind:exists"),
        Q::Phrase { ws, slop } => {
            out.push("kind:phrase");
            if *slop > 0 {
                out.push("kind:phrase_slop");
            }
            if ws.len() >= 3 {
                out.push("kind:phrase>=3terms");
            }
        }
        Q::PhrasePrefix { ws } => out.push(if ws.len() >= 3 { "kind:phrase_prefix_multi" } else { "kind:phrase_prefix_single" }),
        Q::RegexPhrase { .. } => out.push("kind:regex_phrase(simple+bitset unions)"),
        Q::Bool { must, should, not, .. } => {
            let v = bool_view(q).unwrap();
            let should_required = v.min >= 1 && !should.is_empty();
            let legs = must.len() + usize::from(should_required);
            if should.len() >= 2 && v.min <= 1 {
                out.push("kind:union");
            }
            if should.len() >= 2 && v.min >= 2 {
                out.push(if v.min == should.len() { "kind:minmatch_all(as must)" } else { "kind:disjunction_minmatch" });
            }
            if legs >= 2 {
                out.push("kind:intersection");
                if legs >= 3 {
                    out.push("kind:intersection>=3legs");
                }
                if must.iter().all(|m| matches!(m, Q::Term { freq: true, .. })) && !should_required {
                    out.push("kind:intersection_terms");
                } else {
                    out.push("kind:intersection_generic");
                }
            }
            if !must.is_empty() && !should.is_empty() && v.min == 0 {
                out.push("kind:required_optional");
            }
            match not.len() {
                0 => {}
                1 => out.push("kind:exclude_single"),
                _ => out.push("kind:exclude_multi"),
            }
        }
        Q::DisMax { .. } => out.push("kind:dismax_union"),
        Q::Boost { .. } => out.push("kind:boost"),
        Q::Const { .. } => out.push("kind:const"),
    }
    for c in children(q) {
        kind_labels(c, out);
    }
}
