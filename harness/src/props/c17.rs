//! C17 — a sorted index keeps every segment in sort order, with unchanged semantics.
use std::collections::{BTreeMap, BTreeSet};

use proptest::prelude::*;
use serde::{Deserialize, Serialize};
use serde_json::json;
use tantivy::indexer::NoMergePolicy;
use tantivy::{Index, IndexSettings, IndexSortByField, IndexWriter, Order, ReloadPolicy, Term};

use crate::dump::{dump_segment, DocDump};
use crate::engine::*;
use crate::rich::*;
use crate::util::{writer, WriterCfg};
use crate::{ensure, fail};

pub fn def() -> PropDef {
    PropDef {
        id: "C17",
        level: "exploration",
        rule: "Sort field type in {u64, i64, f64, date, string, bytes} x {asc, desc}; generated histories (adds of rich documents with a sort value drawn from few distinct values, duplicates, extremes and missing values; deletes by uid and by tag whose targets get reordered inside the transaction; commits; merges of generated subsets; rollbacks; 1-2 indexing threads, flush-every-N so that segments are cut inside a transaction) executed on a sorted index AND, identically, on an unsorted index. After every commit and merge: (a) in every segment the sort key read in doc-id order over all documents is monotone in the configured direction with value-less documents first (asc) / last (desc); (b) the live uids equal the sequential model; (c) per uid the canonical record (stored fields, every fast value, field-norm ids, per term tf and positions) equals the record of the same uid in the unsorted index. Non-trivial = a segment with >= 3 distinct sort values not inserted in order and (a same-transaction delete or a merge); distinct by hash(case).",
        assumptions: vec![
            "the sort key of a document is taken from the model (by uid), not from the sort column itself",
            "one value per document for the sort field, as IndexBuilder::validate requires",
        ],
        subs: vec![Box::new(Sorted)],
    }
}

#[derive(Clone, Debug, Serialize, Deserialize)]
pub enum SOp {
    Add(RichDoc, Option<i16>),
    /// `n` copies of the document whose sort values cycle through a few values (many ties inside one segment, merges of
    /// more than 20 documents); every `none_every`-th copy has no sort value (0 = never)
    AddRun(RichDoc, u8, u8, u8),
    DelUid(u16),
    DelTag(u8),
    Commit,
    Merge(u16),
    Rollback,
}
#[derive(Clone, Debug, Serialize, Deserialize)]
pub struct SortedCase {
    pub kind: u8,
    pub asc: bool,
    pub threads: u8,
    pub flush_every: u8,
    pub ops: Vec<SOp>,
}

struct Side {
    index: Index,
    w: IndexWriter,
    f: RichFields,
}

pub struct Sorted;
impl Sub for Sorted {
    type Case = SortedCase;
    fn name(&self) -> &'static str {
        "sorted"
    }
    fn cases(&self, tier: Tier) -> u32 {
        tier.pick(1400, 30000)
    }
    fn max_shrink_iters(&self) -> u32 {
        1200
    }
    fn strategy(&self, _tier: Tier) -> BoxedStrategy<SortedCase> {
        let sortval = prop_oneof![
            2 => Just(None),
            8 => (0i16..6).prop_map(Some),
            3 => (-300i16..300).prop_map(Some),
            1 => Just(Some(i16::MIN)),
            1 => Just(Some(i16::MAX)),
        ];
        let op = prop_oneof![
            20 => (rich_doc_strategy(), sortval).prop_map(|(d, s)| SOp::Add(d, s)),
            2 => (rich_doc_strategy(), 8u8..32, 1u8..5, prop_oneof![2 => Just(0u8), 1 => 3u8..9]).prop_map(|(d, n, step, none_every)| SOp::AddRun(d, n, step, none_every)),
            4 => any::<u16>().prop_map(SOp::DelUid),
            2 => (0u8..5).prop_map(SOp::DelTag),
            5 => Just(SOp::Commit),
            3 => any::<u16>().prop_map(SOp::Merge),
            1 => Just(SOp::Rollback),
        ];
        (0u8..6, any::<bool>(), 1u8..3, prop_oneof![2 => Just(0u8), 1 => Just(2u8), 1 => Just(5u8)], prop::collection::vec(op, 3..70))
            .prop_map(|(kind, asc, threads, flush_every, ops)| SortedCase { kind, asc, threads, flush_every, ops })
            .boxed()
    }
    fn mandatory_labels(&self, _t: Tier) -> Vec<&'static str> {
        vec!["kind:0", "kind:1", "kind:2", "kind:3", "kind:4", "kind:5", "asc", "desc", "same_txn_delete", "merge", "merge_with_deletes", "missing_sort_values", "extreme_sort_values", "unordered_insertion>=3_distinct", "flush_every", "rollback"]
    }
    fn run(&self, c: &SortedCase, cx: &Ctx) -> CaseResult {
        let mk = |sorted: bool| -> Result<Side, Failure> {
            let (schema, f) = rich_schema_sorted(c.kind);
            let settings = IndexSettings {
                sort_by_field: if sorted { Some(IndexSortByField { field: "sortkey".into(), order: if c.asc { Order::Asc } else { Order::Desc } }) } else { None },
                ..Default::default()
            };
            let index = Index::builder().schema(schema).settings(settings).create_in_ram().or_fail("INFRA:create")?;
            let w = writer(&index, WriterCfg { threads: c.threads as usize, flush_every: c.flush_every as usize, ..Default::default() }).or_fail("INFRA:writer")?;
            w.set_merge_policy(Box::new(NoMergePolicy));
            Ok(Side { index, w, f })
        };
        let mut sides = [mk(true)?, mk(false)?];
        let mut committed: BTreeSet<u64> = BTreeSet::new();
        let mut pending: BTreeSet<u64> = BTreeSet::new();
        let mut all: Vec<(RichDoc, Option<i16>)> = vec![];
        let mut txn_added: BTreeSet<u64> = BTreeSet::new();
        let (mut same_txn_delete, mut merges, mut merge_with_deletes, mut rollbacks) = (false, 0, false, 0);
        let mut max_disorder = 0usize;
        let case_fp = fp(c);
        let ops: Vec<SOp> = c.ops.iter().cloned().chain(std::iter::once(SOp::Commit)).collect();
        for (oi, op) in ops.iter().enumerate() {
            let mut check = false;
            match op {
                SOp::Add(d, x) => {
                    let uid = all.len() as u64;
                    for s in sides.iter() {
                        s.w.add_document(to_tantivy_sorted(uid, d, &s.f, c.kind, *x)).or_fail("add_failed")?;
                    }
                    all.push((d.clone(), *x));
                    pending.insert(uid);
                    txn_added.insert(uid);
                }
                SOp::AddRun(d, n, step, none_every) => {
                    for k in 0..*n {
                        let x = if *none_every > 0 && k % *none_every == *none_every - 1 { None } else { Some(((k as i16) * (*step as i16)) % 3) };
                        let uid = all.len() as u64;
                        for s in sides.iter() {
                            s.w.add_document(to_tantivy_sorted(uid, d, &s.f, c.kind, x)).or_fail("add_failed")?;
                        }
                        all.push((d.clone(), x));
                        pending.insert(uid);
                        txn_added.insert(uid);
                    }
                }
                SOp::DelUid(raw) => {
                    if !all.is_empty() {
                        let u = idx(*raw, all.len()) as u64;
                        for s in sides.iter() {
                            s.w.delete_term(Term::from_field_u64(s.f.uid, u));
                        }
                        if pending.remove(&u) && txn_added.contains(&u) {
                            same_txn_delete = true;
                        }
                    }
                }
                SOp::DelTag(t) => {
                    for s in sides.iter() {
                        s.w.delete_term(Term::from_field_text(s.f.tag, &format!("t{t}")));
                    }
                    let hit: Vec<u64> = pending.iter().cloned().filter(|u| all[*u as usize].0.tags.contains(t)).collect();
                    for u in hit {
                        pending.remove(&u);
                        if txn_added.contains(&u) {
                            same_txn_delete = true;
                        }
                    }
                }
                SOp::Commit => {
                    for s in sides.iter_mut() {
                        s.w.commit().or_fail("commit_failed")?;
                    }
                    committed = pending.clone();
                    txn_added.clear();
                    check = true;
                }
                SOp::Rollback => {
                    for s in sides.iter_mut() {
                        s.w.rollback().or_fail("rollback_failed")?;
                        s.w.set_merge_policy(Box::new(NoMergePolicy));
                    }
                    pending = committed.clone();
                    txn_added.clear();
                    rollbacks += 1;
                }
                SOp::Merge(mask) => {
                    // merge on the sorted side only (the unsorted side is the reference for per-uid records)
                    let s = &mut sides[0];
                    let reader: tantivy::IndexReader = s.index.reader_builder().reload_policy(ReloadPolicy::Manual).try_into().or_fail("reader_open_failed")?;
                    let searcher = reader.searcher();
                    let mut segs: Vec<(u64, tantivy::index::SegmentId, bool)> = vec![];
                    for seg in searcher.segment_readers() {
                        segs.push((seg.fast_fields().u64("uid").or_fail("uid_col")?.min_value(), seg.segment_id(), seg.num_deleted_docs() > 0));
                    }
                    segs.sort();
                    let chosen: Vec<_> = segs.iter().enumerate().filter(|(i, _)| (mask >> (i % 16)) & 1 == 1).map(|(_, x)| x.clone()).collect();
                    if !chosen.is_empty() {
                        let ids: Vec<_> = chosen.iter().map(|x| x.1).collect();
                        drop(searcher);
                        drop(reader);
                        let r = s.w.merge(&ids).wait();
                        if r.is_ok() {
                            merges += 1;
                            if chosen.iter().any(|x| x.2) {
                                merge_with_deletes = true;
                            }
                            check = true;
                        }
                    }
                }
            }
            if !check {
                continue;
            }
            cx.evals(1);
            // reference: per-uid records of the unsorted index
            let mut reference: BTreeMap<u64, DocDump> = BTreeMap::new();
            {
                let s = &sides[1];
                let reader: tantivy::IndexReader = s.index.reader_builder().reload_policy(ReloadPolicy::Manual).try_into().or_fail("reader_open_failed")?;
                let searcher = reader.searcher();
                for seg in searcher.segment_readers() {
                    for d in dump_segment(seg, &s.index.schema(), "uid")?.docs {
                        reference.insert(d.uid, d);
                    }
                }
            }
            let ref_uids: BTreeSet<u64> = reference.keys().cloned().collect();
            ensure!(ref_uids == committed, "INFRA:unsorted_reference_differs_from_model", "op #{oi}: unsorted index has {:?}, model {:?}", ref_uids.symmetric_difference(&committed).collect::<Vec<_>>(), committed.len());
            let s = &sides[0];
            let reader: tantivy::IndexReader = s.index.reader_builder().reload_policy(ReloadPolicy::Manual).try_into().or_fail("reader_open_failed")?;
            let searcher = reader.searcher();
            let mut seen: BTreeSet<u64> = BTreeSet::new();
            for (ord, seg) in searcher.segment_readers().iter().enumerate() {
                // (a) sort order over ALL documents of the segment (deleted ones included)
                let uid_col = seg.fast_fields().u64("uid").or_fail("uid_col")?;
                let keys: Vec<Option<i16>> = (0..seg.max_doc()).map(|d| all[uid_col.first(d).unwrap_or(0) as usize].1).collect();
                for (i, wdw) in keys.windows(2).enumerate() {
                    let ok = match (wdw[0], wdw[1], c.asc) {
                        (None, _, true) => true,
                        (Some(_), None, true) => false,
                        (Some(a), Some(b), true) => a <= b,
                        (_, None, false) => true,
                        (None, Some(_), false) => false,
                        (Some(a), Some(b), false) => a >= b,
                    };
                    if !ok {
                        let has_none = wdw[0].is_none() || wdw[1].is_none();
                        fail!(
                            if has_none { "segment_not_sorted:missing_value_misplaced" } else { "segment_not_sorted" },
                            "after op #{oi} {op:?}: segment {ord} (max_doc {}) docs {i},{}: keys {:?} then {:?} (asc={}, kind {})",
                            seg.max_doc(),
                            i + 1,
                            wdw[0],
                            wdw[1],
                            c.asc,
                            c.kind
                        );
                    }
                }
                // disorder of insertion (for the non-trivial rule): distinct keys whose uid order differs from key order
                let uids: Vec<u64> = (0..seg.max_doc()).map(|d| uid_col.first(d).unwrap_or(0)).collect();
                let distinct: BTreeSet<Option<i16>> = keys.iter().cloned().collect();
                if distinct.len() >= 3 && uids.windows(2).any(|w| w[0] > w[1]) {
                    max_disorder = max_disorder.max(distinct.len());
                }
                // (c) per-uid records
                for d in dump_segment(seg, &s.index.schema(), "uid")?.docs {
                    ensure!(seen.insert(d.uid), "uid_present_twice", "uid {}", d.uid);
                    match reference.get(&d.uid) {
                        None => fail!("sorted_index_has_extra_doc", "after op #{oi} {op:?}: uid {} is live in the sorted index but not in the unsorted one (delete hit the wrong document?)", d.uid),
                        Some(r) => {
                            if r != &d {
                                let what = if r.stored != d.stored {
                                    "stored_fields"
                                } else if r.fast != d.fast {
                                    "fast_fields"
                                } else if r.norms != d.norms {
                                    "fieldnorms"
                                } else {
                                    "postings"
                                };
                                fail!(format!("sorted_record_differs:{what}"), "after op #{oi} {op:?}: uid {}: sorted {:?} vs unsorted {:?}", d.uid, d, r);
                            }
                        }
                    }
                }
            }
            // (b) live set
            if seen != committed {
                let missing: Vec<&u64> = committed.difference(&seen).collect();
                let extra: Vec<&u64> = seen.difference(&committed).collect();
                fail!("sorted_index_live_set_differs", "after op #{oi} {op:?}: missing {missing:?} extra {extra:?}");
            }
        }
        cx.label(&format!("kind:{}", c.kind));
        cx.label(if c.asc { "asc" } else { "desc" });
        cx.label_if(same_txn_delete, "same_txn_delete");
        cx.label_if(merges > 0, "merge");
        cx.label_if(merge_with_deletes, "merge_with_deletes");
        cx.label_if(all.iter().any(|x| x.1.is_none()), "missing_sort_values");
        cx.label_if(all.iter().any(|x| matches!(x.1, Some(i16::MIN) | Some(i16::MAX))), "extreme_sort_values");
        cx.label_if(max_disorder >= 3, "unordered_insertion>=3_distinct");
        cx.label_if(c.flush_every > 0, "flush_every");
        cx.label_if(rollbacks > 0, "rollback");
        if max_disorder >= 3 && (same_txn_delete || merges > 0) {
            cx.nontrivial(case_fp);
        }
        cx.sample(|| json!({"sub":"sorted","kind":c.kind,"asc":c.asc,"threads":c.threads,"flush_every":c.flush_every,"ops":c.ops.iter().take(12).collect::<Vec<_>>(),"num_ops":c.ops.len()}));
        Ok(())
    }
}
