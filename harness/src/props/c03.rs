//! C03 — queries match exactly the documents their logical meaning prescribes.
use std::collections::BTreeSet;

use proptest::prelude::*;
use serde::{Deserialize, Serialize};
use serde_json::json;
use tantivy::collector::{Count, DocSetCollector, FilterCollector, MultiCollector, TopDocs};
use tantivy::query::Query;
use tantivy::{DocAddress, ReloadPolicy, Searcher};

use crate::engine::*;
use crate::qmodel::*;
use crate::{ensure, fail};

pub fn def() -> PropDef {
    PropDef {
        id: "C03",
        level: "exploration",
        rule: "Generated corpora (size classes 0-20 / 120-140 / 250-260 / ~1000-1500 / ~4300-6000 documents; Zipf vocabulary with prefix-, edit- and regex-neighbours; mark terms present in exactly 0/1/127/128/129/256/1025/4100/all documents; multi-valued positional text, tags, u64/i64(term-dict only)/f64/date/ip/string values with missing values) x segmentation (0-6 cuts, 1-2 indexing threads, sorted or not) x deletes, and per corpus 30-40 generated query trees of depth <= 3 over term (all record options), phrase (slop), phrase-prefix, range on six field kinds (inclusive/exclusive/unbounded/empty/inverted), term-set, exists, all, empty, fuzzy (distance 0-2, transposition flag, prefix), regex, boost, const-score, dismax and boolean (must/should/must-not, minimum_should_match 0..4). Oracle: a naive evaluator over the live model documents; the uid set must be returned identically by DocSetCollector, Count, Query::count, TopDocs(limit >= N) by score, (Count, DocSet) tuple and MultiCollector, and FilterCollector (restricted to even uids), and again after merging all segments into one. Non-trivial = 0 < |result| < live documents and (>= 2 segments or >= 1 delete); distinct by hash(corpus, query). typed_fields: the field types the main model lacks - a JSON object field (tokenised text with positions, keywords, integers, fractional floats, nested sub-paths, a key that is a scalar in some documents and an object in others; indexed and fast, expand_dots on/off), facets (nested paths), bool and bytes - with term, phrase, typed numeric term, numeric range, term-set, exists (exact path and with sub-paths), facet-prefix, bool/bytes term queries and boolean combinations, against a naive evaluator through DocSetCollector, Count, Query::count and TopDocs, over segmentations, deletes and a merge.",
        assumptions: vec![
            "text is ASCII word text by construction (tokenisation is C19's subject)",
            "fuzzy leaves where restricted and unrestricted Damerau distance disagree are excluded (counted); sloppy phrases with repeated terms are generated with slop 0 (no documented meaning)",
        ],
        subs: vec![Box::new(Sem), Box::new(super::c03_typed::Typed)],
    }
}

#[derive(Clone, Debug, Serialize, Deserialize)]
pub struct SemCase {
    pub corpus: CorpusSpec,
    pub queries: Vec<Q>,
    pub merge_after: bool,
}

pub struct UidMap {
    cols: Vec<tantivy::columnar::Column<u64>>,
}
impl UidMap {
    pub fn new(s: &Searcher) -> Result<UidMap, Failure> {
        let mut cols = vec![];
        for seg in s.segment_readers() {
            cols.push(seg.fast_fields().u64("uid").or_fail("uid_column")?);
        }
        Ok(UidMap { cols })
    }
    pub fn uid(&self, a: DocAddress) -> u64 {
        self.cols[a.segment_ord as usize].first(a.doc_id).unwrap_or(u64::MAX)
    }
}

pub struct Sem;
impl Sub for Sem {
    type Case = SemCase;
    fn name(&self) -> &'static str {
        "sem"
    }
    fn cases(&self, tier: Tier) -> u32 {
        tier.pick(1600, 24000)
    }
    fn max_shrink_iters(&self) -> u32 {
        1500
    }
    fn strategy(&self, tier: Tier) -> BoxedStrategy<SemCase> {
        (corpus_strategy(160), prop::collection::vec(query_strategy(3), 30..41), any::<bool>())
            .prop_map(|(corpus, queries, merge_after)| SemCase { corpus, queries, merge_after })
            .boxed()
    }
    fn mandatory_labels(&self, _t: Tier) -> Vec<&'static str> {
        vec![
            "segments>=2", "has_deletes", "docs>1024", "bool:term_union", "bool:term_intersection", "bool:must+should", "bool:multi_exclude", "bool:min_should_match>=2",
            "bool:should_promoted", "bool:with_all", "bool:with_empty", "leaf:phrase_slop", "leaf:phrase_prefix", "leaf:fuzzy", "leaf:regex", "leaf:range:inum", "leaf:range:ip",
            "leaf:exists", "dismax", "merged_recheck", "sorted", "docs>4096",
        ]
    }
    fn run(&self, c: &SemCase, cx: &Ctx) -> CaseResult {
        let mut corpus = build_corpus(&c.corpus)?;
        let ev = Evaluator::new();
        let bcx = BuildCtx { f: &corpus.f, restrict_slop: cx.known_open("phrase_slop_three_terms_overmatch"), restrict_fuzzy_prefix: cx.known_open("fuzzy_prefix_undermatch"), excluded: Default::default() };
        let reader: tantivy::IndexReader = corpus.index.reader_builder().reload_policy(ReloadPolicy::Manual).try_into().or_fail("reader_open_failed")?;
        let corpus_fp = fp(&c.corpus);
        let n_live = corpus.num_live();
        cx.label_if(corpus.num_segments >= 2, "segments>=2");
        cx.label_if(corpus.num_segments >= 4, "segments>=4");
        cx.label_if(!corpus.deleted.is_empty(), "has_deletes");
        cx.label_if(corpus.docs.len() > 1024, "docs>1024");
        cx.label_if(corpus.docs.len() > 4096, "docs>4096");
        cx.label_if(c.corpus.sorted.is_some(), "sorted");
        let mut built: Vec<(Q, Box<dyn Query>, BTreeSet<u64>)> = vec![];
        // sloppy phrases with >= 3 terms as *top-level* queries are kept while the known finding is open, but
        // only the direction both readings agree on is checked (documents within the documented budget match)
        let mut subset_only: Vec<(Q, Box<dyn Query>, BTreeSet<u64>)> = vec![];
        let mut superset_only: Vec<(Q, Box<dyn Query>, BTreeSet<u64>)> = vec![];
        for q in &c.queries {
            if let (true, Q::Phrase { words, slop }) = (bcx.restrict_slop, q) {
                let mut distinct = words.clone();
                distinct.sort();
                distinct.dedup();
                if *slop > 0 && words.len() >= 3 && distinct.len() == words.len() {
                    let expected: BTreeSet<u64> = corpus.live().filter(|(_, d)| ev.matches(q, d)).map(|(u, _)| *u).collect();
                    subset_only.push((q.clone(), build_query(q, &corpus.f)?, expected));
                    continue;
                }
            }
            if let (true, Q::Fuzzy { prefix: true, distance, .. }) = (bcx.restrict_fuzzy_prefix, q) {
                if *distance > 0 && !ev.ambiguous(q) {
                    // top-level prefix-fuzzy leaf while the known finding is open: only "no document outside the
                    // documented set" is checked
                    let expected: BTreeSet<u64> = corpus.live().filter(|(_, d)| ev.matches(q, d)).map(|(u, _)| *u).collect();
                    superset_only.push((q.clone(), build_query(q, &corpus.f)?, expected));
                    continue;
                }
            }
            let q = normalise(q, &bcx);
            if ev.ambiguous(&q) {
                cx.excluded("fuzzy_transposition_notion_ambiguous", 1);
                continue;
            }
            let expected: BTreeSet<u64> = corpus.live().filter(|(_, d)| ev.matches(&q, d)).map(|(u, _)| *u).collect();
            let tq = build_query(&q, &corpus.f)?;
            built.push((q, tq, expected));
        }
        for r in bcx.excluded.borrow().iter() {
            cx.excluded(r, 1);
        }
        for pass in 0..2 {
            if pass == 1 {
                if !c.merge_after || corpus.num_segments < 2 {
                    break;
                }
                let ids = corpus.index.searchable_segment_ids().or_fail("segment_ids")?;
                corpus.writer.merge(&ids).wait().or_fail("merge_failed")?;
                reader.reload().or_fail("reload_failed")?;
                cx.label("merged_recheck");
            }
            let searcher = reader.searcher();
            let um = UidMap::new(&searcher)?;
            for (q, tq, expected) in &built {
                cx.evals(1);
                let ctxt = |what: &str, got: String| format!("{what} (pass {pass}, {} segments): query {q:?}: expected {} docs {:?}, got {got}", searcher.segment_readers().len(), expected.len(), expected.iter().take(12).collect::<Vec<_>>());
                // 1. doc set
                let got: BTreeSet<u64> = searcher.search(&**tq, &DocSetCollector).or_fail("search_failed")?.into_iter().map(|a| um.uid(a)).collect();
                if &got != expected {
                    let extra: Vec<&u64> = got.difference(expected).take(8).collect();
                    let missing: Vec<&u64> = expected.difference(&got).take(8).collect();
                    // attribute the failure to the smallest sub-query that is wrong on its own
                    let (culprit, cx_extra, cx_missing) = find_culprit(q, &searcher, &um, &corpus, &ev)?;
                    let sig = classify(&culprit, cx_extra, cx_missing);
                    fail!(sig, "{}; smallest failing sub-query: {culprit:?}", ctxt("DocSetCollector", format!("{} docs; extra {extra:?} missing {missing:?}", got.len())));
                }
                // 2. counts
                let cnt = searcher.search(&**tq, &Count).or_fail("search_failed")?;
                ensure!(cnt == expected.len(), "count_differs_from_docset", "{}", ctxt("Count", cnt.to_string()));
                let cnt2 = tq.count(&searcher).or_fail("count_failed")?;
                ensure!(cnt2 == expected.len(), "query_count_differs_from_docset", "{}", ctxt("Query::count", cnt2.to_string()));
                if pass == 0 {
                    // 3. ranking
                    let top: BTreeSet<u64> =
                        searcher.search(&**tq, &TopDocs::with_limit(n_live + 5).order_by_score()).or_fail("search_failed")?.into_iter().map(|(_, a)| um.uid(a)).collect();
                    ensure!(&top == expected, "topdocs_differs_from_docset", "{}", ctxt("TopDocs", format!("{} docs", top.len())));
                    // 4. tuple + multi collector
                    let (c2, ds2) = searcher.search(&**tq, &(Count, DocSetCollector)).or_fail("search_failed")?;
                    let ds2: BTreeSet<u64> = ds2.into_iter().map(|a| um.uid(a)).collect();
                    ensure!(c2 == expected.len() && &ds2 == expected, "tuple_collector_differs", "{}", ctxt("(Count, DocSet)", format!("{c2} / {} docs", ds2.len())));
                    let mut mc = MultiCollector::new();
                    let h1 = mc.add_collector(Count);
                    let h2 = mc.add_collector(TopDocs::with_limit(n_live + 5).order_by_score());
                    let mut fruits = searcher.search(&**tq, &mc).or_fail("search_failed")?;
                    let c3 = h1.extract(&mut fruits);
                    let t3: BTreeSet<u64> = h2.extract(&mut fruits).into_iter().map(|(_, a)| um.uid(a)).collect();
                    ensure!(c3 == expected.len() && &t3 == expected, "multi_collector_differs", "{}", ctxt("MultiCollector", format!("{c3} / {} docs", t3.len())));
                    // 5. filter collector: even uids only
                    let fc = FilterCollector::new("uid".to_string(), |v: u64| v % 2 == 0, DocSetCollector);
                    let fs: BTreeSet<u64> = searcher.search(&**tq, &fc).or_fail("search_failed")?.into_iter().map(|a| um.uid(a)).collect();
                    let exp_even: BTreeSet<u64> = expected.iter().filter(|u| **u % 2 == 0).cloned().collect();
                    ensure!(fs == exp_even, "filter_collector_differs", "{}", ctxt("FilterCollector(even uid)", format!("{} docs", fs.len())));
                    let mut labels = BTreeSet::new();
                    shape_labels(q, &mut labels);
                    for l in &labels {
                        cx.label(l);
                    }
                    if !expected.is_empty() && expected.len() < n_live && (corpus.num_segments >= 2 || !corpus.deleted.is_empty()) {
                        cx.nontrivial(mix(corpus_fp, fp(q)));
                    }
                }
            }
        }
        {
            let searcher = reader.searcher();
            let um = UidMap::new(&searcher)?;
            for (q, tq, expected) in &subset_only {
                cx.evals(1);
                cx.excluded("phrase_slop_three_or_more_terms:overmatch_direction_not_checked", 1);
                let got: BTreeSet<u64> = searcher.search(&**tq, &DocSetCollector).or_fail("search_failed")?.into_iter().map(|a| um.uid(a)).collect();
                let missing: Vec<&u64> = expected.difference(&got).take(8).collect();
                ensure!(missing.is_empty(), "phrase_slop_three_terms_undermatch", "query {q:?}: documents within the documented slop budget do not match: {missing:?}");
                cx.label("leaf:phrase_slop3_subset_check");
            }
            for (q, tq, expected) in &superset_only {
                cx.evals(1);
                cx.excluded("fuzzy_prefix_with_distance:undermatch_direction_not_checked", 1);
                let got: BTreeSet<u64> = searcher.search(&**tq, &DocSetCollector).or_fail("search_failed")?.into_iter().map(|a| um.uid(a)).collect();
                let extra: Vec<&u64> = got.difference(expected).take(8).collect();
                ensure!(extra.is_empty(), "fuzzy_prefix_overmatch", "query {q:?}: documents without any term that has a prefix within the distance match: {extra:?}");
                cx.label("leaf:fuzzy_prefix_superset_check");
            }
        }
        cx.sample(|| json!({"sub":"sem","docs":corpus.docs.len(),"segments":corpus.num_segments,"deleted":corpus.deleted.len(),"first_doc":corpus.docs.first().map(|d| &d.1),"queries":c.queries.iter().take(3).collect::<Vec<_>>()}));
        Ok(())
    }
}

/// failure signature: which kind of leaf / node the (sub)query is made of, and the direction of the error
fn classify(q: &Q, extra: bool, missing: bool) -> String {
    let dir = match (extra, missing) {
        (true, false) => "overmatch",
        (false, true) => "undermatch",
        _ => "mismatch",
    };
    let kind = match q {
        Q::Term(..) | Q::Tag(_) | Q::TermNf(_) => "term",
        Q::Phrase { slop, words } => {
            if *slop > 0 && words.len() >= 3 {
                return match dir {
                    "overmatch" => "phrase_slop_three_terms_overmatch".to_string(),
                    d => format!("phrase_slop_three_terms_{d}"),
                };
            } else if *slop > 0 {
                "phrase_slop"
            } else {
                "phrase"
            }
        }
        Q::PhrasePrefix { .. } => "phrase_prefix",
        Q::Range(rf, ..) => return format!("range_{}_{dir}", rfield_name(*rf)),
        Q::TermSetBody(_) | Q::TermSetTag(_) => "term_set",
        Q::Exists(_) | Q::ExistsTag => "exists",
        Q::All => "all",
        Q::Empty => "empty",
        Q::Fuzzy { prefix: true, distance, .. } if *distance > 0 => return format!("fuzzy_prefix_{dir}"),
        Q::Fuzzy { .. } => "fuzzy",
        Q::Regex(_) => "regex",
        Q::Boost(..) => "boost",
        Q::Const(..) => "const",
        Q::DisMax(..) => "dismax",
        Q::Bool(cl, m) => {
            let ns = cl.iter().filter(|c| c.0 == 1).count();
            if cl.len() == 1 && m.map(|m| m as usize > ns).unwrap_or(false) {
                return format!("bool_single_clause_min_should_match_{dir}");
            }
            "bool"
        }
    };
    format!("{kind}_{dir}")
}

/// Finds the smallest sub-query whose own result differs from the evaluator (the query itself if all of its
/// children are right on their own).  Returns (sub-query, has_extra, has_missing).
fn find_culprit(q: &Q, searcher: &Searcher, um: &UidMap, corpus: &Corpus, ev: &Evaluator) -> Result<(Q, bool, bool), Failure> {
    let wrong = |sq: &Q| -> Result<Option<(bool, bool)>, Failure> {
        let expected: BTreeSet<u64> = corpus.live().filter(|(_, d)| ev.matches(sq, d)).map(|(u, _)| *u).collect();
        let tq = build_query(sq, &corpus.f)?;
        let got: BTreeSet<u64> = searcher.search(&*tq, &DocSetCollector).or_fail("search_failed")?.into_iter().map(|a| um.uid(a)).collect();
        if got == expected {
            Ok(None)
        } else {
            Ok(Some((got.difference(&expected).next().is_some(), expected.difference(&got).next().is_some())))
        }
    };
    let children: Vec<&Q> = match q {
        Q::Boost(c, _) | Q::Const(c, _) => vec![c.as_ref()],
        Q::DisMax(qs, _) => qs.iter().collect(),
        Q::Bool(cl, _) => cl.iter().map(|c| &c.1).collect(),
        _ => vec![],
    };
    for c in children {
        if wrong(c)?.is_some() {
            return find_culprit(c, searcher, um, corpus, ev);
        }
    }
    let (e, m) = wrong(q)?.unwrap_or((true, true));
    Ok((q.clone(), e, m))
}
