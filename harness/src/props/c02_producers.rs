//! C02, concurrent producers: 2–4 threads share `&IndexWriter`; disjoint key spaces.
use std::cell::RefCell;
use std::sync::atomic::{AtomicU64, Ordering};
use std::sync::{Arc, Mutex, OnceLock};
use std::time::{Duration, Instant};

use serde_json::json;
use tantivy::indexer::UserOperation;
use tantivy::Term;

use super::c02::{POp, ProducersCase};
use crate::engine::*;
use crate::hist::*;
use crate::{ensure, fail};

/// plan of a producer thread for the pause points of the verif-hooks feature: at its n-th stamped
/// operation (n in `at`), wait until the other producers completed `wait_ops` more operations (or 15 ms)
struct Hold {
    progress: Arc<AtomicU64>,
    every: u64,
    seen: u64,
}
thread_local! {
    static HOLD: RefCell<Option<Hold>> = const { RefCell::new(None) };
}
pub fn install_callback() {
    static ONCE: OnceLock<()> = OnceLock::new();
    ONCE.get_or_init(|| {
        tantivy::verif_hooks::set_callback(Some(Arc::new(|_name: &'static str| {
            crate::props::c02::late_push_point(_name);
            HOLD.with(|h| {
                if let Some(hold) = h.borrow_mut().as_mut() {
                    hold.seen += 1;
                    if hold.every > 0 && hold.seen % hold.every == 0 {
                        let start = hold.progress.load(Ordering::SeqCst);
                        let deadline = Instant::now() + Duration::from_millis(15);
                        while hold.progress.load(Ordering::SeqCst) < start + 3 && Instant::now() < deadline {
                            std::thread::yield_now();
                        }
                    }
                }
            });
            crate::props::c02_shared::on_point();
        })));
    });
}

pub fn run(c: &ProducersCase, cx: &Ctx) -> CaseResult {
    install_callback();
    let mut cfg = c.cfg.clone();
    if cfg.threads > 4 {
        cfg.threads = 4;
    }
    let mut env = Env::new(cfg)?;
    let nprod = c.programs.len();
    // per-producer model and bookkeeping
    let mut models: Vec<Model> = vec![Model::new(); nprod];
    let mut own_uids: Vec<Vec<u64>> = vec![vec![]; nprod];
    let ranges: Mutex<Vec<(u64, u64, usize)>> = Mutex::new(vec![]);
    let progress = Arc::new(AtomicU64::new(0));
    // known finding: run([.., Add(X), .., Delete(X)]) racing with another producer can leave X alive
    const KEY: &str = "producers:batch_add_then_delete_same_doc_survives";
    let skip_same_batch = cx.known_open(KEY);
    let excluded = AtomicU64::new(0);
    let same_batch: Mutex<Vec<u64>> = Mutex::new(vec![]);
    let rounds = c.rounds.max(1) as usize;
    let mut total_ops = 0usize;
    for round in 0..rounds {
        let results: Vec<Result<(Model, Vec<u64>), Failure>> = std::thread::scope(|scope| {
            let mut handles = vec![];
            for (p, prog) in c.programs.iter().enumerate() {
                let lo = prog.len() * round / rounds;
                let hi = prog.len() * (round + 1) / rounds;
                let chunk = &prog[lo..hi];
                total_ops += chunk.len();
                let env = &env;
                let mut model = models[p].clone();
                let mut uids = own_uids[p].clone();
                let ranges = &ranges;
                let excluded = &excluded;
                let same_batch = &same_batch;
                let progress = progress.clone();
                handles.push(
                    std::thread::Builder::new()
                        .name(format!("producer-{p}"))
                        .spawn_scoped(scope, move || -> Result<(Model, Vec<u64>), Failure> {
                            HOLD.with(|h| *h.borrow_mut() = Some(Hold { progress: progress.clone(), every: 3 + p as u64, seen: 0 }));
                            let w = env.writer.as_ref().unwrap();
                            let mut last: Option<u64> = None;
                            let mk = |uid: u64, a: &AddSpec| {
                                let rec = DocRec { grp: p as u8, words: a.words.clone(), num: a.num as i64 };
                                let mut d = tantivy::TantivyDocument::new();
                                d.add_u64(env.f.uid, uid);
                                d.add_text(env.f.grp, format!("g{p}"));
                                d.add_text(env.f.body, rec.body());
                                d.add_i64(env.f.num, rec.num);
                                (d, rec)
                            };
                            for op in chunk {
                                let (o, n) = match op {
                                    POp::Add(a) => {
                                        let uid = p as u64 * 1_000_000 + uids.len() as u64;
                                        let (d, rec) = mk(uid, a);
                                        let o = w.add_document(d).or_fail("add_failed")?;
                                        model.insert(uid, rec);
                                        uids.push(uid);
                                        (o, 0)
                                    }
                                    POp::DelOwn(raw) => {
                                        if uids.is_empty() {
                                            continue;
                                        }
                                        let u = uids[idx(*raw, uids.len())];
                                        let o = w.delete_term(Term::from_field_u64(env.f.uid, u));
                                        model.remove(&u);
                                        (o, 0)
                                    }
                                    POp::DelOwnGroup => {
                                        let o = w.delete_term(Term::from_field_text(env.f.grp, &format!("g{p}")));
                                        model.clear();
                                        (o, 0)
                                    }
                                    POp::Batch(items) => {
                                        let mut uops = vec![];
                                        let first_staged = uids.len();
                                        for (is_add, a) in items {
                                            if *is_add {
                                                let uid = p as u64 * 1_000_000 + uids.len() as u64;
                                                let (d, rec) = mk(uid, a);
                                                uops.push(UserOperation::Add(d));
                                                model.insert(uid, rec);
                                                uids.push(uid);
                                            } else if !uids.is_empty() {
                                                let k = idx((a.num.unsigned_abs() as u16).wrapping_mul(3277), uids.len());
                                                if k >= first_staged {
                                                    // the batch deletes a document it added itself
                                                    if skip_same_batch {
                                                        excluded.fetch_add(1, Ordering::SeqCst);
                                                        continue;
                                                    }
                                                    same_batch.lock().unwrap().push(uids[k]);
                                                }
                                                let u = uids[k];
                                                uops.push(UserOperation::Delete(Term::from_field_u64(env.f.uid, u)));
                                                model.remove(&u);
                                            }
                                        }
                                        let n = uops.len() as u64;
                                        let o = w.run(uops).or_fail("run_failed")?;
                                        (o, n)
                                    }
                                };
                                progress.fetch_add(1, Ordering::SeqCst);
                                if let Some(l) = last {
                                    ensure!(o > l + n.saturating_sub(0) - if n > 0 { 0 } else { 0 } && o > l, "producer_opstamp_not_increasing", "producer {p}: opstamp {o} after {l}");
                                }
                                last = Some(o);
                                ranges.lock().unwrap().push((o - n, o, p));
                            }
                            HOLD.with(|h| *h.borrow_mut() = None);
                            Ok((model, uids))
                        })
                        .expect("spawn producer"),
                );
            }
            handles.into_iter().map(|h| h.join().unwrap_or_else(|_| Err(Failure::new("panic:producer", "producer thread panicked")))).collect()
        });
        for (p, r) in results.into_iter().enumerate() {
            let (m, u) = r?;
            models[p] = m;
            own_uids[p] = u;
        }
        // opstamp ranges handed out so far must be pairwise disjoint
        {
            let mut rs = ranges.lock().unwrap().clone();
            rs.sort();
            for w in rs.windows(2) {
                ensure!(w[0].1 < w[1].0, "opstamp_ranges_overlap", "{:?} and {:?}", w[0], w[1]);
            }
        }
        // controller commits; union of the producers' sequential models must be what is searchable
        let mut union = Model::new();
        for m in &models {
            union.extend(m.iter().map(|(k, v)| (*k, v.clone())));
        }
        env.pending = union;
        env.dirty = true;
        let max_o = ranges.lock().unwrap().iter().map(|r| r.1).max();
        env.last_opstamp = max_o;
        if let Err(f) = env.apply(&Op::Commit, cx) {
            if f.sig == "content_extra_docs" {
                // are all surviving documents ones that were added and deleted by the same batch?
                let sb = same_batch.lock().unwrap().clone();
                let extra: Vec<u64> = f.detail.split("extra uids [").nth(1).and_then(|r| r.split(']').next()).map(|l| l.split(", ").filter_map(|x| x.trim().parse().ok()).collect()).unwrap_or_default();
                if !extra.is_empty() && extra.iter().all(|u| sb.contains(u)) {
                    return Err(Failure::new(KEY, f.detail));
                }
            }
            return Err(f);
        }
        if round + 1 < rounds && round % 2 == 1 {
            env.apply(&Op::Merge(0xffff), cx)?;
        }
    }
    let segs = env.index.searchable_segment_metas().map(|m| m.len()).unwrap_or(0);
    cx.label(&format!("producers:{nprod}"));
    cx.label_if(segs >= 2, "segments>=2");
    cx.label_if(c.cfg.flush_every > 0, "flush_every");
    cx.count("producer_ops", total_ops as u64);
    cx.excluded(KEY, excluded.load(Ordering::SeqCst));
    if total_ops >= 10 && nprod >= 2 {
        cx.nontrivial(fp(c));
    }
    cx.sample(|| json!({"sub": "producers", "cfg": c.cfg, "programs": c.programs.iter().map(|p| p.len()).collect::<Vec<_>>(), "rounds": c.rounds}));
    if false {
        fail!("unreachable", "");
    }
    Ok(())
}
