//! C10 — garbage collection never removes a needed file and leaves no orphan.
use proptest::prelude::*;
use serde_json::json;

use super::c02::SeqCase;
use crate::engine::*;
use crate::hist::*;

pub fn def() -> PropDef {
    PropDef {
        id: "C10",
        level: "exploration",
        rule: "hist: the C02 history generator (adds, deletes, batches, commits, aborts, rollbacks, explicit merges, delete-all, writer drop/reopen, reopen Index, explicit gc; 1..8 threads, flush-every-N, sorted or not) on SimDir / MmapDirectory (real listing) and RamDirectory (managed list only); after every commit under NoMergePolicy and at the end of every history after joining merges: garbage_collect_files, then the directory must hold exactly meta.json + the component files of the committed segments (.del only with deletes, never .store.temp) and .managed.json must list exactly the existing files; any needed file missing, search error or content difference is a violation as well. Transient survivors are re-collected up to 5 times (counted) and only persistent orphans are reported. Non-trivial = history contains rollback / abort with work / merge / delete-all / reopen before a quiescence check; distinct by hash(history,cfg).",
        assumptions: vec![
            "quiescent = commit returned, merges joined (wait_merging_threads) and garbage_collect_files().wait() returned",
            "the harness never holds an IndexMeta/SegmentMeta across a collection (they pin files through the inventory)",
        ],
        subs: vec![Box::new(HistQ), Box::new(super::c01::Crash { orphans: true })],
    }
}

pub struct HistQ;
impl Sub for HistQ {
    type Case = SeqCase;
    fn name(&self) -> &'static str {
        "hist"
    }
    fn cases(&self, tier: Tier) -> u32 {
        tier.pick(1000, 15000)
    }
    fn max_shrink_iters(&self) -> u32 {
        1500
    }
    fn strategy(&self, _tier: Tier) -> BoxedStrategy<SeqCase> {
        static DIRS: [DirKind; 4] = [DirKind::Sim, DirKind::Sim, DirKind::Mmap, DirKind::Ram];
        (cfg_strategy(&DIRS), prop::collection::vec(op_strategy(true), 1..60)).prop_map(|(cfg, ops)| SeqCase { cfg, ops }).boxed()
    }
    fn mandatory_labels(&self, _t: Tier) -> Vec<&'static str> {
        vec!["rollback_with_work", "abort_with_work", "merge", "reopen", "delete_all", "sorted_with_deletes", "dir:Sim", "dir:Mmap", "quiescence_after_nomerge_commit"]
    }
    fn run(&self, c: &SeqCase, cx: &Ctx) -> CaseResult {
        let mut env = Env::new(c.cfg.clone())?;
        env.check_quiescence = true;
        env.verify_each_commit = false;
        env.skip_dirty_delete_all = true; // known C02 finding; C10 looks at files
        for op in &c.ops {
            env.apply(op, cx)?;
        }
        env.finish(cx)?;
        let st = &env.stats;
        cx.label_if(st.rollbacks_with_work > 0, "rollback_with_work");
        cx.label_if(st.aborts_with_work > 0, "abort_with_work");
        cx.label_if(st.merges > 0, "merge");
        cx.label_if(st.reopen > 0, "reopen");
        cx.label_if(st.delete_all > 0, "delete_all");
        cx.label_if(c.cfg.sorted.is_some() && st.same_txn_delete_hits > 0, "sorted_with_deletes");
        cx.label_if(st.quiescence_checks > 1, "quiescence_after_nomerge_commit");
        cx.label(&format!("dir:{:?}", c.cfg.dir));
        cx.count("quiescence_checks", st.quiescence_checks as u64);
        cx.count("quiescence_retries", st.quiescence_retries as u64);
        cx.evals(st.quiescence_checks.saturating_sub(1) as u64);
        if st.rollbacks_with_work + st.aborts_with_work + st.merges + st.delete_all + st.reopen > 0 {
            cx.nontrivial(fp(c));
        }
        cx.sample(|| json!({"sub": "hist", "cfg": c.cfg, "ops": c.ops}));
        Ok(())
    }
}
