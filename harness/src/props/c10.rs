//! C10 — garbage collection never removes a needed file and leaves no orphan.
use proptest::prelude::*;
use serde_json::json;

use super::c02::SeqCase;
use crate::engine::*;
use crate::hist::*;

pub fn def() -> PropDef {
    PropDef {
        id: "C10",
        level: "exploration",
        rule: "hist: the C02 history generator (adds, deletes, batches, commits, aborts, rollbacks, explicit merges, delete-all, writer drop/reopen, reopen Index, explicit gc; 1..8 threads, flush-every-N, sorted or not) on SimDir / MmapDirectory (real listing) and RamDirectory (managed list only); after every commit under NoMergePolicy and at the end of every history after joining merges: garbage_collect_files, then the directory must hold exactly meta.json + the component files of the committed segments (.del only with deletes, never .store.temp) and .managed.json must list exactly the existing files; any needed file missing, search error or content difference is a violation as well. Transient survivors are re-collected up to 5 times (counted) and only persistent orphans are reported. Non-trivial = history contains rollback / abort with work / merge / delete-all / reopen before a quiescence check; distinct by hash(history,cfg). races: SimDir gates hold (0) the segment updater inside a commit's metadata write while an explicit GC is queued behind it and an indexing worker starts a new segment, (1) an indexing worker between two file creations of a segment while explicit GC runs, (2) a merge thread between two file creations while explicit GC and a commit + implicit GC run; afterwards every commit must publish readable segments equal to the model and the directory must be quiescent. crash: see C01, with the no-orphan predicate on every deeply recovered image.",
        assumptions: vec![
            "quiescent = commit returned, merges joined (wait_merging_threads) and garbage_collect_files().wait() returned",
            "the harness never holds an IndexMeta/SegmentMeta across a collection (they pin files through the inventory)",
        ],
        subs: vec![Box::new(HistQ), Box::new(Races), Box::new(super::c01::Crash { orphans: true })],
    }
}

pub struct HistQ;
impl Sub for HistQ {
    type Case = SeqCase;
    fn name(&self) -> &'static str {
        "hist"
    }
    fn cases(&self, tier: Tier) -> u32 {
        tier.pick(1000, 15000)
    }
    fn max_shrink_iters(&self) -> u32 {
        1500
    }
    fn strategy(&self, _tier: Tier) -> BoxedStrategy<SeqCase> {
        static DIRS: [DirKind; 4] = [DirKind::Sim, DirKind::Sim, DirKind::Mmap, DirKind::Ram];
        (cfg_strategy(&DIRS), prop::collection::vec(op_strategy(true), 1..60)).prop_map(|(cfg, ops)| SeqCase { cfg, ops }).boxed()
    }
    fn mandatory_labels(&self, _t: Tier) -> Vec<&'static str> {
        vec!["rollback_with_work", "abort_with_work", "merge", "reopen", "delete_all", "sorted_with_deletes", "dir:Sim", "dir:Mmap", "quiescence_after_nomerge_commit"]
    }
    fn run(&self, c: &SeqCase, cx: &Ctx) -> CaseResult {
        let mut env = Env::new(c.cfg.clone())?;
        env.check_quiescence = true;
        env.verify_each_commit = false;
        env.skip_dirty_delete_all = true; // known C02 finding; C10 looks at files
        for op in &c.ops {
            env.apply(op, cx)?;
        }
        env.finish(cx)?;
        let st = &env.stats;
        cx.label_if(st.rollbacks_with_work > 0, "rollback_with_work");
        cx.label_if(st.aborts_with_work > 0, "abort_with_work");
        cx.label_if(st.merges > 0, "merge");
        cx.label_if(st.reopen > 0, "reopen");
        cx.label_if(st.delete_all > 0, "delete_all");
        cx.label_if(c.cfg.sorted.is_some() && st.same_txn_delete_hits > 0, "sorted_with_deletes");
        cx.label_if(st.quiescence_checks > 1, "quiescence_after_nomerge_commit");
        cx.label(&format!("dir:{:?}", c.cfg.dir));
        cx.count("quiescence_checks", st.quiescence_checks as u64);
        cx.count("quiescence_retries", st.quiescence_retries as u64);
        cx.evals(st.quiescence_checks.saturating_sub(1) as u64);
        if st.rollbacks_with_work + st.aborts_with_work + st.merges + st.delete_all + st.reopen > 0 {
            cx.nontrivial(fp(c));
        }
        cx.sample(|| json!({"sub": "hist", "cfg": c.cfg, "ops": c.ops}));
        Ok(())
    }
}

// ------------------------------------------------------------------------------------------------
// Gated races: garbage collection while another thread is in the middle of writing a segment.
use serde::{Deserialize, Serialize};
use std::time::Duration;

use crate::simdir::{GateSpec, K};
use crate::{ensure, fail};

#[derive(Clone, Debug, Serialize, Deserialize)]
pub struct RaceCase {
    pub cfg: HistCfg,
    pub prefix: Vec<Op>,
    /// 0: hold the segment updater inside the metadata write of a commit, request an explicit GC (queued behind it),
    ///    let an indexing worker start a new segment, release;
    /// 1: hold an indexing worker at its n-th file creation, run explicit GC (and commit + implicit GC), release;
    /// 2: hold a merge thread at its n-th file creation, run explicit GC and a commit, release
    /// 3: hold a reader of a second Index handle inside its reload while everything is merged and collected
    /// 4: hold the segment updater inside the metadata write that publishes a merge, drop the writer, open a new writer,
    ///    add and commit with it, release
    /// 5: hold one indexing worker at a file creation, make the other worker fail (I/O fault), wait_merging_threads
    ///    (returns the worker's error), open the index again, new writer, add and commit, release
    /// 6: hold one indexing worker inside the n-th rewrite of .managed.json (registration of a new file) while the other
    ///    worker registers its files, commit; the persisted list, read through a fresh Index, must name every file
    /// 7: hold the garbage collection that ends a merge at its n-th deletion while an indexing worker creates the
    ///    files of a new segment, release, commit
    pub kind: u8,
    pub nth: u8,
    pub adds_during: Vec<AddSpec>,
    pub suffix: Vec<Op>,
}
pub struct Races;
impl Sub for Races {
    type Case = RaceCase;
    fn name(&self) -> &'static str {
        "races"
    }
    fn cases(&self, tier: Tier) -> u32 {
        tier.pick(600, 10000)
    }
    fn shards(&self, _t: Tier) -> usize {
        12
    }
    fn max_shrink_iters(&self) -> u32 {
        200
    }
    fn strategy(&self, _tier: Tier) -> BoxedStrategy<RaceCase> {
        static DIRS: [DirKind; 1] = [DirKind::Sim];
        let cfg = cfg_strategy(&DIRS).prop_map(|mut c| {
            c.threads = c.threads.min(2);
            c.policy = Policy::NoMerge;
            c
        });
        let prefix_op = prop_oneof![8 => add_strategy().prop_map(Op::Add), 1 => any::<u16>().prop_map(Op::DelUid), 3 => Just(Op::Commit)];
        (cfg, prop::collection::vec(prefix_op, 2..20), 0u8..8, 0u8..6, prop::collection::vec(add_strategy(), 1..5), prop::collection::vec(op_strategy(false), 0..8))
            .prop_map(|(cfg, prefix, kind, nth, adds_during, suffix)| RaceCase { cfg, prefix, kind, nth, adds_during, suffix })
            .boxed()
    }
    fn mandatory_labels(&self, _t: Tier) -> Vec<&'static str> {
        vec!["race:gc_queued_behind_commit", "race:gc_while_worker_writes_segment", "race:gc_while_merge_writes_segment", "race:gc_while_reader_loads", "race:old_updater_task_after_writer_drop", "old_updater_held_at_writer_drop", "race:worker_held_while_other_worker_fails", "wait_merging_threads_returned_worker_error", "race:worker_held_in_managed_list_write", "other_worker_registered_files_meanwhile", "race:collector_held_at_deletion_while_worker_registers", "reader_held_at_meta_lock", "reader_held_at_segment_file_open", "gate_reached", "unpublished_files_existed_during_gc"]
    }
    fn run(&self, c: &RaceCase, cx: &Ctx) -> CaseResult {
        let mut cfg = c.cfg.clone();
        if c.kind == 5 || c.kind == 6 {
            cfg.threads = 2;
        }
        let mut env = Env::new(cfg)?;
        env.check_quiescence = false;
        env.skip_dirty_delete_all = true;
        let DirHandle::Sim(sd) = &env.dir else { return Err(Failure::new("INFRA:not_sim", "")) };
        let sd = sd.clone();
        sd.set_logging(true, false);
        for op in &c.prefix {
            env.apply(op, cx)?;
        }
        env.apply(&Op::Commit, cx)?;
        let mut reached = false;
        let mut unpublished = false;
        // number of Create operations by indexing workers so far
        let creates_by = |sd: &crate::simdir::SimDir, thread: &str| sd.clone_log().iter().filter(|o| o.kind == K::Create && o.thread.starts_with(thread) && !crate::simdir::is_lock(&o.path)).count();
        match c.kind {
            0 => {
                cx.label("race:gc_queued_behind_commit");
                // uncommitted work so that the commit has something to publish
                for a in &c.adds_during {
                    env.apply(&Op::Add(a.clone()), cx)?;
                }
                let gate = sd.add_gate(GateSpec { thread: "segment_updater".into(), kind: Some(K::AtomicWrite), path_suffix: "meta.json".into(), nth: 0, max_hold: Duration::from_millis(400) });
                let payload = format!("c{}", env.commits + 1);
                let commit_future = {
                    let w = env.writer.as_mut().unwrap();
                    let mut pc = w.prepare_commit().or_fail("prepare_commit_failed")?;
                    pc.set_payload(&payload);
                    pc.commit_future()
                };
                reached = sd.wait_reached(gate, Duration::from_millis(300));
                // explicit GC is queued behind the commit on the updater thread
                let gc_future = env.writer.as_ref().unwrap().garbage_collect_files();
                // meanwhile an indexing worker starts a new segment
                let before = creates_by(&sd, "thrd-tantivy-index");
                let first_new_uid = env.next_uid;
                for a in &c.adds_during {
                    let uid = env.next_uid;
                    let mut d = tantivy::TantivyDocument::new();
                    d.add_u64(env.f.uid, uid);
                    d.add_text(env.f.grp, format!("g{}", a.grp));
                    let rec = DocRec { grp: a.grp, words: a.words.clone(), num: a.num as i64 };
                    d.add_text(env.f.body, rec.body());
                    d.add_i64(env.f.num, rec.num);
                    env.writer.as_ref().unwrap().add_document(d).or_fail("add_failed")?;
                    env.all_uids.push(uid);
                    env.next_uid += 1;
                    // these documents belong to the NEXT commit: remember them separately
                    env.pending.insert(uid, rec);
                }
                // wait (bounded) until the worker has created files of the new segment
                let t0 = std::time::Instant::now();
                while creates_by(&sd, "thrd-tantivy-index") == before && t0.elapsed() < Duration::from_millis(200) {
                    std::thread::yield_now();
                }
                unpublished = creates_by(&sd, "thrd-tantivy-index") > before;
                sd.release(gate);
                let o = commit_future.wait().or_fail("commit_failed")?;
                let _ = gc_future.wait();
                // bookkeeping of the commit that was in flight: it contains everything before `first_new_uid`
                env.commits += 1;
                env.last_commit_opstamp = o;
                env.last_opstamp = None;
                let mut committed = env.pending.clone();
                committed.retain(|u, _| *u < first_new_uid);
                env.committed = committed;
                env.models.push(env.committed.clone());
                env.dirty = true;
                env.verify("after_commit_with_queued_gc")?;
            }
            1 => {
                cx.label("race:gc_while_worker_writes_segment");
                let gate = sd.add_gate(GateSpec { thread: "thrd-tantivy-index".into(), kind: Some(K::Create), path_suffix: String::new(), nth: c.nth as usize, max_hold: Duration::from_millis(400) });
                for a in &c.adds_during {
                    env.apply(&Op::Add(a.clone()), cx)?;
                }
                reached = sd.wait_reached(gate, Duration::from_millis(300));
                unpublished = reached && c.nth > 0;
                // explicit GC while the worker sits between two file creations
                env.writer.as_ref().unwrap().garbage_collect_files().wait().or_fail("gc_failed")?;
                sd.release(gate);
            }
            3 => {
                // a reader on a second Index handle is held in the middle of a reload - either when it takes the meta lock or
                // at its n-th segment-file open - while all segments are merged and the old files are collected
                cx.label("race:gc_while_reader_loads");
                let ids = env.index.searchable_segment_ids().or_fail("segment_ids_failed")?;
                if ids.len() >= 2 {
                    let second = tantivy::Index::open(sd.clone()).or_fail("second_index_open_failed")?;
                    let (ready_tx, ready_rx) = std::sync::mpsc::channel::<()>();
                    let (go_tx, go_rx) = std::sync::mpsc::channel::<()>();
                    let expected = env.committed.clone();
                    let at_lock = c.nth % 2 == 0;
                    let gate_spec = if at_lock {
                        GateSpec { thread: "reader-gc".into(), kind: Some(K::Create), path_suffix: "meta.lock".into(), nth: 0, max_hold: Duration::from_millis(350) }
                    } else {
                        GateSpec { thread: "reader-gc".into(), kind: Some(K::OpenRead), path_suffix: String::new(), nth: (c.nth / 2) as usize, max_hold: Duration::from_millis(350) }
                    };
                    let handle = std::thread::Builder::new()
                        .name("reader-gc".into())
                        .spawn(move || -> CaseResult {
                            let reader: tantivy::IndexReader = second.reader_builder().reload_policy(tantivy::ReloadPolicy::Manual).try_into().or_fail("reader_open_failed")?;
                            let _ = ready_tx.send(());
                            let _ = go_rx.recv();
                            reader.reload().map_err(|e| Failure::new("reload_failed_during_gc", format!("{e:?}")))?;
                            let (_s, f) = hist_schema();
                            verify_searcher(&reader.searcher(), &f, &expected, "reader_held_during_gc")
                        })
                        .expect("spawn reader");
                    let _ = ready_rx.recv_timeout(Duration::from_secs(20));
                    let gate = sd.add_gate(gate_spec);
                    let _ = go_tx.send(());
                    reached = sd.wait_reached(gate, Duration::from_millis(300));
                    unpublished = reached;
                    cx.label_if(reached && at_lock, "reader_held_at_meta_lock");
                    cx.label_if(reached && !at_lock, "reader_held_at_segment_file_open");
                    // merge everything and collect: the files the held reader is about to open become obsolete
                    let merged: Result<(), ()> = env.writer.as_mut().unwrap().merge(&ids).wait().map(|_| ()).map_err(|_| ());
                    env.writer.as_ref().unwrap().garbage_collect_files().wait().or_fail("gc_failed")?;
                    sd.release(gate);
                    let r = handle.join().unwrap_or_else(|_| Err(Failure::new("panic:reader", "reader thread panicked")));
                    r?;
                    ensure!(merged.is_ok(), "merge_failed_while_reader_held", "the merge failed while a reader was held in its reload");
                    env.verify("after_merge_with_reader_held")?;
                }
            }
            4 => {
                // the end of a merge (segment manager updated, meta.json about to be written, files about to be collected)
                // is in progress on the updater thread when the writer is dropped: whatever the old updater still does
                // afterwards, the work of the NEXT writer must stay intact
                cx.label("race:old_updater_task_after_writer_drop");
                let ids = env.index.searchable_segment_ids().or_fail("segment_ids_failed")?;
                if ids.len() >= 2 {
                    let gate = sd.add_gate(GateSpec { thread: "segment_updater".into(), kind: Some(K::AtomicWrite), path_suffix: "meta.json".into(), nth: 0, max_hold: Duration::from_millis(250) });
                    let fut = env.writer.as_mut().unwrap().merge(&ids);
                    reached = sd.wait_reached(gate, Duration::from_millis(300));
                    cx.label_if(reached, "old_updater_held_at_writer_drop");
                    // drop: the writer lock is released
                    drop(env.writer.take());
                    let still_held = sd.gate_pending(gate);
                    env.new_writer()?;
                    for a in &c.adds_during {
                        env.apply(&Op::Add(a.clone()), cx)?;
                    }
                    env.apply(&Op::Commit, cx)?;
                    unpublished = reached;
                    cx.label_if(reached && still_held && sd.gate_pending(gate), "new_writer_committed_while_old_updater_held");
                    sd.release(gate);
                    let _ = fut.wait();
                    // let the old updater's task finish (metadata write + its garbage collection)
                    let t0 = std::time::Instant::now();
                    while t0.elapsed() < Duration::from_millis(30) {
                        std::thread::yield_now();
                    }
                    env.verify("after_old_updater_task")?;
                }
            }
            5 => {
                // one worker fails, the other one is in the middle of writing its segment: once the writer is gone
                // (wait_merging_threads returned the error) nothing of it may keep writing into the directory; whatever
                // the survivor created must be collectable by the next writer, also through another Index handle
                cx.label("race:worker_held_while_other_worker_fails");
                let gate = sd.add_gate(GateSpec { thread: "thrd-tantivy-index".into(), kind: Some(K::Create), path_suffix: String::new(), nth: (c.nth % 4) as usize, max_hold: Duration::from_millis(250) });
                env.apply(&Op::Add(c.adds_during[0].clone()), cx)?;
                reached = sd.wait_reached(gate, Duration::from_millis(300));
                unpublished = reached;
                sd.set_faults(vec![crate::simdir::FaultRule { kinds: vec![K::Create], thread: "thrd-tantivy-index".into(), path_suffix: String::new(), nth: 0, permanent: false, locks: false }]);
                for a in c.adds_during.iter().chain(c.adds_during.iter()) {
                    // taken by the other worker (the first one is held); not part of the model: they are never committed
                    let mut d = tantivy::TantivyDocument::new();
                    d.add_u64(env.f.uid, (7_000_000i64 + a.num as i64) as u64);
                    d.add_text(env.f.grp, format!("g{}", a.grp));
                    d.add_i64(env.f.num, a.num as i64);
                    if env.writer.as_ref().unwrap().add_document(d).is_err() {
                        break;
                    }
                }
                let w = env.writer.take().unwrap();
                let res = w.wait_merging_threads();
                cx.label_if(res.is_err(), "wait_merging_threads_returned_worker_error");
                cx.label_if(sd.gate_pending(gate), "worker_still_held_after_wait_returned");
                sd.clear_faults();
                // the next writer comes from another Index handle (own view of the managed files)
                env.index = tantivy::Index::open(sd.clone()).or_fail("index_open_failed")?;
                env.after_writer_gone()?;
                for a in &c.adds_during {
                    env.apply(&Op::Add(a.clone()), cx)?;
                }
                env.apply(&Op::Commit, cx)?;
                sd.release(gate);
                let t0 = std::time::Instant::now();
                while t0.elapsed() < Duration::from_millis(40) {
                    std::thread::yield_now();
                }
            }
            7 => {
                let ids = env.index.searchable_segment_ids().or_fail("segment_ids_failed")?;
                if ids.len() >= 2 {
                    let gate = sd.add_gate(GateSpec { thread: "segment_updater".into(), kind: Some(K::Delete), path_suffix: String::new(), nth: c.nth as usize, max_hold: Duration::from_millis(250) });
                    let fut = env.writer.as_mut().unwrap().merge(&ids);
                    reached = sd.wait_reached(gate, Duration::from_millis(300));
                    let before = creates_by(&sd, "thrd-tantivy-index");
                    for a in &c.adds_during {
                        env.apply(&Op::Add(a.clone()), cx)?;
                    }
                    let t0 = std::time::Instant::now();
                    while creates_by(&sd, "thrd-tantivy-index") < before + 5 && t0.elapsed() < Duration::from_millis(150) {
                        std::thread::yield_now();
                    }
                    unpublished = reached && sd.gate_pending(gate) && creates_by(&sd, "thrd-tantivy-index") > before;
                    cx.label_if(unpublished, "race:collector_held_at_deletion_while_worker_registers");
                    sd.disarm(gate);
                    let merged: Result<(), ()> = fut.wait().map(|_| ()).map_err(|_| ());
                    ensure!(merged.is_ok(), "merge_failed_with_held_collection", "the merge whose garbage collection was held failed");
                    // the persisted list, as a fresh Index reads it, names every file that exists
                    env.apply(&Op::Commit, cx)?;
                    let fresh = tantivy::Index::open(sd.clone()).or_fail("index_open_failed")?;
                    let managed: std::collections::BTreeSet<String> = fresh.directory().list_managed_files().iter().map(|p| p.to_string_lossy().to_string()).collect();
                    let unlisted: Vec<String> = sd.file_names().into_iter().filter(|p| !p.starts_with('.') && p != "meta.json" && !managed.contains(p)).collect();
                    ensure!(unlisted.is_empty(), "persisted_managed_list_misses_files", "after a commit these files exist but the persisted .managed.json does not name them: {unlisted:?}");
                }
            }
            6 => {
                cx.label("race:worker_held_in_managed_list_write");
                let gate = sd.add_gate(GateSpec { thread: "thrd-tantivy-index".into(), kind: Some(K::AtomicWrite), path_suffix: ".managed.json".into(), nth: c.nth as usize, max_hold: Duration::from_millis(150) });
                let before = sd.log_len();
                for a in c.adds_during.iter().chain(c.adds_during.iter()) {
                    env.apply(&Op::Add(a.clone()), cx)?;
                }
                reached = sd.wait_reached(gate, Duration::from_millis(200));
                // the other worker goes on (or waits for the list): give it the time of the hold
                env.apply(&Op::Commit, cx)?;
                sd.release(gate);
                if reached {
                    let log = sd.clone_log();
                    let holder = log.iter().skip(before).filter(|o| o.kind == K::AtomicWrite && o.path.to_string_lossy() == ".managed.json" && o.thread.starts_with("thrd-tantivy-index")).nth(c.nth as usize).map(|o| o.thread.clone());
                    let others = log.iter().skip(before).filter(|o| o.kind == K::Create && o.thread.starts_with("thrd-tantivy-index") && Some(&o.thread) != holder.as_ref()).count();
                    unpublished = others > 0;
                    cx.label_if(others > 0, "other_worker_registered_files_meanwhile");
                }
                // the persisted list, as a fresh Index reads it, names every file that exists
                let fresh = tantivy::Index::open(sd.clone()).or_fail("index_open_failed")?;
                let managed: std::collections::BTreeSet<String> = fresh.directory().list_managed_files().iter().map(|p| p.to_string_lossy().to_string()).collect();
                let unlisted: Vec<String> = sd.file_names().into_iter().filter(|p| !p.starts_with('.') && p != "meta.json" && !managed.contains(p)).collect();
                ensure!(unlisted.is_empty(), "persisted_managed_list_misses_files", "after a commit these files exist but the persisted .managed.json does not name them (never collected after a restart): {unlisted:?}");
            }
            _ => {
                cx.label("race:gc_while_merge_writes_segment");
                let ids = env.index.searchable_segment_ids().or_fail("segment_ids_failed")?;
                if ids.len() >= 2 {
                    let gate = sd.add_gate(GateSpec { thread: "merge_thread".into(), kind: Some(K::Create), path_suffix: String::new(), nth: c.nth as usize, max_hold: Duration::from_millis(400) });
                    let fut = env.writer.as_mut().unwrap().merge(&ids);
                    reached = sd.wait_reached(gate, Duration::from_millis(300));
                    unpublished = reached && c.nth > 0;
                    env.writer.as_ref().unwrap().garbage_collect_files().wait().or_fail("gc_failed")?;
                    for a in &c.adds_during {
                        env.apply(&Op::Add(a.clone()), cx)?;
                    }
                    env.apply(&Op::Commit, cx)?;
                    sd.release(gate);
                    let merged: Result<(), ()> = fut.wait().map(|_| ()).map_err(|_| ());
                    ensure!(merged.is_ok(), "merge_failed_after_gc", "a merge whose thread was paused while garbage collection ran failed (its files were collected?)");
                    env.verify("after_merge_with_gc")?;
                }
            }
        }
        // whatever happened: the next commit must publish complete, readable segments
        env.apply(&Op::Commit, cx)?;
        for op in &c.suffix {
            env.apply(op, cx)?;
        }
        env.check_quiescence = true;
        env.finish(cx)?;
        cx.label_if(reached, "gate_reached");
        cx.label_if(unpublished, "unpublished_files_existed_during_gc");
        if reached && unpublished {
            cx.nontrivial(fp(c));
        }
        cx.sample(|| json!({"sub": "races", "kind": c.kind, "nth": c.nth, "cfg": c.cfg, "prefix": c.prefix.len(), "adds_during": c.adds_during.len(), "suffix": c.suffix.len()}));
        if false {
            fail!("unreachable", "");
        }
        Ok(())
    }
}
