//! C14 — aggregations equal a direct computation and do not depend on partitioning.
//!
//! One sub-check `agg`: a generated corpus is indexed (a) as one segment, (b) as 1..6 segments of one index, (c) as
//! 1..4 separate indexes; every generated request (query + aggregation tree of depth <= 3) is evaluated by the
//! direct reference evaluator (`c14_model.rs`) and by tantivy on (a), (b) and — through
//! `DistributedAggregationCollector`, `merge_fruits` in a generated order / grouping and postcard round trips —
//! on (c). Oracle 1 compares each tantivy result with the reference, oracle 2 compares the tantivy results
//! with each other.
use std::collections::{BTreeMap, BTreeSet};
use std::ops::Bound;

use proptest::prelude::*;
use serde::{Deserialize, Serialize};
use serde_json::{json, Value};
use tantivy::aggregation::agg_req::Aggregations;
use tantivy::aggregation::intermediate_agg_result::IntermediateAggregationResults;
use tantivy::aggregation::{AggContextParams, AggregationCollector, AggregationLimitsGuard, DistributedAggregationCollector};
use tantivy::query::{AllQuery, BooleanQuery, Occur, Query, RangeQuery, TermQuery};
use tantivy::schema::*;
use tantivy::{DateTime, Index, IndexReader, IndexWriter, ReloadPolicy, TantivyDocument, Term};

use super::c14_cmp::*;
use super::c14_model::*;
use crate::engine::*;
use crate::{ensure, fail};

pub const SIG_TIES: &str = "terms_tie_order_partition_dependent";
pub const SIG_MULTI: &str = "bucket_counts_multivalued_doc_per_value";
pub const SIG_TOPHITS_FROM: &str = "top_hits_from_beyond_hits_panics";
pub const SIG_TOPHITS_POSTCARD: &str = "top_hits_intermediate_postcard_roundtrip";
pub const SIG_COMPOSITE_MISSING_ORDER: &str = "composite_histogram_source_missing_order_skips_all";
pub const SIG_COMPOSITE_DATE_NEG: &str = "composite_date_histogram_negative_timestamp_rounds_up";
pub const SIG_TERMS_MISSING_EXISTING: &str = "terms_missing_key_equal_to_existing_term_loses_counts";
/// terms with `missing` equal to an existing term and a segment_size cut: the term's bucket and the bucket of the
/// value-less documents are cut separately, the returned count can be off by more than doc_count_error_upper_bound
pub const SIG_TERMS_MISSING_BOUND: &str = "terms_missing_key_equal_to_existing_term_exceeds_error_bound";
pub const SIG_RANGE_FRACTIONAL: &str = "range_fractional_bound_on_integer_column_truncated";
pub const SIG_KEY_ORDER_F64: &str = "terms_key_order_on_f64_column_not_numeric";
pub const SIG_COMPOSITE_NESTED: &str = "composite_nested_in_bucket_aggregation_panics_for_empty_parent_bucket";
pub const SIG_COMPOSITE_MEM: &str = "composite_memory_accounting_subtract_overflow";
pub const SIG_COMPOSITE_AFTER_NULL: &str = "composite_after_null_key_desc_default_missing_order_repeats_buckets";
pub const SIG_COMPOSITE_EMPTY_MERGE: &str = "composite_merge_into_empty_placeholder_drops_buckets";
pub const SIG_DATE_F64: &str = "date_histogram_f64_nanosecond_arithmetic_imprecise";
pub const SIG_TERMS_MISSING_UNSORTED: &str = "terms_numeric_missing_equal_to_existing_key_hands_unsorted_docs_to_sub_aggregation";

pub fn def() -> PropDef {
    PropDef {
        id: "C14",
        level: "exploration",
        rule: "agg: generated corpora (0-200 documents; i64/u64/f64/string/ip/date fast fields, missing and multi-valued, negative and fractional values, values on bucket boundaries, 5-200 distinct terms, optional deletes) x generated requests (filtering query + aggregation tree of depth <= 3 over all 16 variants with generated parameters) x partitions (1-6 segments; 1-4 separate indexes merged with merge_fruits in generated order / grouping with postcard round trips). An evaluation is one (corpus, request). Non-trivial = the request has a bucket aggregation with a sub-aggregation, the bucketed field has missing or multi-valued entries among the matching documents, and at least two segments differ in their set of bucket-field values; distinct by (corpus, request). flush_batches: 100-320 terms in round robin followed by a tail of > 2048 documents of the first term in one segment; terms > {top_hits(size 1, sort by value desc), percentiles[50]} against a direct computation per term (document count, largest value, median within 2 %).",
        assumptions: vec![
            "reference semantics are taken from the rustdoc of src/aggregation/** (and the 0.26 changelog for the per-document de-duplication of term counts); undocumented details are not asserted: rendered range keys, order of equal-order-key term buckets, position of null metric values in a terms order, key order of ip/date term keys, zero-count term buckets of min_doc_count=0 below the top level or with deletes, percentiles only within the DDSketch 1% relative accuracy around the order statistics at rank p(n-1), cardinality exact up to 100 distinct values and within 10% beyond",
            "float metrics are compared with 1e-9 relative tolerance (variance-like values relative to sum_of_squares/count)",
            "terms aggregations are compared exactly only when segment_size >= number of distinct keys of the field in the corpus; otherwise only the documented error bounds are checked against the reference and no partition independence is demanded",
            "composite aggregations: reference only for sources over single-valued fields (generated that way)",
            "storage is RamDirectory, NoMergePolicy, one indexing thread",
        ],
        subs: vec![Box::new(Agg), Box::new(FlushBatches)],
    }
}

// ------------------------------------------------------------------------------------------------
// case

#[derive(Clone, Debug, Serialize, Deserialize)]
pub struct ReqSpec {
    pub q: Q,
    pub aggs: Vec<AggNode>,
    /// merge plan for the distributed evaluation
    pub perm: Vec<u16>,
    pub shape: u8,
    /// bit i: intermediate result i goes through a postcard round trip; bit 7: the merged result as well
    pub rt: u8,
    /// additionally run with this bucket limit: must error or return the complete result
    pub limit: Option<u8>,
}
#[derive(Clone, Debug, Serialize, Deserialize)]
pub struct AggCase {
    pub corpus: Corpus,
    /// commit positions (segments of the segmented index and inside the separate indexes)
    pub cuts: Vec<u16>,
    /// boundaries of the separate indexes
    pub split: Vec<u16>,
    pub reqs: Vec<ReqSpec>,
    /// compare equal-count term buckets in order (probe of the tie-order finding)
    #[serde(default)]
    pub strict_ties: bool,
}

// ------------------------------------------------------------------------------------------------
// strategies

fn doc_strategy() -> impl Strategy<Value = Doc> {
    let n = prop::collection::vec(prop_oneof![12 => -6i8..=12, 2 => Just(0i8), 2 => Just(5i8), 1 => -40i8..=40], 0..=3);
    let u = prop::option::weighted(0.75, prop_oneof![5 => 0u8..8, 2 => 0u8..=20, 1 => 90u8..=120]);
    let f = prop::collection::vec(-32i16..=64, 0..=2);
    let g = prop::option::weighted(0.75, prop_oneof![4 => -32i16..=64, 1 => Just(0i16), 1 => Just(8i16)]);
    let s = prop::collection::vec(prop_oneof![3 => 0u16..4, 3 => 0u16..200], 0..=3);
    let cat = prop::option::weighted(0.8, 0u8..5);
    let d = prop::option::weighted(0.75, -20i16..=60);
    let ip = prop::collection::vec(0u8..8, 0..=2);
    (n, u, f, g, s, cat, d, ip, prop::bool::weighted(0.15)).prop_map(|(n, u, f, g, s, cat, d, ip, del)| Doc { n, u, f, g, s, cat, d, ip, del })
}

fn corpus_strategy() -> impl Strategy<Value = Corpus> {
    let docs = prop_oneof![
        5 => prop::collection::vec(doc_strategy(), 0..24),
        3 => prop::collection::vec(doc_strategy(), 24..90),
        1 => prop::collection::vec(doc_strategy(), 120..260),
    ];
    (
        docs,
        prop_oneof![3 => Just(4u8), 1 => Just(10u8)],
        prop_oneof![3 => Just(5u16), 2 => Just(12u16), 1 => Just(40u16), 2 => Just(200u16)],
        0u8..5,
        prop_oneof![2 => Just(0u8), 2 => Just(1u8), 3 => Just(2u8)],
        // which optional single-valued fields are made full (bits: u, g, cat, d); 0 = none, 15 = all
        prop_oneof![2 => Just(0u8), 2 => Just(15u8), 2 => any::<u8>()],
        prop::bool::weighted(0.25),
    )
        .prop_map(|(mut docs, fdiv, vocab, dstep, dbase, full, has_del)| {
            for (i, d) in docs.iter_mut().enumerate() {
                if full & 1 != 0 && d.u.is_none() {
                    d.u = Some((i % 7) as u8);
                }
                if full & 2 != 0 && d.g.is_none() {
                    d.g = Some(((i * 3) % 40) as i16 - 8);
                }
                if full & 4 != 0 && d.cat.is_none() {
                    d.cat = Some((i % 3) as u8);
                }
                if full & 8 != 0 && d.d.is_none() {
                    d.d = Some(((i * 5) % 50) as i16);
                }
                if !has_del {
                    d.del = false;
                }
            }
            Corpus { docs, fdiv, vocab, dstep, dbase }
        })
}

fn q_strategy() -> impl Strategy<Value = Q> {
    prop_oneof![
        5 => Just(Q::All),
        2 => (0u8..6).prop_map(Q::Cat),
        2 => (any::<u16>(), any::<u16>()).prop_map(|(a, b)| Q::UidRange(a, b)),
        1 => (0u8..5, any::<u16>(), any::<u16>()).prop_map(|(c, a, b)| Q::CatOrUid(c, a, b)),
        1 => (any::<u16>(), any::<u16>(), 0u8..5).prop_map(|(a, b, c)| Q::UidNotCat(a, b, c)),
    ]
}

fn num_field() -> impl Strategy<Value = Fld> {
    prop_oneof![3 => Just(Fld::N), 2 => Just(Fld::U), 2 => Just(Fld::F), 2 => Just(Fld::G)]
}

fn metric_strategy() -> BoxedStrategy<AggNode> {
    let kind = prop_oneof![
        2 => Just(MetricKind::Avg),
        2 => Just(MetricKind::Sum),
        1 => Just(MetricKind::Min),
        1 => Just(MetricKind::Max),
        2 => Just(MetricKind::Count),
        2 => Just(MetricKind::Stats),
        2 => prop::option::of(1u8..8).prop_map(|sigma| MetricKind::ExtStats { sigma }),
        2 => (prop::option::of(prop::collection::vec(prop_oneof![3 => 0u8..=100, 1 => Just(0u8), 1 => Just(100u8), 1 => Just(50u8)], 1..5)), any::<bool>())
            .prop_map(|(percents, keyed)| MetricKind::Percentiles { percents, keyed }),
    ];
    let numeric = (kind, num_field(), prop::option::weighted(0.3, -10i16..=30)).prop_map(|(kind, field, missing)| MetricSpec { kind, field, missing });
    let card = (prop_oneof![2 => Just(Fld::S), 1 => Just(Fld::Cat), 2 => Just(Fld::N), 1 => Just(Fld::U), 1 => Just(Fld::F), 1 => Just(Fld::G), 1 => Just(Fld::Ip)], prop::option::weighted(0.3, -3i16..=12))
        .prop_map(|(field, missing)| MetricSpec { kind: MetricKind::Cardinality, field, missing: if field == Fld::Ip { None } else { missing } });
    let count_str = prop_oneof![Just(Fld::S), Just(Fld::Cat), Just(Fld::Ip)].prop_map(|field| MetricSpec { kind: MetricKind::Count, field, missing: None });
    let top = (1u8..5, prop::option::of(0u8..3), any::<bool>(), any::<bool>(), any::<bool>())
        .prop_map(|(size, from, desc, by_u, fields)| MetricSpec { kind: MetricKind::TopHits { size, from, desc, by_u, fields }, field: Fld::Uid, missing: None });
    prop_oneof![10 => numeric, 3 => card, 1 => count_str, 2 => top].prop_map(|m| AggNode { kind: AggKind::Metric(m), subs: vec![] }).boxed()
}

fn bounds_opt() -> impl Strategy<Value = Option<(i16, i16)>> {
    prop::option::weighted(0.3, (-12i16..=40, -12i16..=40))
}

fn bucket_kind_strategy(top: bool) -> BoxedStrategy<AggKind> {
    let range = (num_field(), prop::collection::vec(-8i16..=16, 1..5), prop::bool::weighted(0.15), any::<bool>(), any::<bool>(), prop::bool::weighted(0.2), prop::bool::weighted(0.25))
        .prop_map(|(field, cuts, half, open_lo, open_hi, keyed, custom_keys)| AggKind::Range { field, cuts, half, open_lo, open_hi, keyed, custom_keys });
    let interval = prop_oneof![2 => Just(1u8), 2 => Just(2u8), 4 => Just(4u8), 1 => Just(6u8), 3 => Just(8u8), 2 => Just(10u8), 2 => Just(12u8), 2 => Just(20u8), 1 => Just(40u8), 4 => 200u8..=204];
    let hist = (num_field(), interval, prop::option::weighted(0.35, 0u8..40), prop::option::weighted(0.4, 0u8..3), bounds_opt(), bounds_opt(), prop::bool::weighted(0.15))
        .prop_map(|(field, interval_q, offset_q, min_doc_count, hard, ext, keyed)| AggKind::Histogram { field, interval_q, offset_q, min_doc_count, hard, ext, keyed });
    let dunit = (1u16..40, 0u8..5);
    let dhist = (dunit.clone(), prop::option::weighted(0.3, dunit), prop::option::weighted(0.4, 0u8..3), bounds_opt(), bounds_opt(), prop::bool::weighted(0.15))
        .prop_map(|(interval, offset, min_doc_count, hard, ext, keyed)| AggKind::DateHistogram { interval, offset, min_doc_count, hard, ext, keyed });
    let tfield = prop_oneof![4 => Just(Fld::S), 3 => Just(Fld::Cat), 3 => Just(Fld::N), 2 => Just(Fld::U), 1 => Just(Fld::F), 1 => Just(Fld::G), 1 => Just(Fld::Ip), 1 => Just(Fld::D)];
    let order = prop_oneof![
        4 => Just(TOrder::CountDesc),
        1 => Just(TOrder::CountAsc),
        2 => Just(TOrder::KeyAsc),
        1 => Just(TOrder::KeyDesc),
        2 => (any::<u8>(), any::<bool>()).prop_map(|(idx, asc)| TOrder::Sub { idx, asc }),
    ];
    let tmissing = prop::option::weighted(0.3, prop_oneof![3 => (-3i16..=14).prop_map(TMissing::Own), 1 => Just(TMissing::Na)]);
    // sizes: mostly exact (segment_size default = 10*size or explicit large), sometimes a deliberate segment cut
    let sizes = prop_oneof![
        5 => (prop::option::of(prop_oneof![3 => 1u8..5, 1 => 5u8..30]), Just(Some(1000u16))),
        2 => (prop::option::of(1u8..30), Just(None)),
        2 => (prop::option::of(1u8..4), prop::option::of(1u16..6)),
    ];
    let terms = (tfield, sizes, order, prop::option::weighted(0.4, prop_oneof![2 => Just(1u8), 2 => Just(2u8), 1 => Just(3u8), 2 => Just(0u8)]), tmissing, prop::option::of(any::<bool>())).prop_map(
        |(field, (size, segment_size), order, min_doc_count, missing, show_err)| {
            // min_doc_count = 0 returns all terms of the dictionaries: no size cut through the zero-count run
            let (size, segment_size) = if min_doc_count == Some(0) { (Some(255), Some(1000)) } else { (size, segment_size) };
            AggKind::Terms { field, size, segment_size, order, min_doc_count, missing, show_err }
        },
    );
    let filter = q_strategy().prop_map(|q| AggKind::Filter { q });
    let cfield_t = prop_oneof![2 => Just(Fld::Cat), 2 => Just(Fld::U), 1 => Just(Fld::G), 1 => Just(Fld::Uid)];
    let src = prop_oneof![
        3 => (cfield_t, any::<bool>(), any::<bool>(), 0u8..3).prop_map(|(field, desc, missing_bucket, missing_order)| Src::Terms { field, desc, missing_bucket, missing_order }),
        2 => (prop_oneof![Just(Fld::G), Just(Fld::U)], prop_oneof![Just(4u8), Just(8u8), Just(2u8), Just(20u8)], any::<bool>(), any::<bool>(), 0u8..3)
            .prop_map(|(field, interval_q, desc, missing_bucket, missing_order)| Src::Histogram { field, interval_q, desc, missing_bucket, missing_order }),
        1 => (prop_oneof![Just(1u32), Just(1000u32), Just(3_600_000u32), Just(86_400_000u32), 1u32..5000], any::<bool>(), any::<bool>(), 0u8..3)
            .prop_map(|(interval_ms, desc, missing_bucket, missing_order)| Src::DateHistogram { interval_ms, desc, missing_bucket, missing_order }),
    ];
    let composite = (prop::collection::vec(src, 1..4), prop_oneof![3 => 1u8..6, 1 => 6u8..60], prop::bool::weighted(0.4))
        .prop_map(move |(sources, size, page2)| AggKind::Composite { sources, size, page2: page2 && top });
    prop_oneof![3 => range, 4 => hist, 2 => dhist, 6 => terms, 2 => filter, 2 => composite].boxed()
}

fn tree_strategy() -> BoxedStrategy<Vec<AggNode>> {
    let leaf_subs = prop::collection::vec(metric_strategy(), 0..3);
    let level2 = (bucket_kind_strategy(false), leaf_subs).prop_map(|(kind, subs)| AggNode { kind, subs });
    let level1_subs = prop::collection::vec(prop_oneof![3 => metric_strategy(), 2 => level2.boxed()], 0..3);
    let level1 = (bucket_kind_strategy(true), level1_subs).prop_map(|(kind, subs)| AggNode { kind, subs });
    // the shape served by the fused terms x histogram collector: top-level terms over a (possibly) full low-cardinality
    // column with exactly one histogram / date_histogram leaf over a (possibly) full column
    let fused_sub = prop_oneof![
        2 => (prop_oneof![Just(Fld::G), Just(Fld::U)], prop_oneof![Just(2u8), Just(4u8), Just(8u8), Just(20u8)], prop::option::weighted(0.3, 0u8..8), prop::option::weighted(0.4, 0u8..3), bounds_opt(), bounds_opt())
            .prop_map(|(field, interval_q, offset_q, min_doc_count, hard, ext)| AggKind::Histogram { field, interval_q, offset_q, min_doc_count, hard, ext, keyed: false }),
        1 => ((1u16..40, 0u8..5), prop::option::weighted(0.4, 0u8..3), bounds_opt()).prop_map(|(interval, min_doc_count, hard)| AggKind::DateHistogram { interval, offset: None, min_doc_count, hard, ext: None, keyed: false }),
    ];
    let fused = (prop_oneof![Just(Fld::Cat), Just(Fld::U)], prop::option::of(1u8..6), prop::option::weighted(0.3, 1u8..3), fused_sub).prop_map(|(field, size, min_doc_count, sub)| AggNode {
        kind: AggKind::Terms { field, size, segment_size: Some(1000), order: TOrder::CountDesc, min_doc_count, missing: None, show_err: None },
        subs: vec![AggNode { kind: sub, subs: vec![] }],
    });
    prop::collection::vec(prop_oneof![2 => metric_strategy(), 8 => level1.boxed(), 1 => fused.boxed()], 1..3).boxed()
}

fn req_strategy() -> impl Strategy<Value = ReqSpec> {
    (q_strategy(), tree_strategy(), prop::collection::vec(any::<u16>(), 4), 0u8..3, any::<u8>(), prop::option::weighted(0.15, 0u8..12))
        .prop_map(|(q, aggs, perm, shape, rt, limit)| ReqSpec { q, aggs, perm, shape, rt, limit })
}

// ------------------------------------------------------------------------------------------------
// index construction

struct Fields {
    uid: Field,
    n: Field,
    u: Field,
    f: Field,
    g: Field,
    s: Field,
    cat: Field,
    d: Field,
    ip: Field,
}
fn build_schema() -> (Schema, Fields) {
    let mut sb = Schema::builder();
    let uid = sb.add_u64_field("uid", FAST | INDEXED);
    let n = sb.add_i64_field("n", FAST);
    let u = sb.add_u64_field("u", FAST);
    let f = sb.add_f64_field("f", FAST);
    let g = sb.add_f64_field("g", FAST);
    let s = sb.add_text_field("s", STRING | FAST);
    let cat = sb.add_text_field("cat", STRING | FAST);
    let d = sb.add_date_field("d", DateOptions::default().set_fast().set_precision(DateTimePrecision::Milliseconds));
    let ip = sb.add_ip_addr_field("ip", FAST);
    (sb.build(), Fields { uid, n, u, f, g, s, cat, d, ip })
}

struct Built {
    #[allow(dead_code)]
    index: Index,
    reader: IndexReader,
}

fn build_index(schema: &Schema, fl: &Fields, docs: &[DocM], range: std::ops::Range<usize>, cuts: &[usize]) -> Result<Built, Failure> {
    let index = Index::create_in_ram(schema.clone());
    let mut w: IndexWriter<TantivyDocument> = crate::util::writer(&index, Default::default()).or_fail("INFRA:writer")?;
    w.set_merge_policy(Box::new(tantivy::merge_policy::NoMergePolicy));
    let mut pending = 0;
    for i in range.clone() {
        if cuts.contains(&i) && pending > 0 {
            w.commit().or_fail("INFRA:commit")?;
            pending = 0;
        }
        let d = &docs[i];
        let mut td = TantivyDocument::default();
        td.add_u64(fl.uid, d.uid);
        for x in &d.n {
            td.add_i64(fl.n, *x);
        }
        if let Some(x) = d.u {
            td.add_u64(fl.u, x);
        }
        for x in &d.f {
            td.add_f64(fl.f, *x);
        }
        if let Some(x) = d.g {
            td.add_f64(fl.g, x);
        }
        for x in &d.s {
            td.add_text(fl.s, x);
        }
        if let Some(x) = &d.cat {
            td.add_text(fl.cat, x);
        }
        if let Some(ms) = d.d_ms {
            td.add_date(fl.d, DateTime::from_timestamp_millis(ms));
        }
        for x in &d.ip {
            td.add_ip_addr(fl.ip, *x);
        }
        w.add_document(td).or_fail("INFRA:add")?;
        pending += 1;
    }
    let mut any_del = false;
    for i in range {
        if docs[i].del {
            w.delete_term(Term::from_field_u64(fl.uid, docs[i].uid));
            any_del = true;
        }
    }
    if pending > 0 || any_del {
        w.commit().or_fail("INFRA:commit")?;
    }
    drop(w);
    let reader: IndexReader = index.reader_builder().reload_policy(ReloadPolicy::Manual).try_into().or_fail("INFRA:reader")?;
    Ok(Built { index, reader })
}

fn positions(raw: &[u16], ndocs: usize) -> Vec<usize> {
    let set: BTreeSet<usize> = raw.iter().map(|r| idx(*r, ndocs + 1)).filter(|p| *p > 0 && *p < ndocs).collect();
    set.into_iter().collect()
}

fn build_query(q: &Q, fl: &Fields, ndocs: usize) -> Box<dyn Query> {
    let cat = |c: u8| -> Box<dyn Query> { Box::new(TermQuery::new(Term::from_field_text(fl.cat, &cat_of(c)), IndexRecordOption::Basic)) };
    let rng = |lo: u16, hi: u16| -> Box<dyn Query> {
        let (a, b) = uid_range(lo, hi, ndocs);
        Box::new(RangeQuery::new(Bound::Included(Term::from_field_u64(fl.uid, a)), Bound::Included(Term::from_field_u64(fl.uid, b))))
    };
    match q {
        Q::All => Box::new(AllQuery),
        Q::Cat(c) => cat(*c),
        Q::UidRange(lo, hi) => rng(*lo, *hi),
        Q::CatOrUid(c, lo, hi) => Box::new(BooleanQuery::new(vec![(Occur::Should, cat(*c)), (Occur::Should, rng(*lo, *hi))])),
        Q::UidNotCat(lo, hi, c) => Box::new(BooleanQuery::new(vec![(Occur::Must, rng(*lo, *hi)), (Occur::MustNot, cat(*c))])),
    }
}

// ------------------------------------------------------------------------------------------------
// helpers over the spec tree

fn walk<'a>(nodes: &'a [AggNode], depth: usize, f: &mut dyn FnMut(&'a AggNode, usize)) {
    for n in nodes {
        f(n, depth);
        walk(&n.subs, depth + 1, f);
    }
}

/// finds a terms node whose reference result reports a `size` cut through a run of equal order keys
fn find_tie_cut(nodes: &[AggNode], depth: usize, r: &Value, card: &BTreeMap<Fld, usize>, path: &mut Vec<usize>) -> Option<Vec<usize>> {
    for (i, n) in nodes.iter().enumerate() {
        let Some(v) = r.get(level_name(depth, i)) else { continue };
        path.push(i);
        if let AggKind::Terms { field, size, segment_size, missing, .. } = &n.kind {
            let exact = eff_segment_size(*size, *segment_size) >= card.get(field).copied().unwrap_or(0) + missing.is_some() as usize;
            if exact && v.get("__tie_cut").and_then(|t| t.as_bool()) == Some(true) {
                return Some(path.clone());
            }
        }
        match &n.kind {
            AggKind::Metric(_) => {}
            AggKind::Filter { .. } => {
                if let Some(p) = find_tie_cut(&n.subs, depth + 1, v, card, path) {
                    return Some(p);
                }
            }
            _ => {
                if let Some(Value::Array(bs)) = v.get("buckets") {
                    for b in bs {
                        if let Some(p) = find_tie_cut(&n.subs, depth + 1, b, card, path) {
                            return Some(p);
                        }
                    }
                }
            }
        }
        path.pop();
    }
    None
}
fn node_at<'a>(nodes: &'a mut [AggNode], path: &[usize]) -> &'a mut AggNode {
    let n = &mut nodes[path[0]];
    if path.len() == 1 {
        n
    } else {
        node_at(&mut n.subs, &path[1..])
    }
}

fn to_aggs(v: &Value) -> Result<Aggregations, Failure> {
    serde_json::from_value(v.clone()).map_err(|e| Failure::new("INFRA:request_does_not_parse", format!("{e}: {v}")))
}

fn first_kinds(nodes: &[AggNode]) -> String {
    nodes.iter().map(|n| n.kind.kind_name()).collect::<Vec<_>>().join("+")
}

// ------------------------------------------------------------------------------------------------

pub struct Agg;
impl Sub for Agg {
    type Case = AggCase;
    fn name(&self) -> &'static str {
        "agg"
    }
    fn cases(&self, tier: Tier) -> u32 {
        std::env::var("TVV_C14_CASES").ok().and_then(|s| s.parse().ok()).unwrap_or(tier.pick(2400, 28000))
    }
    fn max_shrink_iters(&self) -> u32 {
        std::env::var("TVV_C14_SHRINK").ok().and_then(|s| s.parse().ok()).unwrap_or(3000)
    }
    fn strategy(&self, tier: Tier) -> BoxedStrategy<AggCase> {
        let nreq = tier.pick(14, 22);
        (
            corpus_strategy(),
            prop::collection::vec(any::<u16>(), 0..6),
            prop::collection::vec(any::<u16>(), 0..4),
            prop::collection::vec(req_strategy(), 1..nreq),
        )
            .prop_map(|(corpus, cuts, split, reqs)| AggCase { corpus, cuts, split, reqs, strict_ties: false })
            .boxed()
    }
    fn mandatory_labels(&self, _t: Tier) -> Vec<&'static str> {
        vec![
            "kind:avg",
            "kind:sum",
            "kind:min",
            "kind:max",
            "kind:value_count",
            "kind:stats",
            "kind:extended_stats",
            "kind:percentiles",
            "kind:cardinality",
            "kind:top_hits",
            "kind:range",
            "kind:histogram",
            "kind:date_histogram",
            "kind:terms",
            "kind:filter",
            "kind:composite",
            "depth3",
            "bucket_with_sub",
            "segments>=3",
            "indexes>=2",
            "postcard_roundtrip",
            "merge_shape_tree",
            "query_filtered",
            "has_deletes",
            "segment>64docs",
            "multi_valued_in_bucket_field",
            "missing_in_bucket_field",
            "value_on_bucket_boundary",
            "negative_values",
            "fractional_non_dyadic",
            "terms_high_cardinality",
            "terms_order_sub_agg",
            "terms_min_doc_count>1",
            "terms_missing",
            "terms_segment_cut(inexact)",
            "fused_terms_x_histogram_shape",
            "histogram_hard_bounds",
            "histogram_extended_bounds",
            "range_open_ended_explicit",
            "composite_page2",
            "limit_exceeded_error",
            "limit_not_exceeded",
        ]
    }

    fn run(&self, c: &AggCase, cx: &Ctx) -> CaseResult {
        let model = c.corpus.model();
        let ndocs = model.len();
        let (schema, fl) = build_schema();
        let cuts = positions(&c.cuts, ndocs);
        let split = positions(&c.split, ndocs);
        let a = build_index(&schema, &fl, &model, 0..ndocs, &[])?;
        let b = build_index(&schema, &fl, &model, 0..ndocs, &cuts)?;
        let mut parts: Vec<Built> = vec![];
        let mut start = 0;
        for end in split.iter().cloned().chain(std::iter::once(ndocs)) {
            parts.push(build_index(&schema, &fl, &model, start..end, &cuts)?);
            start = end;
        }
        let live: Vec<&DocM> = model.iter().filter(|d| !d.del).collect();
        let has_del = model.iter().any(|d| d.del);
        let u_full = !live.is_empty() && live.iter().all(|d| d.u.is_some());
        // distinct keys per field over all documents (also deleted ones: they are in the segments)
        let mut card: BTreeMap<Fld, usize> = BTreeMap::new();
        for f in [Fld::N, Fld::U, Fld::F, Fld::G, Fld::S, Fld::Cat, Fld::D, Fld::Ip, Fld::Uid] {
            let set: BTreeSet<TKey> = model.iter().flat_map(|d| vals(d, f)).map(|v| v_to_tkey(&v)).collect();
            card.insert(f, set.len());
        }
        let canon = !c.strict_ties && is_open(cx, SIG_TIES);
        let per_value = is_open(cx, SIG_MULTI);
        let seg_bounds: Vec<(usize, usize)> = {
            let mut v = vec![];
            let mut s = 0;
            for e in cuts.iter().cloned().chain(std::iter::once(ndocs)) {
                v.push((s, e));
                s = e;
            }
            v
        };
        let nsegs = seg_bounds.iter().filter(|(s, e)| model[*s..*e].iter().any(|d| !d.del)).count();
        cx.label_if(nsegs >= 3, "segments>=3");
        cx.label_if(nsegs <= 1, "segments<=1");
        cx.label_if(parts.len() >= 2, "indexes>=2");
        cx.label_if(has_del, "has_deletes");
        cx.label_if(seg_bounds.iter().any(|(s, e)| e - s > 64), "segment>64docs");
        cx.label_if(live.is_empty(), "corpus_without_live_docs");
        cx.label_if(c.corpus.fdiv == 10, "fractional_non_dyadic");
        cx.label_if(card[&Fld::S] > 100, "terms_high_cardinality");
        let corpus_fp = fp(&c.corpus);

        for (ri, r) in c.reqs.iter().enumerate() {
            cx.evals(if ri == 0 { 0 } else { 1 });
            let mut aggs = r.aggs.clone();
            let neg_dates = live.iter().any(|d| d.d_ms.map_or(false, |ms| ms < 0));
            sanitize(&mut aggs, cx, r.rt != 0, neg_dates, &c.corpus);
            let aggs_in = aggs;
            let modern_dates = c.corpus.dbase % 3 == 0;
            if modern_dates && has_date_histogram(&aggs_in) && is_open(cx, SIG_DATE_F64) {
                cx.excluded("date_histogram_over_present_day_timestamps(request skipped)", 1);
                continue;
            }
            DUPS_WITH_SUBS.with(|c| c.set(0));
            let outcome = std::panic::catch_unwind(std::panic::AssertUnwindSafe(|| -> CaseResult {
            let matching: Vec<&DocM> = live.iter().cloned().filter(|d| q_matches(&r.q, d, ndocs)).collect();
            let env = Env { corpus: &c.corpus, ndocs, u_full, per_value_buckets: per_value, dup_in_bucket: Default::default(), dup_with_subs: Default::default() };
            let no_after_keys = |_: &[usize]| -> Option<Vec<CKey>> { None };
            // --- reference; while the tie-order finding is open, a `size` that would cut through a run of equal order
            // keys is enlarged (counted as exclusion)
            let mut aggs = aggs_in.clone();
            let mut adjusted = 0u64;
            let mut reference;
            loop {
                // page 1 of top-level composites first: their last key is the `after` of page 2
                let page1 = Value::Object(eval_aggs(&aggs, 0, &matching, &env, &mut vec![], &no_after_keys));
                let mut afters: BTreeMap<usize, (Vec<CKey>, Value)> = BTreeMap::new();
                for (i, n) in aggs.iter().enumerate() {
                    if let AggKind::Composite { page2: true, .. } = &n.kind {
                        let v = &page1[level_name(0, i)];
                        if let (Some(ak), Some(last)) = (v.get("after_key"), v.get("__last").and_then(|l| l.as_array())) {
                            let keys: Vec<CKey> = last
                                .iter()
                                .zip(ak.as_object().unwrap().values())
                                .map(|(k, a)| match k {
                                    Value::Null => CKey::Null,
                                    Value::String(s) => CKey::Str(s.clone()),
                                    Value::Number(x) => {
                                        if a.as_str().map_or(false, |s| s.starts_with("dt:")) {
                                            CKey::DateMs(x.as_i64().unwrap_or(0))
                                        } else {
                                            CKey::Num(x.as_f64().unwrap())
                                        }
                                    }
                                    _ => CKey::Null,
                                })
                                .collect();
                            afters.insert(i, (keys, ak.clone()));
                        }
                    }
                }
                let after_keys = |p: &[usize]| -> Option<Vec<CKey>> {
                    if p.len() == 1 {
                        afters.get(&p[0]).map(|a| a.0.clone())
                    } else {
                        None
                    }
                };
                reference = (
                    Value::Object(eval_aggs(&aggs, 0, &matching, &env, &mut vec![], &after_keys)),
                    afters.iter().map(|(k, v)| (*k, v.1.clone())).collect::<BTreeMap<usize, Value>>(),
                    afters.iter().map(|(k, v)| (*k, v.0.clone())).collect::<BTreeMap<usize, Vec<CKey>>>(),
                );
                if !canon {
                    break;
                }
                match find_tie_cut(&aggs, 0, &reference.0, &card, &mut vec![]) {
                    None => break,
                    Some(p) => {
                        if let AggKind::Terms { size, .. } = &mut node_at(&mut aggs, &p).kind {
                            *size = Some((eff_size(*size) as u8).saturating_add(1));
                            if *size == Some(255) {
                                break;
                            }
                        }
                        adjusted += 1;
                    }
                }
            }
            cx.excluded("terms_size_cut_through_equal_order_keys(size enlarged)", adjusted);
            let (reference, after_json, after_ckeys) = reference;
            let dups = env.dup_in_bucket.get();
            let dups_subs = env.dup_with_subs.get();
            if per_value {
                if dups_subs > 0 || dup_with_subs_anywhere(&aggs, &matching, &c.corpus) {
                    // the document would be handed twice to the sub-aggregations of one bucket (trips tantivy's own
                    // debug assertion in fetch_block): not run at all while the finding is open
                    cx.excluded("multivalued_doc_twice_in_one_bucket_with_sub_aggregation(request skipped)", 1);
                    return Ok(());
                }
                cx.excluded("multivalued_doc_twice_in_one_bucket(reference follows per-value counting)", (dups > 0) as u64);
            }
            DUPS_WITH_SUBS.with(|cell| cell.set(dups_subs + dup_with_subs_anywhere(&aggs, &matching, &c.corpus) as u64));
            let rc = ReqCtx { corpus: &c.corpus, ndocs, u_full };
            let after_fn = |p: &[usize]| -> Option<Value> {
                if p.len() == 1 {
                    after_json.get(&p[0]).cloned()
                } else {
                    None
                }
            };
            let req_json = aggs_json(&aggs, 0, &rc, &after_fn, &mut vec![]);
            let agg_req = to_aggs(&req_json)?;
            let query = build_query(&r.q, &fl, ndocs);
            let kinds0 = first_kinds(&aggs);

            let run_final = |bt: &Built, limits: AggregationLimitsGuard| -> Result<Value, String> {
                let coll = AggregationCollector::from_aggs(agg_req.clone(), AggContextParams::new(limits, bt.index.tokenizers().clone()));
                bt.reader.searcher().search(&*query, &coll).map(|r| serde_json::to_value(r).unwrap()).map_err(|e| format!("{e:?}"))
            };
            let res_a = match run_final(&a, Default::default()) {
                Ok(v) => v,
                Err(e) => {
                    // rustdoc: "bucket_limit will default to DEFAULT_BUCKET_LIMIT (65000)": an error is the documented
                    // outcome if the complete result is larger
                    if e.contains("BucketLimitExceeded") && count_buckets(&aggs, 0, &reference) > 65000 {
                        cx.label("default_bucket_limit_exceeded");
                        return Ok(());
                    }
                    fail!(format!("unexpected_error:single_segment:{kinds0}"), "request {req_json}: {e}")
                }
            };
            let res_b = match run_final(&b, Default::default()) {
                Ok(v) => v,
                Err(e) => fail!(format!("unexpected_error:segmented:{kinds0}"), "request {req_json}: {e}"),
            };
            // --- distributed
            let mut inter: Vec<IntermediateAggregationResults> = vec![];
            for (pi, p) in parts.iter().enumerate() {
                let coll = DistributedAggregationCollector::from_aggs(agg_req.clone(), AggContextParams::new(Default::default(), p.index.tokenizers().clone()));
                let mut x = match p.reader.searcher().search(&*query, &coll) {
                    Ok(x) => x,
                    Err(e) => fail!(format!("unexpected_error:distributed_collect:{kinds0}"), "request {req_json}: {e:?}"),
                };
                if r.rt & (1 << pi) != 0 {
                    x = roundtrip(x, &kinds0)?;
                    cx.label("postcard_roundtrip");
                }
                inter.push(x);
            }
            // permutation
            let mut order: Vec<IntermediateAggregationResults> = vec![];
            let mut pool = inter;
            for k in 0..pool.len() {
                let j = idx(*r.perm.get(k).unwrap_or(&0), pool.len());
                order.push(pool.remove(j));
            }
            let merged = merge_plan(order, r.shape, &kinds0, cx)?;
            let merged = if r.rt & 0x80 != 0 { roundtrip(merged, &kinds0)? } else { merged };
            let res_d = match merged.into_final_result(agg_req.clone(), Default::default()) {
                Ok(x) => serde_json::to_value(x).unwrap(),
                Err(e) => fail!(format!("unexpected_error:into_final_result:{kinds0}"), "request {req_json}: {e:?}"),
            };

            // --- oracles
            let zero_terms = !has_del;
            let mk = |mode: Mode| CmpCx { mode, canon_ties: canon, card: &card, counters: Default::default(), zero_terms_top_level: zero_terms };
            let detail = |d: &Diff, what: &str, l: &Value, rr: &Value| -> String {
                let mut s = format!(
                    "{what}: {}\nrequest: {req_json}\nquery: {:?} ({} matching live docs of {ndocs}; segments at {cuts:?}, indexes at {split:?})\nleft : {}\nright: {}",
                    d.msg,
                    r.q,
                    matching.len(),
                    strip_private(l),
                    rr
                );
                s.truncate(6000);
                s
            };
            // TVV_C14_NO_REF (sensitivity experiments only): oracle 2 on its own
            let no_ref = std::env::var("TVV_C14_NO_REF").is_ok();
            for (name, res) in [("single_segment", &res_a), ("segmented", &res_b), ("distributed", &res_d)] {
                if no_ref {
                    break;
                }
                let cc = mk(Mode::Ref);
                if let Err(d) = cmp_aggs(&cc, &aggs, 0, &reference, res, "") {
                    if !per_value && dups > 0 {
                        // is the difference exactly the per-value counting of multi-valued documents?
                        let env2 = Env { corpus: &c.corpus, ndocs, u_full, per_value_buckets: true, dup_in_bucket: Default::default(), dup_with_subs: Default::default() };
                        let after_keys = |p: &[usize]| -> Option<Vec<CKey>> { if p.len() == 1 { after_ckeys.get(&p[0]).cloned() } else { None } };
                        let ref2 = Value::Object(eval_aggs(&aggs, 0, &matching, &env2, &mut vec![], &after_keys));
                        if cmp_aggs(&mk(Mode::Ref), &aggs, 0, &ref2, res, "").is_ok() {
                            fail!(SIG_MULTI, "[ref:{}:{}] {}", d.class, d.kinds, detail(&d, &format!("reference vs {name}"), &reference, res));
                        }
                    }
                    fail!(format!("ref:{}:{}", d.class, d.kinds), "{}", detail(&d, &format!("reference vs {name}"), &reference, res));
                }
                for (k, v) in cc.counters.borrow().iter() {
                    cx.count(k, *v);
                }
            }
            for (name, res) in [("seg", &res_b), ("dist", &res_d)] {
                let cc = mk(Mode::Meta);
                if let Err(d) = cmp_aggs(&cc, &aggs, 0, &res_a, res, "") {
                    let sig = if d.class == "tie_order" { SIG_TIES.to_string() } else { format!("{name}:{}:{}", d.class, d.kinds) };
                    fail!(sig, "{}", detail(&d, &format!("single segment vs {name}"), &res_a, res));
                }
            }
            // --- limits: error or complete result, never a silently truncated one
            if let Some(l) = r.limit {
                match run_final(&b, AggregationLimitsGuard::new(None, Some(l as u32))) {
                    Err(e) => {
                        ensure!(e.contains("BucketLimitExceeded") || e.contains("bucket"), format!("limit:unexpected_error:{kinds0}"), "limit {l}: {e}; request {req_json}");
                        let nb = count_buckets(&aggs, 0, &res_b);
                        ensure!(nb > l as u64, format!("limit:error_below_limit:{kinds0}"), "limit {l} but the complete result has {nb} buckets: {e}; request {req_json}");
                        cx.label("limit_exceeded_error");
                    }
                    Ok(v) => {
                        let cc = mk(Mode::Meta);
                        if let Err(d) = cmp_aggs(&cc, &aggs, 0, &res_b, &v, "") {
                            fail!(format!("limit:truncated:{}", d.kinds), "{}", detail(&d, &format!("unlimited vs bucket_limit {l}"), &res_b, &v));
                        }
                        let nb = count_buckets(&aggs, 0, &v);
                        ensure!(nb <= l as u64, format!("limit:not_enforced:{kinds0}"), "bucket_limit {l} but {nb} buckets returned; request {req_json}");
                        cx.label("limit_not_exceeded");
                    }
                }
            }

            // --- classification
            let mut has_bucket_with_sub = false;
            let mut maxdepth = 0;
            let mut bucket_fields: Vec<Fld> = vec![];
            walk(&aggs, 0, &mut |n, depth| {
                cx.label(&format!("kind:{}", n.kind.kind_name()));
                maxdepth = maxdepth.max(depth);
                if !matches!(n.kind, AggKind::Metric(_)) && !n.subs.is_empty() {
                    has_bucket_with_sub = true;
                }
                match &n.kind {
                    AggKind::Range { field, cuts: rc_, half, open_lo, open_hi, .. } => {
                        bucket_fields.push(*field);
                        let cs = range_cuts(&c.corpus, *field, rc_, *half);
                        if matching.iter().any(|d| nums(d, *field).iter().any(|v| cs.contains(v))) {
                            cx.label("value_on_bucket_boundary");
                        }
                        cx.label_if(*open_lo && *open_hi, "range_open_ended_explicit");
                        cx.label_if(*half && field.is_int(), "range_fractional_bound_on_int");
                    }
                    AggKind::Histogram { field, interval_q, offset_q, hard, ext, min_doc_count, .. } => {
                        bucket_fields.push(*field);
                        let (i, o) = (q_interval(*interval_q), q_offset(*interval_q, *offset_q));
                        if matching.iter().any(|d| nums(d, *field).iter().any(|v| ((v - o) / i).fract() == 0.0)) {
                            cx.label("value_on_bucket_boundary");
                        }
                        cx.label_if(hard.is_some(), "histogram_hard_bounds");
                        cx.label_if(ext.is_some() && min_doc_count.unwrap_or(0) == 0, "histogram_extended_bounds");
                        cx.label_if(offset_q.is_some(), "histogram_offset");
                        cx.label_if(q_fractional(*interval_q), "histogram_non_dyadic_interval");
                    }
                    AggKind::DateHistogram { .. } => bucket_fields.push(Fld::D),
                    AggKind::Terms { field, size, segment_size, order, min_doc_count, missing, .. } => {
                        bucket_fields.push(*field);
                        cx.label_if(matches!(eff_order(order, *field, &n.subs, depth), EffOrder::Sub { .. }), "terms_order_sub_agg");
                        cx.label_if(min_doc_count.unwrap_or(1) > 1, "terms_min_doc_count>1");
                        cx.label_if(*min_doc_count == Some(0), "terms_min_doc_count=0");
                        cx.label_if(missing.is_some(), "terms_missing");
                        cx.label_if(matches!(missing, Some(TMissing::Na)) && !field.is_str(), "terms_string_missing_on_non_string_column");
                        let exact = eff_segment_size(*size, *segment_size) >= card[field] + missing.is_some() as usize;
                        cx.label_if(!exact, "terms_segment_cut(inexact)");
                        let full = |f: Fld| !model.is_empty() && model.iter().all(|d| vals(d, f).len() == 1);
                        if depth == 0 && full(*field) && n.subs.len() == 1 {
                            let sub_full = match &n.subs[0].kind {
                                AggKind::Histogram { field: hf, .. } => full(*hf),
                                AggKind::DateHistogram { .. } => full(Fld::D),
                                _ => false,
                            };
                            cx.label_if(sub_full && n.subs[0].subs.is_empty(), "fused_terms_x_histogram_shape");
                        }
                    }
                    AggKind::Composite { page2, .. } => {
                        cx.label_if(*page2 && !after_json.is_empty(), "composite_page2");
                    }
                    AggKind::Metric(m) => {
                        cx.label_if(m.missing.is_some(), "metric_missing_param");
                    }
                    AggKind::Filter { .. } => {}
                }
            });
            cx.label_if(maxdepth >= 2, "depth3");
            cx.label_if(has_bucket_with_sub, "bucket_with_sub");
            cx.label_if(!matches!(r.q, Q::All), "query_filtered");
            cx.label_if(matching.is_empty(), "no_matching_docs");
            cx.label_if(r.shape == 2 && parts.len() >= 3, "merge_shape_tree");
            cx.label_if(matching.iter().any(|d| d.n.iter().any(|x| *x < 0) || d.f.iter().any(|x| *x < 0.0)), "negative_values");
            let multi = bucket_fields.iter().any(|f| matching.iter().any(|d| vals(d, *f).len() >= 2));
            let missing_vals = bucket_fields.iter().any(|f| matching.iter().any(|d| vals(d, *f).is_empty()));
            cx.label_if(multi, "multi_valued_in_bucket_field");
            cx.label_if(missing_vals, "missing_in_bucket_field");
            cx.label_if(dups > 0, "multivalued_doc_twice_in_one_bucket");
            if has_bucket_with_sub && (multi || missing_vals) && !bucket_fields.is_empty() {
                // do two segments differ in the set of values of the (first) bucket field?
                let f = bucket_fields[0];
                let sets: BTreeSet<Vec<String>> = seg_bounds
                    .iter()
                    .map(|(s, e)| {
                        let set: BTreeSet<String> =
                            model[*s..*e].iter().filter(|d| !d.del && q_matches(&r.q, d, ndocs)).flat_map(|d| vals(d, f)).map(|v| format!("{v:?}")).collect();
                        set.into_iter().collect::<Vec<_>>()
                    })
                    .filter(|v| !v.is_empty())
                    .collect();
                if sets.len() >= 2 {
                    cx.nontrivial(mix(corpus_fp, fp(r)));
                    cx.label("nontrivial");
                }
            }
            if ri == 0 {
                cx.sample(|| json!({"docs": ndocs, "segments_at": cuts, "indexes_at": split, "query": format!("{:?}", r.q), "request": req_json, "result": res_b}));
            }
            Ok(())
            }));
            let outcome = match outcome {
                Ok(o) => o,
                Err(payload) => {
                    // a panic inside tantivy: only the ones that belong to a (candidate) known finding get their own
                    // signature here, everything else is re-raised and reported by the engine as `panic:<file>`
                    let msg = payload.downcast_ref::<String>().cloned().or_else(|| payload.downcast_ref::<&str>().map(|s| s.to_string())).unwrap_or_default();
                    let sig = if msg.contains("fetch_block requires docs sorted ascending without duplicates") && DUPS_WITH_SUBS.with(|c| c.get()) > 0 {
                        Some(SIG_MULTI)
                    } else if msg.contains("fetch_block requires docs sorted ascending without duplicates") && has_terms_numeric_missing_with_subs(&aggs_in) {
                        Some(SIG_TERMS_MISSING_UNSORTED)
                    } else if msg.contains("attempt to subtract with overflow") && any_node(&aggs_in, &|n| matches!(n.kind, AggKind::Composite { .. })) {
                        Some(SIG_COMPOSITE_MEM)
                    } else if msg.contains("index out of bounds") && has_nested_composite(&aggs_in) {
                        Some(SIG_COMPOSITE_NESTED)
                    } else if msg.contains("out of range for slice") && has_tophits_from(&aggs_in) {
                        Some(SIG_TOPHITS_FROM)
                    } else if r.rt != 0 && has_tophits_without_fields(&aggs_in) {
                        Some(SIG_TOPHITS_POSTCARD)
                    } else {
                        None
                    };
                    match sig {
                        Some(s) => Err(Failure::new(s, format!("panic: {msg}"))),
                        None => std::panic::resume_unwind(payload),
                    }
                }
            };
            if let Err(f) = outcome {
                let f = classify(f, &aggs_in, r.rt != 0, neg_dates);
                if modern_dates && f.sig.starts_with("ref:") && f.sig.ends_with("date_histogram") {
                    return Err(Failure::new(SIG_DATE_F64, format!("[{}] {}", f.sig, f.detail)));
                }
                return Err(f);
            }
        }
        Ok(())
    }
}

thread_local! {
    static DUPS_WITH_SUBS: std::cell::Cell<u64> = const { std::cell::Cell::new(0) };
}

/// Is there a range / histogram node with sub-aggregations (anywhere in the tree) and a matching document with two
/// values in one of its buckets? tantivy collects sub-aggregations also for buckets that are cut away later
/// (composite pages, terms `size`, min_doc_count), so this does not depend on which buckets end up in the result.
fn dup_with_subs_anywhere(aggs: &[AggNode], docs: &[&DocM], c: &Corpus) -> bool {
    any_node(aggs, &|n| {
        if n.subs.is_empty() {
            return false;
        }
        match &n.kind {
            AggKind::Range { field, cuts, half, .. } => {
                let cs = range_cuts(c, *field, cuts, *half);
                let bucket = |v: f64| cs.iter().filter(|x| v >= **x).count();
                docs.iter().any(|d| {
                    let b: Vec<usize> = nums(d, *field).iter().map(|v| bucket(*v)).collect();
                    (1..b.len()).any(|i| b[..i].contains(&b[i]))
                })
            }
            AggKind::Histogram { field, interval_q, offset_q, hard, ext, min_doc_count, .. } => {
                let (i, o) = (q_interval(*interval_q), q_offset(*interval_q, *offset_q));
                let (hard_b, _) = hist_bounds(&|x| bound_val(c, *field, x), *hard, *ext, *min_doc_count);
                docs.iter().any(|d| {
                    let b: Vec<i64> = nums(d, *field).iter().filter(|v| hard_b.map_or(true, |h| **v >= h.0 && **v <= h.1)).map(|v| ((v - o) / i).floor() as i64).collect();
                    (1..b.len()).any(|i| b[..i].contains(&b[i]))
                })
            }
            _ => false,
        }
    })
}

/// `cx.known_open`, or — for debugging a replay under the same exclusions as a generated run — everything
/// counts as open when TVV_C14_ASSUME_OPEN is set
fn is_open(cx: &Ctx, sig: &str) -> bool {
    static ASSUME: std::sync::OnceLock<bool> = std::sync::OnceLock::new();
    cx.known_open(sig) || *ASSUME.get_or_init(|| std::env::var("TVV_C14_ASSUME_OPEN").is_ok())
}

fn any_node(nodes: &[AggNode], pred: &dyn Fn(&AggNode) -> bool) -> bool {
    nodes.iter().any(|n| pred(n) || any_node(&n.subs, pred))
}
fn for_nodes_mut(nodes: &mut [AggNode], f: &mut dyn FnMut(&mut AggNode)) {
    for n in nodes.iter_mut() {
        f(n);
        for_nodes_mut(&mut n.subs, f);
    }
}
fn src_skips_all(s: &Src) -> bool {
    match s {
        // without `after` the source is initialised as if the after key were an explicit null: with missing_order
        // = last every value then counts as "before the after key"
        Src::Histogram { missing_order, .. } | Src::DateHistogram { missing_order, .. } => *missing_order % 3 == 2,
        _ => false,
    }
}
fn has_tophits_from(nodes: &[AggNode]) -> bool {
    any_node(nodes, &|n| matches!(&n.kind, AggKind::Metric(MetricSpec { kind: MetricKind::TopHits { from: Some(f), .. }, .. }) if *f > 0))
}
fn has_tophits_without_fields(nodes: &[AggNode]) -> bool {
    any_node(nodes, &|n| matches!(&n.kind, AggKind::Metric(MetricSpec { kind: MetricKind::TopHits { fields: false, .. }, .. })))
}
fn has_composite_skip_all(nodes: &[AggNode]) -> bool {
    any_node(nodes, &|n| matches!(&n.kind, AggKind::Composite { sources, .. } if sources.iter().any(src_skips_all)))
}
fn has_composite_date(nodes: &[AggNode]) -> bool {
    any_node(nodes, &|n| matches!(&n.kind, AggKind::Composite { sources, .. } if sources.iter().any(|s| matches!(s, Src::DateHistogram { .. }))))
}
fn has_range_half(nodes: &[AggNode]) -> bool {
    any_node(nodes, &|n| matches!(&n.kind, AggKind::Range { field, half: true, .. } if field.is_int()))
}
fn is_f64_key_order(n: &AggNode, depth_unknown: usize) -> bool {
    match &n.kind {
        AggKind::Terms { field: f @ (Fld::F | Fld::G), order, .. } => {
            // the fallback of an unusable sub-aggregation order is key order, whatever the depth
            matches!(eff_order(order, *f, &n.subs, depth_unknown), EffOrder::Key { .. })
        }
        _ => false,
    }
}
fn has_f64_key_order(nodes: &[AggNode]) -> bool {
    any_node(nodes, &|n| is_f64_key_order(n, 0))
}
fn is_terms_numeric_missing_with_subs(n: &AggNode) -> bool {
    matches!(&n.kind, AggKind::Terms { field, missing: Some(TMissing::Own(x)), .. } if field.is_num() && *x < 1000) && !n.subs.is_empty()
}
fn has_terms_numeric_missing_with_subs(nodes: &[AggNode]) -> bool {
    any_node(nodes, &is_terms_numeric_missing_with_subs)
}
fn src_after_null_bug(s: &Src) -> bool {
    matches!(s, Src::Histogram { desc: true, missing_bucket: true, missing_order, .. } | Src::DateHistogram { desc: true, missing_bucket: true, missing_order, .. } if *missing_order % 3 == 0)
}
fn has_composite_after_null_shape(nodes: &[AggNode]) -> bool {
    nodes.iter().any(|n| matches!(&n.kind, AggKind::Composite { sources, page2: true, .. } if sources.iter().any(src_after_null_bug)))
}
/// a composite below a terms aggregation with min_doc_count = 0 (whose zero-count buckets carry empty placeholders)
fn has_composite_below_mdc0_terms(nodes: &[AggNode]) -> bool {
    any_node(nodes, &|n| matches!(&n.kind, AggKind::Terms { min_doc_count: Some(0), .. }) && any_node(&n.subs, &|m| matches!(m.kind, AggKind::Composite { .. })))
}
fn has_nested_composite(nodes: &[AggNode]) -> bool {
    nodes.iter().any(|n| any_node(&n.subs, &|m| matches!(m.kind, AggKind::Composite { .. })))
}
fn has_date_histogram(nodes: &[AggNode]) -> bool {
    any_node(nodes, &|n| matches!(&n.kind, AggKind::DateHistogram { .. }))
}
fn has_terms_missing_own_str(nodes: &[AggNode]) -> bool {
    any_node(nodes, &|n| matches!(&n.kind, AggKind::Terms { field, missing: Some(TMissing::Own(_)), .. } if field.is_str()))
}

/// While a known finding is open its trigger is removed from the request by construction (and counted).
fn sanitize(aggs: &mut [AggNode], cx: &Ctx, roundtrips: bool, neg_dates: bool, c: &Corpus) {
    // not finding related: the relative order of a string `missing` key and numeric keys is not documented
    for_nodes_mut(aggs, &mut |n| {
        let subs = n.subs.clone();
        if let AggKind::Terms { field, missing: Some(m), order, .. } = &mut n.kind {
            let stringy = matches!(m, TMissing::Na) || matches!(field, Fld::Ip | Fld::D);
            if !field.is_str() && stringy && matches!(eff_order(order, *field, &subs, 0), EffOrder::Key { .. }) {
                *order = TOrder::CountDesc;
            }
        }
    });
    if is_open(cx, SIG_COMPOSITE_EMPTY_MERGE) && has_composite_below_mdc0_terms(aggs) {
        for_nodes_mut(aggs, &mut |n| {
            if matches!(&n.kind, AggKind::Terms { min_doc_count: Some(0), .. }) {
                for_nodes_mut(&mut n.subs, &mut |m| {
                    if matches!(m.kind, AggKind::Composite { .. }) {
                        m.kind = AggKind::Filter { q: Q::All };
                    }
                });
            }
        });
        cx.excluded("composite_below_terms_with_min_doc_count_0(replaced by a match-all filter)", 1);
    }
    if is_open(cx, SIG_COMPOSITE_NESTED) && has_nested_composite(aggs) {
        // replace nested composites by a filter over all documents (keeps the sub-tree)
        for n in aggs.iter_mut() {
            for_nodes_mut(&mut n.subs, &mut |m| {
                if matches!(m.kind, AggKind::Composite { .. }) {
                    m.kind = AggKind::Filter { q: Q::All };
                }
            });
        }
        cx.excluded("composite_below_another_bucket_aggregation(replaced by a match-all filter)", 1);
    }
    if is_open(cx, SIG_TERMS_MISSING_UNSORTED) && has_terms_numeric_missing_with_subs(aggs) {
        for_nodes_mut(aggs, &mut |n| {
            if is_terms_numeric_missing_with_subs(n) {
                if let AggKind::Terms { missing: Some(TMissing::Own(x)), .. } = &mut n.kind {
                    // a key outside the value range of every numeric field
                    *x = 1000 + x.rem_euclid(100);
                }
            }
        });
        cx.excluded("terms_numeric_missing_possibly_equal_to_existing_key_with_sub_aggregation(missing key moved out of the value range)", 1);
    }
    let _ = c;
    if is_open(cx, SIG_TOPHITS_FROM) && has_tophits_from(aggs) {
        for_nodes_mut(aggs, &mut |n| {
            if let AggKind::Metric(MetricSpec { kind: MetricKind::TopHits { from, .. }, .. }) = &mut n.kind {
                *from = None;
            }
        });
        cx.excluded("top_hits_from(removed)", 1);
    }
    if is_open(cx, SIG_TOPHITS_POSTCARD) && roundtrips && has_tophits_without_fields(aggs) {
        for_nodes_mut(aggs, &mut |n| {
            if let AggKind::Metric(MetricSpec { kind: MetricKind::TopHits { fields, .. }, .. }) = &mut n.kind {
                *fields = true;
            }
        });
        cx.excluded("top_hits_without_docvalue_fields_through_postcard(docvalue_fields added)", 1);
    }
    if is_open(cx, SIG_COMPOSITE_MISSING_ORDER) && has_composite_skip_all(aggs) {
        for_nodes_mut(aggs, &mut |n| {
            if let AggKind::Composite { sources, .. } = &mut n.kind {
                for s in sources.iter_mut() {
                    if src_skips_all(s) {
                        if let Src::Histogram { missing_order, .. } | Src::DateHistogram { missing_order, .. } = s {
                            *missing_order = 0;
                        }
                    }
                }
            }
        });
        cx.excluded("composite_histogram_source_missing_order_last(set to default)", 1);
    }
    if is_open(cx, SIG_COMPOSITE_DATE_NEG) && neg_dates && has_composite_date(aggs) {
        for_nodes_mut(aggs, &mut |n| {
            if let AggKind::Composite { sources, .. } = &mut n.kind {
                for s in sources.iter_mut() {
                    if let Src::DateHistogram { desc, missing_bucket, missing_order, .. } = s {
                        *s = Src::Terms { field: Fld::Cat, desc: *desc, missing_bucket: *missing_bucket, missing_order: *missing_order };
                    }
                }
            }
        });
        cx.excluded("composite_date_histogram_source_over_negative_timestamps(replaced by terms source)", 1);
    }
    if is_open(cx, SIG_RANGE_FRACTIONAL) && has_range_half(aggs) {
        for_nodes_mut(aggs, &mut |n| {
            if let AggKind::Range { half, .. } = &mut n.kind {
                *half = false;
            }
        });
        cx.excluded("range_fractional_bound_on_integer_column(bounds made integral)", 1);
    }
    if is_open(cx, SIG_KEY_ORDER_F64) && has_f64_key_order(aggs) {
        for_nodes_mut(aggs, &mut |n| {
            if is_f64_key_order(n, 0) {
                if let AggKind::Terms { order, .. } = &mut n.kind {
                    *order = TOrder::CountDesc;
                }
            }
        });
        cx.excluded("terms_key_order_on_f64_column(count order instead)", 1);
    }
    if is_open(cx, SIG_TERMS_MISSING_BOUND) && has_terms_missing_own_str(aggs) {
        // known finding: keep the request but take the segment cut away (the exact regime is still checked)
        let mut changed = false;
        for_nodes_mut(aggs, &mut |n| {
            if let AggKind::Terms { field, missing, size, segment_size, .. } = &mut n.kind {
                if field.is_str() && matches!(missing, Some(TMissing::Own(_))) && eff_segment_size(*size, *segment_size) < 1000 {
                    *segment_size = Some(1000);
                    changed = true;
                }
            }
        });
        if changed {
            cx.excluded("terms_missing_equal_to_existing_term_with_segment_cut(segment_size enlarged)", 1);
        }
    }
    if is_open(cx, SIG_TERMS_MISSING_EXISTING) && has_terms_missing_own_str(aggs) {
        for_nodes_mut(aggs, &mut |n| {
            if let AggKind::Terms { field, missing, .. } = &mut n.kind {
                if field.is_str() && matches!(missing, Some(TMissing::Own(_))) {
                    *missing = Some(TMissing::Na);
                }
            }
        });
        cx.excluded("terms_missing_key_that_may_equal_an_existing_term(replaced by a fresh key)", 1);
    }
    if is_open(cx, SIG_COMPOSITE_AFTER_NULL) && has_composite_after_null_shape(aggs) {
        for n in aggs.iter_mut() {
            if let AggKind::Composite { sources, page2, .. } = &mut n.kind {
                if sources.iter().any(src_after_null_bug) {
                    *page2 = false;
                }
            }
        }
        cx.excluded("composite_page2_with_desc_histogram_source_and_default_missing_order(first page only)", 1);
    }
}

/// Gives failures caused by the trigger of a (candidate) known finding that finding's own signature.
fn classify(f: Failure, aggs: &[AggNode], roundtrips: bool, neg_dates: bool) -> Failure {
    let sig = f.sig.clone();
    let own = [SIG_TERMS_MISSING_BOUND, SIG_TIES, SIG_MULTI, SIG_TOPHITS_FROM, SIG_TOPHITS_POSTCARD, SIG_COMPOSITE_MISSING_ORDER, SIG_COMPOSITE_DATE_NEG, SIG_TERMS_MISSING_EXISTING, SIG_RANGE_FRACTIONAL, SIG_KEY_ORDER_F64, SIG_DATE_F64, SIG_TERMS_MISSING_UNSORTED, SIG_COMPOSITE_NESTED, SIG_COMPOSITE_MEM, SIG_COMPOSITE_AFTER_NULL, SIG_COMPOSITE_EMPTY_MERGE];
    let new = if own.contains(&sig.as_str()) || sig.starts_with("INFRA:") {
        None
    } else if (sig.starts_with("ref:") || sig.starts_with("seg:") || sig.starts_with("dist:")) && sig.ends_with("composite") && has_composite_below_mdc0_terms(aggs) && f.detail.contains("number of composite buckets") {
        Some(SIG_COMPOSITE_EMPTY_MERGE)
    } else if roundtrips
        && has_tophits_without_fields(aggs)
        && (sig.starts_with("postcard:") || sig.starts_with("dist:") || sig.starts_with("unexpected_error:merge_fruits") || sig.starts_with("unexpected_error:into_final_result") || sig.starts_with("ref:"))
    {
        Some(SIG_TOPHITS_POSTCARD)
    } else if sig.starts_with("ref:") && sig.ends_with("composite") && has_composite_after_null_shape(aggs) && f.detail.contains("null:") {
        Some(SIG_COMPOSITE_AFTER_NULL)
    } else if sig.starts_with("ref:") && sig.ends_with("composite") && has_composite_skip_all(aggs) {
        Some(SIG_COMPOSITE_MISSING_ORDER)
    } else if sig.starts_with("ref:") && sig.contains("composite") && neg_dates && has_composite_date(aggs) {
        Some(SIG_COMPOSITE_DATE_NEG)
    } else if sig.starts_with("ref:") && sig.ends_with("range") && has_range_half(aggs) {
        Some(SIG_RANGE_FRACTIONAL)
    } else if sig.starts_with("ref:") && sig.ends_with("terms") && has_f64_key_order(aggs) && f.detail.contains("not in the requested order Key") {
        Some(SIG_KEY_ORDER_F64)
    } else if sig.starts_with("ref:bound") && sig.contains("terms") && has_terms_missing_own_str(aggs) {
        Some(SIG_TERMS_MISSING_BOUND)
    } else if sig.starts_with("ref:") && sig.contains("terms") && has_terms_missing_own_str(aggs) && f.detail.contains("doc_count") {
        Some(SIG_TERMS_MISSING_EXISTING)
    } else {
        None
    };
    match new {
        Some(n) => Failure::new(n, format!("[{sig}] {}", f.detail)),
        None => f,
    }
}

fn roundtrip(x: IntermediateAggregationResults, kinds0: &str) -> Result<IntermediateAggregationResults, Failure> {
    let bytes = match postcard::to_allocvec(&x) {
        Ok(b) => b,
        Err(e) => fail_ret(format!("postcard:serialize_failed:{kinds0}"), format!("{e:?}"))?,
    };
    match postcard::from_bytes::<IntermediateAggregationResults>(&bytes) {
        Ok(y) => Ok(y),
        Err(e) => fail_ret(format!("postcard:deserialize_failed:{kinds0}"), format!("{e:?} ({} bytes)", bytes.len())),
    }
}
fn fail_ret<T>(sig: String, detail: String) -> Result<T, Failure> {
    Err(Failure::new(sig, detail))
}

/// merges the intermediate results: 0 = left fold, 1 = right fold, 2 = balanced tree
fn merge_plan(mut v: Vec<IntermediateAggregationResults>, shape: u8, kinds0: &str, _cx: &Ctx) -> Result<IntermediateAggregationResults, Failure> {
    let merge = |mut l: IntermediateAggregationResults, r: IntermediateAggregationResults| -> Result<IntermediateAggregationResults, Failure> {
        match l.merge_fruits(r) {
            Ok(()) => Ok(l),
            Err(e) => Err(Failure::new(format!("unexpected_error:merge_fruits:{kinds0}"), format!("{e:?}"))),
        }
    };
    if v.is_empty() {
        return Ok(IntermediateAggregationResults::default());
    }
    match shape % 3 {
        0 => {
            let mut it = v.into_iter();
            let mut acc = it.next().unwrap();
            for x in it {
                acc = merge(acc, x)?;
            }
            Ok(acc)
        }
        1 => {
            let mut acc = v.pop().unwrap();
            while let Some(x) = v.pop() {
                acc = merge(x, acc)?;
            }
            Ok(acc)
        }
        _ => {
            while v.len() > 1 {
                let mut next = vec![];
                let mut it = v.into_iter();
                while let Some(l) = it.next() {
                    match it.next() {
                        Some(r) => next.push(merge(l, r)?),
                        None => next.push(l),
                    }
                }
                v = next;
            }
            Ok(v.pop().unwrap())
        }
    }
}

// ------------------------------------------------------------------------------------------------
/// `flush_batches`: sub-aggregations below a high-cardinality terms aggregation in a segment with several collection
/// batches (> 2048 matching documents), the later batches touching only buckets that were created first: T terms in
/// round robin, then a long tail of documents of the first term only.  Direct oracle: per term the document count, the
/// best hit of `top_hits` (largest value) and the median of `percentiles` (DDSketch: within 2 %).
#[derive(Clone, Debug, Serialize, Deserialize)]
pub struct FlushCase {
    pub terms: u16,
    pub rounds: u8,
    pub tail: u16,
}
pub struct FlushBatches;
impl Sub for FlushBatches {
    type Case = FlushCase;
    fn name(&self) -> &'static str {
        "flush_batches"
    }
    fn cases(&self, tier: Tier) -> u32 {
        tier.pick(24, 300)
    }
    fn shards(&self, _t: Tier) -> usize {
        8
    }
    fn strategy(&self, _tier: Tier) -> BoxedStrategy<FlushCase> {
        (prop_oneof![1 => 3u16..20, 3 => 110u16..320], 2u8..12, prop_oneof![1 => 0u16..100, 3 => 2100u16..3200]).prop_map(|(terms, rounds, tail)| FlushCase { terms, rounds, tail }).boxed()
    }
    fn mandatory_labels(&self, _t: Tier) -> Vec<&'static str> {
        vec!["terms>=100", "docs>2048", "tail_after_all_terms_were_seen"]
    }
    fn run(&self, c: &FlushCase, cx: &Ctx) -> CaseResult {
        let mut sb = Schema::builder();
        let fs = sb.add_text_field("s", STRING | FAST);
        let fv = sb.add_u64_field("v", FAST);
        let fu = sb.add_u64_field("uid", FAST);
        let index = Index::create_in_ram(sb.build());
        let mut w: tantivy::IndexWriter = crate::util::writer(&index, Default::default()).or_fail("INFRA:writer")?;
        w.set_merge_policy(Box::new(tantivy::merge_policy::NoMergePolicy));
        let t = c.terms as u64;
        let mut per_term: BTreeMap<String, Vec<u64>> = BTreeMap::new();
        let mut uid = 0u64;
        let mut add = |w: &mut tantivy::IndexWriter, term: u64, v: u64, per_term: &mut BTreeMap<String, Vec<u64>>| -> CaseResult {
            let key = format!("t{term:04}");
            w.add_document(tantivy::doc!(fs => key.clone(), fv => v, fu => uid)).or_fail("INFRA:add")?;
            per_term.entry(key).or_default().push(v);
            uid += 1;
            Ok(())
        };
        for r in 0..c.rounds as u64 {
            for k in 0..t {
                add(&mut w, k, 10 * (k + 1) + r % 3, &mut per_term)?;
            }
        }
        for _ in 0..c.tail {
            add(&mut w, 0, 5, &mut per_term)?;
        }
        w.commit().or_fail("INFRA:commit")?;
        let n_docs = c.rounds as u64 * t + c.tail as u64;
        let reader = index.reader().or_fail("reader_open_failed")?;
        let searcher = reader.searcher();
        if searcher.segment_readers().len() != 1 {
            return Ok(());
        }
        let req: tantivy::aggregation::agg_req::Aggregations = serde_json::from_value(json!({
            "by_term": {"terms": {"field": "s", "size": 1000, "order": {"_key": "asc"}},
                "aggs": {"best": {"top_hits": {"size": 1, "sort": [{"v": "desc"}], "docvalue_fields": ["v"]}},
                         "med": {"percentiles": {"field": "v", "percents": [50.0]}}}}
        }))
        .or_fail("INFRA:agg_req")?;
        let coll = AggregationCollector::from_aggs(req, AggContextParams::new(Default::default(), index.tokenizers().clone()));
        let res = searcher.search(&tantivy::query::AllQuery, &coll).or_fail("aggregation_failed")?;
        let res: Value = serde_json::to_value(&res).or_fail("INFRA:to_value")?;
        let buckets = res["by_term"]["buckets"].as_array().cloned().unwrap_or_default();
        ensure!(buckets.len() == per_term.len(), "flush_batches:bucket_count", "{} buckets, {} terms", buckets.len(), per_term.len());
        for b in &buckets {
            let key = b["key"].as_str().unwrap_or("").to_string();
            let vals = per_term.get(&key).ok_or_else(|| Failure::new("flush_batches:unknown_bucket", key.clone()))?;
            ensure!(b["doc_count"].as_u64() == Some(vals.len() as u64), "flush_batches:doc_count", "term {key}: {} vs {}", b["doc_count"], vals.len());
            let best = *vals.iter().max().unwrap();
            let got = b["best"]["hits"].get(0).and_then(|h| h["sort"].get(0)).and_then(|x| x.as_u64());
            ensure!(got == Some(best), "flush_batches:top_hits_lost", "term {key} ({} documents): top_hits returns {} (hits {}), the largest value is {best}; {n_docs} documents in one segment", vals.len(), b["best"]["hits"].get(0).map(|h| h["sort"].to_string()).unwrap_or("nothing".into()), b["best"]["hits"].as_array().map(|a| a.len()).unwrap_or(0));
            let mut sorted = vals.clone();
            sorted.sort();
            let med = sorted[(sorted.len() - 1) / 2] as f64;
            let med_hi = sorted[sorted.len() / 2] as f64;
            let gotm = b["med"]["values"]["50.0"].as_f64();
            let ok = gotm.map(|g| g >= med * 0.98 - 1e-9 && g <= med_hi * 1.02 + 1e-9).unwrap_or(false);
            ensure!(ok, "flush_batches:percentiles_lost", "term {key} ({} documents): median {gotm:?}, expected about {med}..{med_hi}", vals.len());
        }
        cx.evals(buckets.len() as u64);
        cx.label_if(c.terms >= 100, "terms>=100");
        cx.label_if(n_docs > 2048, "docs>2048");
        cx.label_if(c.terms >= 100 && c.tail > 2048, "tail_after_all_terms_were_seen");
        if c.terms >= 100 && n_docs > 2048 {
            cx.nontrivial(fp(c));
        }
        cx.sample(|| json!({"sub": "flush_batches", "terms": c.terms, "rounds": c.rounds, "tail": c.tail}));
        Ok(())
    }
}
