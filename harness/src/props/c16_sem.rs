//! C16 — grammar semantics: abstract queries from the documented, unambiguous grammar subset are printed with
//! meaning-preserving variation, parsed by `QueryParser::parse_query` and executed; the matching documents are
//! compared with a naive evaluation of the abstract query over the document model.
use std::collections::{BTreeMap, BTreeSet};
use std::net::{IpAddr, Ipv6Addr};
use std::str::FromStr;

use proptest::prelude::*;
use serde::{Deserialize, Serialize};
use serde_json::json;
use tantivy::collector::{Count, DocSetCollector};
use tantivy::query::{QueryParser, QueryParserError};
use tantivy::schema::*;
use tantivy::{DateTime, Index, IndexWriter, TantivyDocument};

use crate::engine::*;
use crate::{ensure, fail};

// ------------------------------------------------------------------------------------------------
// value pools

pub const VOCAB: &[&str] = &["aa", "ab", "abc", "b", "ba", "c7", "7", "42", "x", "xy", "xyz", "foo", "bar", "and", "or", "not", "in", "to"];
pub const PREFIXES: &[&str] = &["a", "ab", "x", "xy", "b", "fo", "7", "c", "zz"];
pub const JSON_KEYS: &[&str] = &["color", "n", "f", "ok", "when", "a.b", "k8s.node"];

/// fields with a typed value pool
#[derive(Clone, Copy, Debug, PartialEq, Eq, Hash, PartialOrd, Ord, Serialize, Deserialize)]
pub enum Fld {
    Title,
    Body,
    Tag,
    Lang,
    U64,
    I64,
    F64,
    Flag,
    Ts,
    Ip,
    Bytes,
    Facet,
}
pub const TYPED: &[Fld] = &[Fld::Tag, Fld::Lang, Fld::U64, Fld::I64, Fld::F64, Fld::Flag, Fld::Ts, Fld::Ip, Fld::Bytes, Fld::Facet];
pub const RANGEABLE: &[Fld] = &[Fld::Title, Fld::Body, Fld::Tag, Fld::Lang, Fld::U64, Fld::I64, Fld::F64, Fld::Ts, Fld::Ip];
pub const SETTABLE: &[Fld] = &[Fld::Title, Fld::Body, Fld::Tag, Fld::Lang, Fld::U64, Fld::I64, Fld::F64, Fld::Flag, Fld::Ts, Fld::Ip, Fld::Bytes, Fld::Facet];
pub const ALL_FIELDS: &[Fld] = &[Fld::Title, Fld::Body, Fld::Tag, Fld::Lang, Fld::U64, Fld::I64, Fld::F64, Fld::Flag, Fld::Ts, Fld::Ip, Fld::Bytes, Fld::Facet];

impl Fld {
    pub fn name(self) -> &'static str {
        match self {
            Fld::Title => "title",
            Fld::Body => "body",
            Fld::Tag => "tag",
            Fld::Lang => "meta.lang",
            Fld::U64 => "n_u64",
            Fld::I64 => "n_i64",
            Fld::F64 => "n_f64",
            Fld::Flag => "flag",
            Fld::Ts => "ts",
            Fld::Ip => "ip",
            Fld::Bytes => "bytes",
            Fld::Facet => "facet",
        }
    }
    pub fn is_text(self) -> bool {
        matches!(self, Fld::Title | Fld::Body)
    }
}

/// order / equality key of a pool value (independent of tantivy's term encodings)
#[derive(Clone, Debug, PartialEq, PartialOrd)]
pub enum Key {
    Str(Vec<u8>),
    Int(i128),
    F(f64),
}
#[derive(Clone, Debug)]
pub struct PoolVal {
    /// spellings of the same value; [0] is canonical
    pub texts: Vec<String>,
    pub key: Key,
}
fn pv(texts: &[&str], key: Key) -> PoolVal {
    PoolVal { texts: texts.iter().map(|s| s.to_string()).collect(), key }
}
pub const TAGS: &[&str] = &["red", "Blue", "x y", "a:b", "c-d", "-neg", "it's", "q\"t", "(p)", "b\\s", "st*r", "AND", "*"];
pub const LANGS: &[&str] = &["en", "fr", "de"];
pub const U64S: &[u64] = &[0, 1, 2, 3, 5, 7, 10, 42, 100, 1 << 63, u64::MAX];
pub const I64S: &[i64] = &[i64::MIN, -100, -5, -1, 0, 1, 3, 5, 42, i64::MAX];
/// halves
pub const F64S: &[i32] = &[-3, -1, 0, 1, 3, 4, 5, 15];
/// (seconds since epoch, spellings)
pub const DATES: &[(i64, &[&str])] = &[
    (0, &["1970-01-01T00:00:00Z", "1970-01-01T01:00:00+01:00"]),
    (1033563600, &["2002-10-02T13:00:00Z", "2002-10-02T15:00:00+02:00", "2002-10-02T13:00:00.000Z"]),
    (1033570800, &["2002-10-02T15:00:00Z", "2002-10-02T17:00:00+02:00", "2002-10-02T08:00:00-07:00"]),
    (1033574400, &["2002-10-02T16:00:00Z", "2002-10-02T16:00:00+00:00"]),
    (1033581600, &["2002-10-02T18:00:00Z", "2002-10-02T18:00:00.00Z"]),
    (4102444800, &["2100-01-01T00:00:00Z", "2099-12-31T23:00:00-01:00"]),
];
pub const IPS: &[&[&str]] = &[
    &["10.0.0.255", "::ffff:10.0.0.255"],
    &["127.0.0.1", "::ffff:127.0.0.1"],
    &["192.168.0.1", "::ffff:192.168.0.1", "::ffff:c0a8:1"],
    &["::1", "0:0:0:0:0:0:0:1"],
    &["2001:db8::1", "2001:0db8:0000:0000:0000:0000:0000:0001"],
];
pub const BYTESS: &[(&[u8], &str)] = &[(b"", ""), (b"a", "YQ=="), (b"ab", "YWI="), (b"abc", "YWJj"), (b"\xff\xfe", "//4="), (b"bubu", "YnVidQ==")];
pub const FACETS: &[&str] = &["/a", "/a/b", "/a/b/c", "/x", "/x/y"];

fn ip_key(s: &str) -> i128 {
    let v6: Ipv6Addr = match IpAddr::from_str(s).unwrap() {
        IpAddr::V4(a) => a.to_ipv6_mapped(),
        IpAddr::V6(a) => a,
    };
    // u128 -> i128 keeping order (all pool values are below 2^127)
    u128::from(v6) as i128
}
pub fn pool(f: Fld) -> Vec<PoolVal> {
    match f {
        Fld::Title | Fld::Body => VOCAB
            .iter()
            .map(|w| {
                let mut cap = w.to_string();
                cap[..1].make_ascii_uppercase();
                let up = w.to_ascii_uppercase();
                let mut texts = vec![w.to_string(), cap];
                if !["AND", "OR", "NOT", "IN", "TO"].contains(&up.as_str()) {
                    texts.push(up);
                }
                PoolVal { texts, key: Key::Str(str::as_bytes(w).to_vec()) }
            })
            .collect(),
        Fld::Tag => TAGS.iter().map(|t| pv(&[t], Key::Str(str::as_bytes(t).to_vec()))).collect(),
        Fld::Lang => LANGS.iter().map(|t| pv(&[t], Key::Str(str::as_bytes(t).to_vec()))).collect(),
        Fld::U64 => U64S.iter().map(|v| pv(&[&v.to_string()], Key::Int(*v as i128))).collect(),
        Fld::I64 => I64S.iter().map(|v| pv(&[&v.to_string()], Key::Int(*v as i128))).collect(),
        Fld::F64 => F64S
            .iter()
            .map(|h| {
                let v = *h as f64 / 2.0;
                let mut texts = vec![format!("{v}")];
                texts.push(format!("{v:.2}"));
                PoolVal { texts, key: Key::F(v) }
            })
            .collect(),
        Fld::Flag => vec![pv(&["false"], Key::Int(0)), pv(&["true"], Key::Int(1))],
        Fld::Ts => DATES.iter().map(|(s, t)| pv(t, Key::Int(*s as i128))).collect(),
        Fld::Ip => IPS.iter().map(|t| pv(t, Key::Int(ip_key(t[0])))).collect(),
        Fld::Bytes => BYTESS.iter().map(|(b, t)| pv(&[t], Key::Str(b.to_vec()))).collect(),
        Fld::Facet => FACETS.iter().map(|t| pv(&[t], Key::Str(str::as_bytes(t).to_vec()))).collect(),
    }
}
pub struct Pools(BTreeMap<Fld, Vec<PoolVal>>);
impl Pools {
    pub fn get(&self, f: Fld) -> &[PoolVal] {
        &self.0[&f]
    }
}
pub fn pools() -> &'static Pools {
    static P: std::sync::OnceLock<Pools> = std::sync::OnceLock::new();
    P.get_or_init(|| Pools(ALL_FIELDS.iter().map(|f| (*f, pool(*f))).collect()))
}

// ------------------------------------------------------------------------------------------------
// documents

#[derive(Clone, Debug, Serialize, Deserialize, PartialEq)]
pub enum JV {
    Words(Vec<u8>),
    Int(i64),
    /// odd number of halves (never an integer)
    Half(i16),
    Bool(bool),
    Date(u8),
}
#[derive(Clone, Debug, Serialize, Deserialize)]
pub struct DocSpec {
    pub title: Vec<u8>,
    pub body: Vec<u8>,
    /// raw indices (engine::idx) into the pools of TYPED, None = no value
    pub typed: Vec<Option<u16>>,
    /// (raw key index, value)
    pub attrs: Vec<(u16, JV)>,
}
impl DocSpec {
    pub fn typed_idx(&self, f: Fld) -> Option<usize> {
        let pos = TYPED.iter().position(|x| *x == f)?;
        let raw = (*self.typed.get(pos)?)?;
        Some(idx(raw, pools().get(f).len()))
    }
    pub fn words(&self, f: Fld) -> &[u8] {
        match f {
            Fld::Title => &self.title,
            _ => &self.body,
        }
    }
    pub fn json(&self) -> Vec<(usize, &JV)> {
        // one value per key: the first occurrence wins
        let mut seen = BTreeSet::new();
        let mut out = vec![];
        for (k, v) in &self.attrs {
            let k = idx(*k, JSON_KEYS.len());
            if seen.insert(k) {
                out.push((k, v));
            }
        }
        out
    }
}
/// word index of a 41-letter word: the default tokenizer removes it (RemoveLongFilter, limit 40) from documents and from
/// quoted phrases alike, but the position it occupied stays - `"aa qqq…q b"` needs `b` two positions after `aa`
pub const LONG: u8 = 255;
pub const LONG_WORD: &str = "qqqqqqqqqqqqqqqqqqqqqqqqqqqqqqqqqqqqqqqqq";
fn word(i: u8) -> &'static str {
    if i == LONG {
        return LONG_WORD;
    }
    VOCAB[i as usize % VOCAB.len()]
}
fn words_text(ws: &[u8]) -> String {
    ws.iter().map(|w| word(*w)).collect::<Vec<_>>().join(" ")
}
fn half_value(h: i16) -> f64 {
    // force odd
    let h = if h % 2 == 0 { h + 1 } else { h };
    h as f64 / 2.0
}

pub struct Fields {
    pub uid: Field,
    pub by: BTreeMap<Fld, Field>,
    pub attrs: Field,
}
pub fn build_schema() -> (Schema, Fields) {
    let mut sb = Schema::builder();
    let uid = sb.add_u64_field("uid", FAST | INDEXED | STORED);
    let mut by = BTreeMap::new();
    by.insert(Fld::Title, sb.add_text_field("title", TEXT));
    by.insert(Fld::Body, sb.add_text_field("body", TEXT));
    by.insert(Fld::Tag, sb.add_text_field("tag", STRING));
    by.insert(Fld::Lang, sb.add_text_field("meta.lang", STRING));
    by.insert(Fld::U64, sb.add_u64_field("n_u64", INDEXED));
    by.insert(Fld::I64, sb.add_i64_field("n_i64", INDEXED | FAST));
    by.insert(Fld::F64, sb.add_f64_field("n_f64", INDEXED | FAST));
    by.insert(Fld::Flag, sb.add_bool_field("flag", INDEXED));
    by.insert(Fld::Ts, sb.add_date_field("ts", INDEXED | FAST));
    by.insert(Fld::Ip, sb.add_ip_addr_field("ip", INDEXED | FAST));
    by.insert(Fld::Bytes, sb.add_bytes_field("bytes", INDEXED));
    by.insert(Fld::Facet, sb.add_facet_field("facet", FacetOptions::default()));
    let attrs = sb.add_json_field("attrs", TEXT);
    (sb.build(), Fields { uid, by, attrs })
}

fn jv_owned(v: &JV) -> OwnedValue {
    match v {
        JV::Words(ws) => OwnedValue::Str(words_text(ws)),
        JV::Int(i) => OwnedValue::I64(*i),
        JV::Half(h) => OwnedValue::F64(half_value(*h)),
        JV::Bool(b) => OwnedValue::Bool(*b),
        JV::Date(d) => OwnedValue::Date(DateTime::from_timestamp_secs(DATES[*d as usize % DATES.len()].0)),
    }
}
pub fn to_tantivy_doc(uid: u64, d: &DocSpec, f: &Fields) -> TantivyDocument {
    let mut doc = TantivyDocument::default();
    doc.add_u64(f.uid, uid);
    if !d.title.is_empty() {
        doc.add_text(f.by[&Fld::Title], words_text(&d.title));
    }
    if !d.body.is_empty() {
        doc.add_text(f.by[&Fld::Body], words_text(&d.body));
    }
    for fld in TYPED {
        let Some(i) = d.typed_idx(*fld) else { continue };
        let field = f.by[fld];
        match fld {
            Fld::Tag => doc.add_text(field, TAGS[i]),
            Fld::Lang => doc.add_text(field, LANGS[i]),
            Fld::U64 => doc.add_u64(field, U64S[i]),
            Fld::I64 => doc.add_i64(field, I64S[i]),
            Fld::F64 => doc.add_f64(field, F64S[i] as f64 / 2.0),
            Fld::Flag => doc.add_bool(field, i == 1),
            Fld::Ts => doc.add_date(field, DateTime::from_timestamp_secs(DATES[i].0)),
            Fld::Ip => {
                let v6 = match IpAddr::from_str(IPS[i][0]).unwrap() {
                    IpAddr::V4(a) => a.to_ipv6_mapped(),
                    IpAddr::V6(a) => a,
                };
                doc.add_ip_addr(field, v6)
            }
            Fld::Bytes => doc.add_bytes(field, BYTESS[i].0),
            Fld::Facet => doc.add_facet(field, Facet::from_text(FACETS[i]).unwrap()),
            _ => {}
        }
    }
    let js = d.json();
    if !js.is_empty() {
        let mut obj: BTreeMap<String, OwnedValue> = BTreeMap::new();
        for (k, v) in js {
            let key = JSON_KEYS[k];
            if key == "a.b" {
                // nested object {"a": {"b": v}}
                obj.insert("a".to_string(), OwnedValue::Object(vec![("b".to_string(), jv_owned(v))]));
            } else {
                // "k8s.node" stays one key containing a dot (expand_dots is off)
                obj.insert(key.to_string(), jv_owned(v));
            }
        }
        doc.add_object(f.attrs, obj);
    }
    doc
}

// ------------------------------------------------------------------------------------------------
// abstract queries

#[derive(Clone, Copy, Debug, PartialEq, Eq, Serialize, Deserialize)]
pub enum Sign {
    None,
    Plus,
    Minus,
}
#[derive(Clone, Copy, Debug, PartialEq, Eq, Serialize, Deserialize)]
pub enum Bk {
    Open,
    Incl,
    Excl,
}
#[derive(Clone, Debug, PartialEq, Serialize, Deserialize)]
pub enum JLit {
    Word(u8),
    Int(i64),
    Half(i16),
    Bool(bool),
    Date(u8),
    Phrase(Vec<u8>),
}
#[derive(Clone, Debug, PartialEq, Serialize, Deserialize)]
pub enum Leaf {
    /// word on a text field (None = default fields)
    Word { field: Option<Fld>, w: u8 },
    /// quoted phrase; `prefix` = index into PREFIXES appended as last (prefix) token
    Phrase { field: Option<Fld>, ws: Vec<u8>, slop: u8, prefix: Option<u8> },
    /// typed term; v = raw index into the pool
    Typed { field: Fld, v: u16 },
    Json { key: u16, lit: JLit },
    Range { field: Fld, lo: (Bk, u16), hi: (Bk, u16), elastic: bool },
    Set { field: Fld, vals: Vec<u16> },
    All,
}
#[derive(Clone, Debug, PartialEq, Serialize, Deserialize)]
pub enum Node {
    Leaf(Leaf),
    /// `+a -b c`
    Clauses(Vec<(Sign, Node)>),
    /// OR of AND-groups: `a AND b OR c`
    Chain(Vec<Vec<Node>>),
    /// `title:( ... )`
    Group(Fld, Box<Node>),
    /// `x^boost` ; index into BOOSTS
    Boost(Box<Node>, u8),
    /// `-x` as an operand of an AND-group of a chain that also has a positive operand (`a OR -b AND c`): the group is
    /// the conjunction of its positive operands minus the documents matching x.  Only valid there (sanitize).
    Neg(Box<Node>),
}
pub const BOOSTS: &[&str] = &["2", "0.5", "1", "3.25", "10", "1.0"];

#[derive(Clone, Debug, Serialize, Deserialize)]
pub enum Top {
    Query(Node),
    /// only negative clauses at top level: must be rejected (AllButQueryForbidden)
    AllNegative(Vec<Node>),
    /// `field:*`
    Exists(Fld),
}

fn text_field(f: Option<Fld>) -> Option<Fld> {
    f.map(|f| if f == Fld::Body { Fld::Body } else { Fld::Title })
}

/// Brings a generated tree into the well-formed subset (idempotent).
pub fn sanitize(n: &Node, in_group: bool) -> Node {
    match n {
        Node::Leaf(l) => Node::Leaf(match l {
            Leaf::All if in_group => Leaf::Word { field: None, w: 0 },
            Leaf::Word { field, w } => Leaf::Word { field: text_field(*field), w: *w % VOCAB.len() as u8 },
            Leaf::Phrase { field, ws, slop, prefix } => {
                let prefix = prefix.map(|p| p % PREFIXES.len() as u8);
                // the removed word only in plain phrases, next to at least one word that stays
                let mut ws: Vec<u8> = ws.iter().filter(|w| **w != LONG || prefix.is_none()).map(|w| if *w == LONG { LONG } else { *w % VOCAB.len() as u8 }).take(4).collect();
                if ws.iter().all(|w| *w == LONG) {
                    ws.insert(0, 0);
                    ws.truncate(4);
                }
                // sloppy phrases: exactly two distinct terms (DESIGN §5 item 15), never together with a prefix
                let slop = if prefix.is_none() && ws.len() == 2 && ws[0] != ws[1] && !ws.contains(&LONG) { *slop % 4 } else { 0 };
                Leaf::Phrase { field: text_field(*field), ws, slop, prefix }
            }
            Leaf::Typed { field, v } => {
                let field = if field.is_text() { Fld::Tag } else { *field };
                Leaf::Typed { field, v: *v }
            }
            Leaf::Range { field, lo, hi, elastic } => {
                let field = if RANGEABLE.contains(field) { *field } else { Fld::U64 };
                let (mut lo, hi) = (*lo, *hi);
                if lo.0 == Bk::Open && hi.0 == Bk::Open {
                    lo.0 = Bk::Incl;
                }
                Leaf::Range { field, lo, hi, elastic: *elastic }
            }
            Leaf::Set { field, vals } => Leaf::Set { field: *field, vals: vals.iter().take(5).cloned().collect() },
            other => other.clone(),
        }),
        Node::Clauses(cs) => {
            let mut out: Vec<(Sign, Node)> = cs.iter().take(5).map(|(s, n)| (*s, sanitize(n, in_group))).collect();
            if out.is_empty() {
                out.push((Sign::None, Node::Leaf(Leaf::Word { field: None, w: 0 })));
            }
            if out.iter().all(|(s, _)| *s == Sign::Minus) {
                out[0].0 = Sign::None;
            }
            Node::Clauses(out)
        }
        Node::Chain(groups) => {
            let groups: Vec<Vec<Node>> = groups
                .iter()
                .take(3)
                .map(|g| {
                    let mut g: Vec<Node> = g
                        .iter()
                        .take(3)
                        .map(|n| match n {
                            // an excluded operand: a plain leaf or a field group
                            Node::Neg(x) => match sanitize(x, in_group) {
                                Node::Leaf(Leaf::All) => Node::Neg(Box::new(Node::Leaf(Leaf::Word { field: None, w: 0 }))),
                                y @ (Node::Leaf(_) | Node::Group(..)) => Node::Neg(Box::new(y)),
                                y => y,
                            },
                            n => sanitize(n, in_group),
                        })
                        .collect();
                    // exclusions only next to a positive operand of the same AND-group
                    if g.len() < 2 || g.iter().all(|n| matches!(n, Node::Neg(_))) {
                        g = g.into_iter().map(|n| if let Node::Neg(x) = n { *x } else { n }).collect();
                    }
                    g
                })
                .filter(|g| !g.is_empty())
                .collect();
            let total: usize = groups.iter().map(|g| g.len()).sum();
            match total {
                0 => Node::Leaf(Leaf::Word { field: None, w: 0 }),
                1 => groups.into_iter().next().unwrap().into_iter().next().unwrap(),
                _ => Node::Chain(groups),
            }
        }
        Node::Group(f, inner) => {
            let f = if *f == Fld::Body { Fld::Body } else { Fld::Title };
            Node::Group(f, Box::new(sanitize(inner, true)))
        }
        Node::Boost(inner, b) => Node::Boost(Box::new(sanitize(inner, in_group)), *b % BOOSTS.len() as u8),
        // anywhere else than directly inside a chain: the operand itself
        Node::Neg(inner) => sanitize(inner, in_group),
    }
}

pub fn leaves(n: &Node) -> usize {
    match n {
        Node::Leaf(_) => 1,
        Node::Clauses(cs) => cs.iter().map(|(_, n)| leaves(n)).sum(),
        Node::Chain(gs) => gs.iter().flatten().map(leaves).sum(),
        Node::Group(_, n) | Node::Boost(n, _) | Node::Neg(n) => leaves(n),
    }
}
#[derive(Default, Debug)]
pub struct Mix {
    pub chain: bool,
    pub signs: bool,
    pub scope: bool,
    pub complex_leaf: bool,
}
pub fn mix_of(n: &Node, m: &mut Mix) {
    match n {
        Node::Leaf(l) => match l {
            Leaf::Word { field, .. } => m.scope |= field.is_some(),
            Leaf::Phrase { field, .. } => {
                m.scope |= field.is_some();
                m.complex_leaf = true
            }
            Leaf::Typed { .. } | Leaf::Json { .. } => m.scope = true,
            Leaf::Range { .. } | Leaf::Set { .. } => m.complex_leaf = true,
            Leaf::All => {}
        },
        Node::Clauses(cs) => {
            for (s, n) in cs {
                m.signs |= *s != Sign::None;
                mix_of(n, m);
            }
        }
        Node::Chain(gs) => {
            m.chain = true;
            gs.iter().flatten().for_each(|n| mix_of(n, m));
        }
        Node::Group(_, n) => {
            m.scope = true;
            mix_of(n, m)
        }
        Node::Boost(n, _) => mix_of(n, m),
        Node::Neg(n) => {
            m.signs = true;
            mix_of(n, m)
        }
    }
}

/// Trigger of the finding `wrong_documents:duplicate_clause_collapse`: an unsigned element of a clause list that
/// is a parenthesised group (possibly behind `field:( )`) whose members are all the same signed / chained operand.
/// `rewrite_ast` removes the duplicates and then replaces the element by the single remaining member *with the
/// member's occur*, so the element's own default occur is lost.  (Over-approximation: spelling variation can make
/// the printed members differ.)
pub fn dup_collapse_hazard(n: &Node) -> bool {
    fn collapses(n: &Node) -> bool {
        match n {
            Node::Group(_, inner) => collapses(inner),
            Node::Clauses(cs) => cs.len() >= 2 && cs[0].0 != Sign::None && cs.iter().all(|c| *c == cs[0]),
            Node::Chain(gs) => {
                let all: Vec<&Node> = gs.iter().flatten().collect();
                all.len() >= 2 && all.iter().all(|x| **x == *all[0])
            }
            _ => false,
        }
    }
    match n {
        Node::Leaf(_) => false,
        Node::Clauses(cs) => cs.iter().any(|(s, c)| (*s == Sign::None && collapses(c)) || dup_collapse_hazard(c)),
        Node::Chain(gs) => gs.iter().flatten().any(dup_collapse_hazard),
        Node::Group(_, c) | Node::Boost(c, _) | Node::Neg(c) => dup_collapse_hazard(c),
    }
}

// ------------------------------------------------------------------------------------------------
// naive evaluation

pub struct EvalCx<'a> {
    pub conj: bool,
    /// default fields: text fields, plus optionally the u64 field
    pub default_text: &'a [Fld],
    pub default_u64: bool,
}

/// phrase with slop: minimal sum over consecutive terms of |(p_{i+1} - p_i) - 1| <= slop  (documented budget;
/// only used with two distinct terms when slop > 0)
fn phrase_match(tokens: &[u8], ph: &[u8], slop: i64) -> bool {
    fn rec(tokens: &[u8], ph: &[u8], i: usize, prev: Option<i64>, cost: i64, slop: i64) -> bool {
        if cost > slop {
            return false;
        }
        if i == ph.len() {
            return true;
        }
        if ph[i] == LONG {
            // removed from the query: no term, no constraint, but the following terms keep their distance
            return rec(tokens, ph, i + 1, prev, cost, slop);
        }
        for (p, w) in tokens.iter().enumerate() {
            if *w == ph[i] {
                let adj = p as i64 - i as i64;
                let c = match prev {
                    None => 0,
                    Some(a) => (adj - a).abs(),
                };
                if rec(tokens, ph, i + 1, Some(adj), cost + c, slop) {
                    return true;
                }
            }
        }
        false
    }
    rec(tokens, ph, 0, None, 0, slop)
}
fn phrase_prefix_match(tokens: &[u8], ph: &[u8], prefix: &str) -> bool {
    if tokens.len() < ph.len() + 1 {
        return false;
    }
    (0..=tokens.len() - ph.len() - 1).any(|i| tokens[i..i + ph.len()] == *ph && word(tokens[i + ph.len()]).starts_with(prefix))
}
fn facet_has_prefix(doc_facet: &str, q: &str) -> bool {
    doc_facet == q || (doc_facet.starts_with(q) && doc_facet.as_bytes().get(q.len()) == Some(&b'/'))
}
/// reference tokenisation of the default analyser for ASCII text: split on non-alphanumerics, lower-case
pub fn ref_tokens(text: &str) -> Vec<String> {
    text.split(|c: char| !c.is_alphanumeric()).filter(|t| !t.is_empty()).map(|t| t.to_lowercase()).collect()
}
#[derive(Debug, PartialEq)]
enum JTyped {
    Date(i64),
    Int(i128),
    F(f64),
    Bool(bool),
}
/// typed reading of a JSON literal: RFC 3339 date, then number (i64, u64, f64; integral floats are integers), then bool
fn json_typed(text: &str) -> Option<JTyped> {
    for (secs, spellings) in DATES {
        if spellings.contains(&text) {
            return Some(JTyped::Date(*secs));
        }
    }
    if let Ok(i) = text.parse::<i64>() {
        return Some(JTyped::Int(i as i128));
    }
    if let Ok(u) = text.parse::<u64>() {
        return Some(JTyped::Int(u as i128));
    }
    if let Ok(f) = text.parse::<f64>() {
        if f.fract() == 0.0 && f.abs() < 1e18 {
            return Some(JTyped::Int(f as i128));
        }
        return Some(JTyped::F(f));
    }
    match text {
        "true" => Some(JTyped::Bool(true)),
        "false" => Some(JTyped::Bool(false)),
        _ => None,
    }
}
pub fn jlit_text(l: &JLit) -> String {
    match l {
        JLit::Word(w) => word(*w).to_string(),
        JLit::Int(i) => i.to_string(),
        JLit::Half(h) => format!("{}", half_value(*h)),
        JLit::Bool(b) => b.to_string(),
        JLit::Date(d) => DATES[*d as usize % DATES.len()].1[0].to_string(),
        JLit::Phrase(ws) => words_text(ws),
    }
}
fn json_match(v: &JV, text: &str) -> bool {
    let typed = json_typed(text);
    let typed_hit = match (v, &typed) {
        (JV::Int(i), Some(JTyped::Int(q))) => *i as i128 == *q,
        (JV::Half(h), Some(JTyped::F(q))) => half_value(*h) == *q,
        (JV::Bool(b), Some(JTyped::Bool(q))) => b == q,
        (JV::Date(d), Some(JTyped::Date(q))) => DATES[*d as usize % DATES.len()].0 == *q,
        _ => false,
    };
    if typed_hit {
        return true;
    }
    if let JV::Words(ws) = v {
        let toks = ref_tokens(text);
        let doc: Vec<&str> = ws.iter().map(|w| word(*w)).collect();
        if toks.is_empty() {
            return false;
        }
        if toks.len() == 1 {
            return doc.contains(&toks[0].as_str());
        }
        return doc.len() >= toks.len() && (0..=doc.len() - toks.len()).any(|i| doc[i..i + toks.len()].iter().zip(toks.iter()).all(|(a, b)| *a == b.as_str()));
    }
    false
}
fn in_range(k: &Key, lo: (Bk, &Key), hi: (Bk, &Key)) -> bool {
    let lo_ok = match lo.0 {
        Bk::Open => true,
        Bk::Incl => k >= lo.1,
        Bk::Excl => k > lo.1,
    };
    let hi_ok = match hi.0 {
        Bk::Open => true,
        Bk::Incl => k <= hi.1,
        Bk::Excl => k < hi.1,
    };
    lo_ok && hi_ok
}
/// pool index of a range bound: the drawn value, or the next one that has a spelling allowed in bound position
pub fn range_val_idx(f: Fld, raw: u16) -> usize {
    let p = pools().get(f);
    let start = idx(raw, p.len());
    (0..p.len()).map(|off| (start + off) % p.len()).find(|i| range_safe(&p[*i].texts[0])).expect("every rangeable pool has a range-safe value")
}
fn doc_keys(d: &DocSpec, f: Fld) -> Vec<Key> {
    if f.is_text() {
        // (the removed long word is not a term of the index)
        d.words(f).iter().filter(|w| **w != LONG).map(|w| Key::Str(str::as_bytes(word(*w)).to_vec())).collect()
    } else {
        d.typed_idx(f).map(|i| vec![pools().get(f)[i].key.clone()]).unwrap_or_default()
    }
}
pub fn eval_leaf(l: &Leaf, d: &DocSpec, cx: &EvalCx, scope: Option<Fld>) -> bool {
    match l {
        Leaf::Word { field, w } => match field.or(scope) {
            Some(f) => d.words(f).contains(w),
            None => {
                cx.default_text.iter().any(|f| d.words(*f).contains(w))
                    || (cx.default_u64 && word(*w).parse::<u64>().ok().map(|q| d.typed_idx(Fld::U64).map(|i| U64S[i] == q).unwrap_or(false)).unwrap_or(false))
            }
        },
        Leaf::Phrase { field, ws, slop, prefix } => {
            let on = |f: Fld| match prefix {
                Some(p) => phrase_prefix_match(d.words(f), ws, PREFIXES[*p as usize % PREFIXES.len()]),
                None => phrase_match(d.words(f), ws, *slop as i64),
            };
            match field.or(scope) {
                Some(f) => on(f),
                None => {
                    // a one-word "phrase" without prefix is a plain term and may also hit the u64 default field
                    let single_num = ws.len() == 1 && prefix.is_none() && cx.default_u64 && word(ws[0]).parse::<u64>().ok().map(|q| d.typed_idx(Fld::U64).map(|i| U64S[i] == q).unwrap_or(false)).unwrap_or(false);
                    cx.default_text.iter().any(|f| on(*f)) || single_num
                }
            }
        }
        Leaf::Typed { field, v } => {
            let p = pools().get(*field);
            let q = &p[idx(*v, p.len())];
            match d.typed_idx(*field) {
                None => false,
                Some(i) if *field == Fld::Facet => facet_has_prefix(FACETS[i], &q.texts[0]),
                Some(i) => p[i].key == q.key,
            }
        }
        Leaf::Json { key, lit } => {
            let k = idx(*key, JSON_KEYS.len());
            let text = jlit_text(lit);
            d.json().iter().any(|(dk, v)| *dk == k && json_match(v, &text))
        }
        Leaf::Range { field, lo, hi, .. } => {
            let p = pools().get(*field);
            let lo_k = &p[range_val_idx(*field, lo.1)].key;
            let hi_k = &p[range_val_idx(*field, hi.1)].key;
            doc_keys(d, *field).iter().any(|k| in_range(k, (lo.0, lo_k), (hi.0, hi_k)))
        }
        Leaf::Set { field, vals } => {
            let p = pools().get(*field);
            if *field == Fld::Facet {
                return d.typed_idx(*field).map(|i| vals.iter().any(|v| facet_has_prefix(FACETS[i], &p[idx(*v, p.len())].texts[0]))).unwrap_or(false);
            }
            let keys = doc_keys(d, *field);
            vals.iter().any(|v| keys.contains(&p[idx(*v, p.len())].key))
        }
        Leaf::All => true,
    }
}
pub fn eval(n: &Node, d: &DocSpec, cx: &EvalCx, scope: Option<Fld>) -> bool {
    match n {
        Node::Leaf(l) => eval_leaf(l, d, cx, scope),
        Node::Clauses(cs) => {
            let mut any_must = false;
            let mut any_should_hit = false;
            for (s, n) in cs {
                let hit = eval(n, d, cx, scope);
                match (s, cx.conj) {
                    (Sign::Minus, _) => {
                        if hit {
                            return false;
                        }
                    }
                    (Sign::Plus, _) | (Sign::None, true) => {
                        any_must = true;
                        if !hit {
                            return false;
                        }
                    }
                    (Sign::None, false) => any_should_hit |= hit,
                }
            }
            any_must || any_should_hit
        }
        Node::Chain(groups) => groups.iter().any(|g| g.iter().all(|n| if let Node::Neg(x) = n { !eval(x, d, cx, scope) } else { eval(n, d, cx, scope) })),
        // (only reachable through a chain, see sanitize)
        Node::Neg(inner) => !eval(inner, d, cx, scope),
        Node::Group(f, inner) => eval(inner, d, cx, Some(*f)),
        Node::Boost(inner, _) => eval(inner, d, cx, scope),
    }
}

// ------------------------------------------------------------------------------------------------
// printing with meaning-preserving variation

pub struct Sty<'a> {
    bytes: &'a [u8],
    pos: usize,
    pub feats: BTreeSet<&'static str>,
    /// style choices that are excluded because they re-trigger an open finding
    pub avoid_op_odd_ws: bool,
    pub avoid_regex_start: bool,
    pub avoid_space_before_range_close: bool,
    pub avoid_ws_after_bare_word: bool,
    pub avoid_space_in_empty_set: bool,
    pub avoid_space_after_set_open: bool,
    pub excluded: BTreeMap<&'static str, u64>,
}
impl<'a> Sty<'a> {
    pub fn new(bytes: &'a [u8]) -> Self {
        Sty { bytes, pos: 0, feats: BTreeSet::new(), avoid_op_odd_ws: false, avoid_regex_start: false, avoid_space_before_range_close: false, avoid_ws_after_bare_word: false, avoid_space_in_empty_set: false, avoid_space_after_set_open: false, excluded: BTreeMap::new() }
    }
    /// next style decision in 0..n ; an exhausted / empty stream yields 0 = canonical form
    pub fn pick(&mut self, n: usize) -> usize {
        let b = self.bytes.get(self.pos).copied().unwrap_or(0);
        self.pos += 1;
        (b as usize) % n.max(1)
    }
    fn feat(&mut self, f: &'static str) {
        self.feats.insert(f);
    }
    fn exclude(&mut self, k: &'static str) {
        *self.excluded.entry(k).or_default() += 1;
    }
    /// mandatory whitespace
    fn ws1(&mut self) -> &'static str {
        let k = self.pick(8);
        if k >= 3 {
            self.feat("ws_variant");
        }
        [" ", " ", " ", "  ", "\t", "\n", " \t ", "\r\n"][k]
    }
    /// separator between clauses / before an operator; `prev` is the text printed so far at this level.
    /// On the unchanged tree a tab or newline after a bare word is swallowed into a field name
    /// (finding `field_name_swallows_tab_or_newline`): excluded while that finding is open.
    fn sep(&mut self, prev: &str) -> &'static str {
        let s = self.ws1();
        let bare = prev.chars().last().map(|c| !c.is_whitespace() && !SPECIAL_CHARS.contains(&c)).unwrap_or(false);
        if bare && s.contains(['\t', '\n', '\r']) {
            if self.avoid_ws_after_bare_word {
                self.exclude("tab_or_newline_after_bare_word");
                return " ";
            }
            self.feat("tab_or_newline_after_bare_word");
        }
        s
    }
    /// optional whitespace
    fn ws0(&mut self) -> &'static str {
        let k = self.pick(6);
        if k >= 3 {
            self.feat("ws_optional_used");
        }
        ["", "", "", " ", "  ", "\t"][k]
    }
    /// whitespace after AND / OR
    fn ws_after_op(&mut self) -> &'static str {
        let k = self.pick(8);
        let s = [" ", " ", " ", "  ", " \t", " \n", "\t", "\n"][k];
        if k >= 6 {
            if self.avoid_op_odd_ws {
                self.exclude("operator_followed_by_tab_or_newline");
                return " ";
            }
            self.feat("op_followed_by_non_space_ws");
        }
        s
    }
}

const SPECIAL_CHARS: &[char] = &['+', '^', '`', ':', '{', '}', '"', '\'', '[', ']', '(', ')', '!', '\\', '*', ' '];
const ESCAPE_IN_WORD: &[char] = &['^', '`', ':', '{', '}', '"', '\'', '[', ']', '(', ')', '\\'];
fn is_negative_number(t: &str) -> bool {
    let Some(r) = t.strip_prefix('-') else { return false };
    let mut parts = r.splitn(2, '.');
    let a = parts.next().unwrap_or("");
    let ok = |s: &str| !s.is_empty() && s.bytes().all(|b| b.is_ascii_digit());
    ok(a) && parts.next().map(ok).unwrap_or(true)
}
/// unquoted spelling of a literal in term / set-element position (documented escaping: backslash before
/// whitespace, `-` and the characters ^ ` : { } " ' [ ] ( ) \ ), None if the value has no unquoted spelling
pub fn unquoted(text: &str, escape_optional: bool, sty_avoid_regex_start: bool) -> Option<String> {
    if text.is_empty() || ["AND", "OR", "NOT", "IN", "*"].contains(&text) {
        return None;
    }
    let first = text.chars().next().unwrap();
    if matches!(first, '>' | '<' | '+' | '*' | '~') || text.contains('~') {
        return None;
    }
    if first == '/' && sty_avoid_regex_start {
        return None;
    }
    if first == '/' && text[1..].contains('/') && !text.ends_with(|c: char| c.is_alphanumeric()) {
        // `/x/` would be a regex
        return None;
    }
    if is_negative_number(text) {
        return Some(text.to_string());
    }
    let mut out = String::new();
    for (i, c) in text.chars().enumerate() {
        let must = c.is_whitespace() || ESCAPE_IN_WORD.contains(&c) || (c == '-' && i == 0);
        if must || (escape_optional && c == '-') {
            out.push('\\');
        }
        out.push(c);
    }
    Some(out)
}
pub fn quoted(text: &str, q: char) -> String {
    let mut out = String::new();
    out.push(q);
    for c in text.chars() {
        if c == q || c == '\\' {
            out.push('\\');
        }
        out.push(c);
    }
    out.push(q);
    out
}
/// spelling in range-bound position: raw, no quotes, no escapes
pub fn range_safe(text: &str) -> bool {
    !text.is_empty() && text != "*" && !text.starts_with('`') && !text.chars().any(|c| c.is_whitespace() || ['{', '}', '"', '[', ']', '(', ')', '\\'].contains(&c))
}

fn print_value(text: &str, sty: &mut Sty) -> String {
    // 0,1: unquoted if possible ; 2: double quotes ; 3: single quotes ; 4: unquoted with optional escapes
    let k = sty.pick(5);
    let avoid = sty.avoid_regex_start;
    if text.starts_with('/') && avoid && (k < 2 || k == 4) {
        sty.exclude("unquoted_literal_starting_with_slash");
    }
    let unq = match k {
        0 | 1 => unquoted(text, false, avoid),
        4 => unquoted(text, true, avoid),
        _ => None,
    };
    match unq {
        Some(u) => {
            if u.contains('\\') {
                sty.feat("escape_in_word");
            }
            u
        }
        None => {
            let q = if k == 3 { '\'' } else { '"' };
            if q == '\'' {
                sty.feat("single_quotes");
            } else {
                sty.feat("double_quotes");
            }
            let s = quoted(text, q);
            if s.len() > text.len() + 2 {
                sty.feat("escape_in_quotes");
            }
            s
        }
    }
}
fn print_field(name: &str, sty: &mut Sty) -> String {
    // `field:`, `field: `, `field :`, `field : `
    let k = sty.pick(8);
    let (a, b) = [("", ""), ("", ""), ("", ""), ("", ""), ("", " "), (" ", ""), (" ", " "), ("", "  ")][k];
    if k >= 4 {
        sty.feat("ws_around_colon");
    }
    format!("{name}{a}:{b}")
}
fn pick_text<'p>(pv: &'p PoolVal, sty: &mut Sty) -> &'p str {
    let k = sty.pick(pv.texts.len().max(1) * 2);
    // canonical spelling twice as likely
    if k < pv.texts.len() {
        &pv.texts[0]
    } else {
        if k - pv.texts.len() > 0 {
            sty.feat("alt_spelling");
        }
        &pv.texts[k - pv.texts.len()]
    }
}
pub fn json_key_text(k: usize) -> String {
    match JSON_KEYS[k] {
        "k8s.node" => "attrs.k8s\\.node".to_string(),
        other => format!("attrs.{other}"),
    }
}

pub fn print_leaf(l: &Leaf, sty: &mut Sty) -> String {
    match l {
        Leaf::Word { field, w } => {
            let pv = &pools().get(Fld::Title)[*w as usize % VOCAB.len()];
            let text = pick_text(pv, sty).to_string();
            let v = print_value(&text, sty);
            sty.feat(if field.is_some() { "leaf:word_fielded" } else { "leaf:word_default_fields" });
            match field {
                Some(f) => format!("{}{v}", print_field(f.name(), sty)),
                None => v,
            }
        }
        Leaf::Phrase { field, ws, slop, prefix } => {
            let mut toks: Vec<String> = ws.iter().map(|w| word(*w).to_string()).collect();
            if let Some(p) = prefix {
                toks.push(PREFIXES[*p as usize % PREFIXES.len()].to_string());
            }
            let hyphen_ok = *slop == 0 && prefix.is_none() && toks.len() >= 2;
            let k = sty.pick(6);
            let body = if hyphen_ok && k == 5 {
                sty.feat("phrase_unquoted_hyphenated");
                toks.join("-")
            } else {
                let sep = ["", " ", " ", "  ", ", ", "-"][k.min(5)];
                let sep = if sep.is_empty() { " " } else { sep };
                if sep != " " {
                    sty.feat("phrase_inner_separator_variant");
                }
                let q = if sty.pick(3) == 2 { '\'' } else { '"' };
                sty.feat(if q == '\'' { "single_quotes" } else { "double_quotes" });
                let mut s = quoted(&toks.join(sep), q);
                if let Some(_) = prefix {
                    s.push('*');
                    sty.feat("leaf:phrase_prefix");
                } else if *slop > 0 {
                    s.push_str(&format!("~{slop}"));
                    sty.feat("leaf:phrase_slop");
                } else if sty.pick(4) == 3 {
                    s.push_str("~0");
                }
                s
            };
            sty.feat(if toks.len() >= 2 { "leaf:phrase" } else { "leaf:quoted_single_term" });
            if ws.contains(&LONG) {
                sty.feat("leaf:phrase_with_removed_token");
                if ws.iter().position(|w| *w != LONG).map(|a| ws[a..].iter().rposition(|w| *w != LONG).map(|b| ws[a..a + b].contains(&LONG)).unwrap_or(false)).unwrap_or(false) {
                    sty.feat("leaf:phrase_with_removed_token_between_terms");
                }
            }
            match field {
                Some(f) => format!("{}{body}", print_field(f.name(), sty)),
                None => body,
            }
        }
        Leaf::Typed { field, v } => {
            let p = pools().get(*field);
            let pv = &p[idx(*v, p.len())];
            let text = pick_text(pv, sty).to_string();
            let val = print_value(&text, sty);
            sty.feat(match field {
                Fld::Tag => "typed:string_raw",
                Fld::Lang => "typed:dotted_field_name",
                Fld::U64 => "typed:u64",
                Fld::I64 => "typed:i64",
                Fld::F64 => "typed:f64",
                Fld::Flag => "typed:bool",
                Fld::Ts => "typed:date",
                Fld::Ip => "typed:ip",
                Fld::Bytes => "typed:bytes",
                Fld::Facet => "typed:facet",
                _ => "typed:text",
            });
            format!("{}{val}", print_field(field.name(), sty))
        }
        Leaf::Json { key, lit } => {
            let k = idx(*key, JSON_KEYS.len());
            let text = match lit {
                JLit::Date(d) => {
                    let pv = &pools().get(Fld::Ts)[*d as usize % DATES.len()];
                    pick_text(pv, sty).to_string()
                }
                other => jlit_text(other),
            };
            let val = print_value(&text, sty);
            sty.feat(match lit {
                JLit::Word(_) => "json:word",
                JLit::Int(_) => "json:int",
                JLit::Half(_) => "json:float",
                JLit::Bool(_) => "json:bool",
                JLit::Date(_) => "json:date",
                JLit::Phrase(_) => "json:phrase",
            });
            sty.feat(match JSON_KEYS[k] {
                "a.b" => "json:nested_path",
                "k8s.node" => "json:escaped_dot_key",
                _ => "json:path",
            });
            format!("{}{val}", print_field(&json_key_text(k), sty))
        }
        Leaf::Range { field, lo, hi, elastic } => {
            let p = pools().get(*field);
            let safe_text = |raw: u16, sty: &mut Sty| -> String {
                let pv = &p[range_val_idx(*field, raw)];
                let t = pick_text(pv, sty);
                if range_safe(t) {
                    t.to_string()
                } else {
                    pv.texts[0].clone()
                }
            };
            let name = print_field(field.name(), sty);
            sty.feat(match field {
                Fld::Title | Fld::Body => "range:text",
                Fld::Tag | Fld::Lang => "range:string_raw",
                Fld::U64 => "range:u64",
                Fld::I64 => "range:i64",
                Fld::F64 => "range:f64",
                Fld::Ts => "range:date",
                Fld::Ip => "range:ip",
                _ => "range:other",
            });
            let one_open = (lo.0 == Bk::Open) != (hi.0 == Bk::Open);
            if *elastic && one_open {
                sty.feat("range:elastic");
                let (op, raw) = match (lo.0, hi.0) {
                    (Bk::Incl, _) => (">=", lo.1),
                    (Bk::Excl, _) => (">", lo.1),
                    (_, Bk::Incl) => ("<=", hi.1),
                    _ => ("<", hi.1),
                };
                let sp = ["", "", " "][sty.pick(3)];
                return format!("{name}{op}{sp}{}", safe_text(raw, sty));
            }
            let lo_s = match lo.0 {
                Bk::Open => {
                    sty.feat("range:open_lower");
                    // an open bound may be written with either bracket
                    format!("{}{}*", ["[", "{"][sty.pick(2)], sty.ws0())
                }
                Bk::Incl => {
                    sty.feat("range:incl_lower");
                    format!("[{}{}", sty.ws0(), safe_text(lo.1, sty))
                }
                Bk::Excl => {
                    sty.feat("range:excl_lower");
                    format!("{{{}{}", sty.ws0(), safe_text(lo.1, sty))
                }
            };
            let pre_close = if sty.avoid_space_before_range_close {
                if sty.pick(6) >= 3 {
                    sty.exclude("space_before_range_close");
                }
                ""
            } else {
                sty.ws0()
            };
            if !pre_close.is_empty() {
                sty.feat("range:space_before_close");
            }
            let hi_s = match hi.0 {
                Bk::Open => {
                    sty.feat("range:open_upper");
                    format!("*{pre_close}{}", ["]", "}"][sty.pick(2)])
                }
                Bk::Incl => {
                    sty.feat("range:incl_upper");
                    format!("{}{pre_close}]", safe_text(hi.1, sty))
                }
                Bk::Excl => {
                    sty.feat("range:excl_upper");
                    format!("{}{pre_close}}}", safe_text(hi.1, sty))
                }
            };
            format!("{name}{lo_s}{}TO{}{hi_s}", sty.ws1(), sty.ws1())
        }
        Leaf::Set { field, vals } => {
            let p = pools().get(*field);
            let name = print_field(field.name(), sty);
            let after_open = if !vals.is_empty() && sty.avoid_space_after_set_open {
                if sty.pick(6) >= 3 {
                    sty.exclude("space_after_set_open");
                }
                ""
            } else if vals.is_empty() && sty.avoid_space_in_empty_set {
                if sty.pick(6) >= 3 {
                    sty.exclude("space_inside_empty_set");
                }
                ""
            } else {
                sty.ws0()
            };
            let mut s = format!("{name}IN{}[{after_open}", sty.ws1());
            for (i, v) in vals.iter().enumerate() {
                if i > 0 {
                    s.push_str(sty.ws1());
                }
                let pv = &p[idx(*v, p.len())];
                let text = pick_text(pv, sty).to_string();
                s.push_str(&print_value(&text, sty));
            }
            s.push(']');
            sty.feat(if vals.is_empty() { "set:empty" } else { "set:nonempty" });
            sty.feat(match field {
                Fld::Title | Fld::Body => "set:text",
                Fld::Tag | Fld::Lang => "set:string_raw",
                _ => "set:typed",
            });
            s
        }
        Leaf::All => {
            sty.feat("leaf:all");
            "*".to_string()
        }
    }
}

/// operand position: leaves bare, compound nodes in parentheses
pub fn print_operand(n: &Node, sty: &mut Sty) -> String {
    let s = match n {
        Node::Leaf(l) => print_leaf(l, sty),
        Node::Clauses(_) | Node::Chain(_) => format!("({}{}{})", sty.ws0(), print_inner(n, sty), sty.ws0()),
        Node::Group(f, inner) => {
            sty.feat("field_group");
            format!("{}({}{}{})", print_field(f.name(), sty), sty.ws0(), print_inner(inner, sty), sty.ws0())
        }
        Node::Neg(inner) => format!("-{}", print_operand(inner, sty)),
        Node::Boost(inner, b) => {
            sty.feat("boost");
            let elastic = matches!(&**inner, Node::Leaf(Leaf::Range { lo, hi, elastic: true, .. }) if (lo.0 == Bk::Open) != (hi.0 == Bk::Open));
            let op = print_operand(inner, sty);
            // `f:>=3^2` is not a documented form (the bound of the comparison syntax is a greedy word): parenthesise
            // `a^2^3` is a syntax error: a boosted operand is parenthesised before it is boosted again
            let nested_boost = matches!(&**inner, Node::Boost(..));
            let op = if (elastic || nested_boost) && !op.ends_with(')') { format!("({op})") } else { op };
            format!("{op}^{}", BOOSTS[*b as usize % BOOSTS.len()])
        }
    };
    // redundant parentheses (not directly around a boost: `(a^2)` is fine too, but keep `x^2^3` impossible)
    if sty.pick(8) == 7 {
        sty.feat("redundant_parens");
        format!("({}{s}{})", sty.ws0(), sty.ws0())
    } else {
        s
    }
}
/// content of a nesting level: a clause list or a chain; a single operand otherwise
pub fn print_inner(n: &Node, sty: &mut Sty) -> String {
    match n {
        Node::Clauses(cs) => {
            let mut s = String::new();
            for (i, (sign, sub)) in cs.iter().enumerate() {
                if i > 0 {
                    let w = sty.sep(&s);
                    s.push_str(w);
                }
                match sign {
                    Sign::Plus => {
                        sty.feat("sign:plus");
                        s.push('+')
                    }
                    Sign::Minus => {
                        sty.feat("sign:minus");
                        s.push('-')
                    }
                    Sign::None => sty.feat("sign:none"),
                }
                s.push_str(&print_operand(sub, sty));
            }
            if cs.len() >= 2 {
                sty.feat("clause_list>=2");
            }
            s
        }
        Node::Chain(groups) => {
            let mut s = String::new();
            for (gi, g) in groups.iter().enumerate() {
                if gi > 0 {
                    let w = sty.sep(&s);
                    s.push_str(w);
                    s.push_str("OR");
                    s.push_str(sty.ws_after_op());
                    sty.feat("chain:or");
                }
                for (i, sub) in g.iter().enumerate() {
                    if i > 0 {
                        let w = sty.sep(&s);
                        s.push_str(w);
                        s.push_str("AND");
                        s.push_str(sty.ws_after_op());
                        sty.feat("chain:and");
                    }
                    if let Node::Neg(x) = sub {
                        sty.feat("chain:excluded_operand");
                        if gi > 0 && i == 0 {
                            sty.feat("chain:or_minus_and");
                        }
                        s.push('-');
                        s.push_str(&print_operand(x, sty));
                    } else {
                        s.push_str(&print_operand(sub, sty));
                    }
                }
            }
            if groups.len() >= 2 && groups.iter().any(|g| g.len() >= 2) {
                sty.feat("chain:and_or_mixed");
            }
            s
        }
        other => print_operand(other, sty),
    }
}
pub fn print_top(t: &Top, sty: &mut Sty) -> String {
    let body = match t {
        Top::Query(n) => print_inner(n, sty),
        Top::AllNegative(ns) => {
            let mut s = String::new();
            for (i, n) in ns.iter().enumerate() {
                if i > 0 {
                    let w = sty.sep(&s);
                    s.push_str(w);
                }
                s.push('-');
                s.push_str(&print_operand(n, sty));
            }
            s
        }
        Top::Exists(f) => format!("{}*", print_field(f.name(), sty)),
    };
    format!("{}{body}{}", sty.ws0(), sty.ws0())
}

// ------------------------------------------------------------------------------------------------
// generation

fn fld_of(list: &'static [Fld]) -> impl Strategy<Value = Fld> {
    any::<u16>().prop_map(move |i| list[idx(i, list.len())])
}
fn text_fld_opt() -> impl Strategy<Value = Option<Fld>> {
    prop_oneof![3 => Just(None), 2 => Just(Some(Fld::Title)), 2 => Just(Some(Fld::Body))]
}
fn wid() -> impl Strategy<Value = u8> {
    // Zipf-ish: the first words are frequent
    prop_oneof![4 => 0u8..4, 2 => 4u8..10, 1 => 10u8..(VOCAB.len() as u8)]
}
fn jlit() -> impl Strategy<Value = JLit> {
    prop_oneof![
        3 => wid().prop_map(JLit::Word),
        2 => prop_oneof![Just(-5i64), Just(0), Just(1), Just(5), Just(7), Just(42), Just(-7)].prop_map(JLit::Int),
        1 => (-3i16..4).prop_map(|h| JLit::Half(2 * h + 1)),
        1 => any::<bool>().prop_map(JLit::Bool),
        1 => (0u8..DATES.len() as u8).prop_map(JLit::Date),
        1 => prop::collection::vec(wid(), 2..4).prop_map(JLit::Phrase),
    ]
}
fn bk() -> impl Strategy<Value = Bk> {
    prop_oneof![2 => Just(Bk::Incl), 2 => Just(Bk::Excl), 1 => Just(Bk::Open)]
}
fn leaf() -> impl Strategy<Value = Leaf> {
    prop_oneof![
        6 => (text_fld_opt(), wid()).prop_map(|(field, w)| Leaf::Word { field, w }),
        3 => (text_fld_opt(), prop::collection::vec(prop_oneof![5 => wid(), 1 => Just(LONG)], 1..5), 0u8..4, prop::option::weighted(0.25, any::<u8>())).prop_map(|(field, ws, slop, prefix)| Leaf::Phrase { field, ws, slop, prefix }),
        5 => (fld_of(TYPED), any::<u16>()).prop_map(|(field, v)| Leaf::Typed { field, v }),
        3 => (any::<u16>(), jlit()).prop_map(|(key, lit)| Leaf::Json { key, lit }),
        4 => (fld_of(RANGEABLE), (bk(), any::<u16>()), (bk(), any::<u16>()), any::<bool>()).prop_map(|(field, lo, hi, elastic)| Leaf::Range { field, lo, hi, elastic }),
        2 => (fld_of(SETTABLE), prop::collection::vec(any::<u16>(), 0..4)).prop_map(|(field, vals)| Leaf::Set { field, vals }),
        1 => Just(Leaf::All),
    ]
}
fn sign() -> impl Strategy<Value = Sign> {
    prop_oneof![3 => Just(Sign::None), 2 => Just(Sign::Plus), 2 => Just(Sign::Minus)]
}
pub fn node() -> impl Strategy<Value = Node> {
    leaf().prop_map(Node::Leaf).prop_recursive(3, 16, 4, |inner| {
        prop_oneof![
            4 => prop::collection::vec((sign(), inner.clone()), 1..5).prop_map(Node::Clauses),
            4 => prop::collection::vec(prop::collection::vec((inner.clone(), prop::bool::weighted(0.2)).prop_map(|(n, neg)| if neg { Node::Neg(Box::new(n)) } else { n }), 1..4), 1..4).prop_map(Node::Chain),
            // repeated operands (the grammar removes duplicate clauses)
            1 => (inner.clone(), inner.clone(), sign(), 2usize..4, 0u8..3).prop_map(|(other, x, s, n, shape)| {
                let dup = match shape {
                    0 => Node::Clauses(vec![(s, x); n]),
                    1 => Node::Chain(vec![vec![x]; n]),
                    _ => Node::Chain(vec![vec![x; n]]),
                };
                Node::Clauses(vec![(Sign::None, other), (Sign::None, dup)])
            }),
            1 => (prop_oneof![Just(Fld::Title), Just(Fld::Body)], inner.clone()).prop_map(|(f, n)| Node::Group(f, Box::new(n))),
            1 => (inner, 0u8..BOOSTS.len() as u8).prop_map(|(n, b)| Node::Boost(Box::new(n), b)),
        ]
    })
}
fn top() -> impl Strategy<Value = Top> {
    prop_oneof![
        40 => node().prop_map(|n| Top::Query(sanitize(&n, false))),
        2 => prop::collection::vec(node(), 1..4).prop_map(|v| Top::AllNegative(v.iter().map(|n| sanitize(n, false)).collect())),
        1 => fld_of(ALL_FIELDS).prop_map(Top::Exists),
    ]
}
fn jv() -> impl Strategy<Value = JV> {
    prop_oneof![
        4 => prop::collection::vec(wid(), 1..4).prop_map(JV::Words),
        2 => prop_oneof![Just(-5i64), Just(0), Just(1), Just(5), Just(7), Just(42)].prop_map(JV::Int),
        1 => (-3i16..4).prop_map(|h| JV::Half(2 * h + 1)),
        1 => any::<bool>().prop_map(JV::Bool),
        1 => (0u8..DATES.len() as u8).prop_map(JV::Date),
    ]
}
fn doc() -> impl Strategy<Value = DocSpec> {
    (
        prop::collection::vec(prop_oneof![12 => wid(), 1 => Just(LONG)], 0..6),
        prop::collection::vec(prop_oneof![12 => wid(), 1 => Just(LONG)], 0..8),
        prop::collection::vec(prop::option::weighted(0.6, any::<u16>()), TYPED.len()..=TYPED.len()),
        prop::collection::vec((any::<u16>(), jv()), 0..4),
    )
        .prop_map(|(title, body, typed, attrs)| DocSpec { title, body, typed, attrs })
}

#[derive(Clone, Debug, Serialize, Deserialize)]
pub struct QCase {
    pub q: Top,
    pub style: Vec<u8>,
}
#[derive(Clone, Debug, Serialize, Deserialize)]
pub struct SemCase {
    pub docs: Vec<DocSpec>,
    /// docs per commit are split at these raw positions (1-3 segments)
    pub cuts: Vec<u16>,
    /// 0: [title, body]  1: [body]  2: [title, n_u64]
    pub defaults: u8,
    pub queries: Vec<QCase>,
}

pub struct Semantics;

struct Built {
    index: Index,
    conj: QueryParser,
    disj: QueryParser,
    /// uid per (segment ord, doc id)
    uids: Vec<Vec<u64>>,
}
fn build(c: &SemCase) -> Result<Built, Failure> {
    let (schema, fields) = build_schema();
    let index = Index::create_in_ram(schema);
    let mut w: IndexWriter = crate::util::writer(&index, Default::default()).or_fail("INFRA:writer")?;
    w.set_merge_policy(Box::new(tantivy::merge_policy::NoMergePolicy));
    let n = c.docs.len();
    let mut cuts: Vec<usize> = c.cuts.iter().take(2).map(|r| idx(*r, n + 1)).collect();
    cuts.sort();
    for (i, d) in c.docs.iter().enumerate() {
        if cuts.contains(&i) && i > 0 {
            w.commit().or_fail("INFRA:commit")?;
        }
        w.add_document(to_tantivy_doc(i as u64, d, &fields)).or_fail("INFRA:add_document")?;
    }
    w.commit().or_fail("INFRA:commit")?;
    drop(w);
    let defaults: Vec<Field> = match c.defaults % 3 {
        0 => vec![fields.by[&Fld::Title], fields.by[&Fld::Body]],
        1 => vec![fields.by[&Fld::Body]],
        _ => vec![fields.by[&Fld::Title], fields.by[&Fld::U64]],
    };
    let disj = QueryParser::for_index(&index, defaults.clone());
    let mut conj = QueryParser::for_index(&index, defaults);
    conj.set_conjunction_by_default();
    let searcher = index.reader().or_fail("INFRA:reader")?.searcher();
    let mut uids = vec![];
    for sr in searcher.segment_readers() {
        let col = sr.fast_fields().u64("uid").or_fail("INFRA:uid_column")?;
        uids.push((0..sr.max_doc()).map(|d| col.first(d).unwrap_or(u64::MAX)).collect());
    }
    Ok(Built { index, conj, disj, uids })
}

impl Sub for Semantics {
    type Case = SemCase;
    fn name(&self) -> &'static str {
        "semantics"
    }
    fn cases(&self, tier: Tier) -> u32 {
        tier.pick(2000, 36_000)
    }
    fn max_shrink_iters(&self) -> u32 {
        3000
    }
    fn strategy(&self, _tier: Tier) -> BoxedStrategy<SemCase> {
        (
            prop::collection::vec(doc(), 1..40),
            prop::collection::vec(any::<u16>(), 0..3),
            0u8..3,
            prop::collection::vec((top(), prop::collection::vec(any::<u8>(), 0..48)).prop_map(|(q, style)| QCase { q, style }), 1..24),
        )
            .prop_map(|(docs, cuts, defaults, queries)| SemCase { docs, cuts, defaults, queries })
            .boxed()
    }
    fn mandatory_labels(&self, _t: Tier) -> Vec<&'static str> {
        vec![
            "mode:conjunction",
            "mode:disjunction",
            "defaults:title+body",
            "defaults:body",
            "defaults:title+u64",
            "segments>=2",
            "result:empty",
            "result:partial",
            "result:all",
            "all_negative_rejected",
            "leaf:word_fielded",
            "leaf:word_default_fields",
            "leaf:phrase",
            "leaf:phrase_slop",
            "leaf:phrase_prefix",
            "leaf:all",
            "phrase_unquoted_hyphenated",
            "typed:string_raw",
            "typed:dotted_field_name",
            "typed:u64",
            "typed:i64",
            "typed:f64",
            "typed:bool",
            "typed:date",
            "typed:ip",
            "typed:bytes",
            "typed:facet",
            "json:word",
            "json:int",
            "json:float",
            "json:bool",
            "json:date",
            "json:phrase",
            "json:nested_path",
            "json:escaped_dot_key",
            "range:text",
            "range:string_raw",
            "range:u64",
            "range:i64",
            "range:f64",
            "range:date",
            "range:ip",
            "range:elastic",
            "range:open_lower",
            "range:open_upper",
            "range:incl_lower",
            "range:excl_lower",
            "range:incl_upper",
            "range:excl_upper",
            "set:empty",
            "set:nonempty",
            "set:text",
            "set:typed",
            "sign:plus",
            "sign:minus",
            "chain:and",
            "chain:or",
            "chain:and_or_mixed",
            "field_group",
            "boost",
            "redundant_parens",
            "ws_variant",
            "ws_around_colon",
            "escape_in_word",
            "escape_in_quotes",
            "single_quotes",
            "double_quotes",
            "alt_spelling",
            "nontrivial",
        ]
    }
    fn run(&self, c: &SemCase, cx: &Ctx) -> CaseResult {
        let b = build(c)?;
        let searcher = b.index.reader().or_fail("INFRA:reader")?.searcher();
        let all: BTreeSet<u64> = (0..c.docs.len() as u64).collect();
        let default_text: &[Fld] = match c.defaults % 3 {
            0 => &[Fld::Title, Fld::Body],
            1 => &[Fld::Body],
            _ => &[Fld::Title],
        };
        cx.label(["defaults:title+body", "defaults:body", "defaults:title+u64"][(c.defaults % 3) as usize]);
        cx.label_if(b.uids.len() >= 2, "segments>=2");
        for qc in &c.queries {
            let mut sty = Sty::new(&qc.style);
            sty.avoid_op_odd_ws = cx.known_open("wellformed_rejected:operator_followed_by_tab_or_newline");
            sty.avoid_regex_start = cx.known_open("grammar_disagree:lenient_error:missing_delimiter") || cx.known_open("grammar_disagree:lenient_error:expected_whitespace_closing_parenthesis_boost_or");
            sty.avoid_space_before_range_close = cx.known_open("grammar_disagree:lenient_error:missing_range_delimiter");
            sty.avoid_ws_after_bare_word = cx.known_open("wellformed_rejected:field_name_swallows_tab_or_newline");
            sty.avoid_space_in_empty_set = cx.known_open("grammar_disagree:lenient_error:expected_word");
            sty.avoid_space_after_set_open = cx.known_open("grammar_disagree:ast:no_lenient_error");
            // idempotent on generated cases; protects hand-written replays
            let q = match &qc.q {
                Top::Query(n) => Top::Query(sanitize(n, false)),
                Top::AllNegative(v) => Top::AllNegative(v.iter().map(|n| sanitize(n, false)).collect()),
                Top::Exists(f) => Top::Exists(*f),
            };
            if let Top::Exists(_) = q {
                if cx.known_open("exists_rejected_by_query_parser") && !cx.replay {
                    cx.excluded("exists_query", 1);
                    continue;
                }
            }
            let dup_hazard = matches!(&q, Top::Query(n) if dup_collapse_hazard(n));
            if dup_hazard {
                if cx.known_open("wrong_documents:duplicate_clause_collapse") && !cx.replay {
                    cx.excluded("group_of_identical_operands_as_unsigned_clause", 1);
                    continue;
                }
                cx.label("group_of_identical_operands");
            }
            let text = print_top(&q, &mut sty);
            for (k, n) in &sty.excluded {
                cx.excluded(k, *n);
            }
            for conj in [false, true] {
                let qp = if conj { &b.conj } else { &b.disj };
                cx.evals(1);
                cx.count("query_evaluations", 1);
                let parsed = qp.parse_query(&text);
                match &q {
                    Top::AllNegative(_) => {
                        match parsed {
                            Err(QueryParserError::AllButQueryForbidden) => {}
                            Err(e) => fail!("all_negative_wrong_error", "query {text:?} (only negative clauses): expected AllButQueryForbidden, got {e:?}"),
                            Ok(pq) => fail!("all_negative_accepted", "query {text:?} (only negative clauses) was accepted as {pq:?}"),
                        }
                        let (_, errs) = qp.parse_query_lenient(&text);
                        ensure!(
                            errs.iter().any(|e| matches!(e, QueryParserError::AllButQueryForbidden)),
                            "all_negative_lenient_silent",
                            "query {text:?}: lenient errors {errs:?} do not contain AllButQueryForbidden"
                        );
                        cx.label("all_negative_rejected");
                        continue;
                    }
                    _ => {}
                }
                let pq = match parsed {
                    Ok(pq) => pq,
                    Err(e) => {
                        if let Top::Exists(f) = &q {
                            fail!("exists_rejected_by_query_parser", "query {text:?} (exists on field {}): the grammar parses `field:*` as an exists query but QueryParser::parse_query returns {e:?}", f.name());
                        }
                        let sig = if sty.feats.contains("op_followed_by_non_space_ws") && matches!(e, QueryParserError::SyntaxError(_)) {
                            "wellformed_rejected:operator_followed_by_tab_or_newline".to_string()
                        } else if matches!(&e, QueryParserError::FieldDoesNotExist(name) if name.contains(['\t', '\n', '\r'])) {
                            "wellformed_rejected:field_name_swallows_tab_or_newline".to_string()
                        } else {
                            format!("wellformed_rejected:{}", super::c16::qp_error_kind(&e))
                        };
                        fail!(sig, "well-formed query {text:?} (abstract {q:?}, conjunction_by_default={conj}) was rejected: {e:?}");
                    }
                };
                let ecx = EvalCx { conj, default_text, default_u64: c.defaults % 3 == 2 };
                let expected: BTreeSet<u64> = match &q {
                    Top::Query(n) => c.docs.iter().enumerate().filter(|(_, d)| eval(n, d, &ecx, None)).map(|(i, _)| i as u64).collect(),
                    Top::Exists(f) => c.docs.iter().enumerate().filter(|(_, d)| if f.is_text() { d.words(*f).iter().any(|w| *w != LONG) } else { d.typed_idx(*f).is_some() }).map(|(i, _)| i as u64).collect(),
                    Top::AllNegative(_) => unreachable!(),
                };
                // executing the parsed query is C03/C13 territory; a panic there is reported under its own signature
                // and, once listed, skipped per query so that the rest of the case is still judged
                macro_rules! guarded_search {
                    ($e:expr) => {
                        match std::panic::catch_unwind(std::panic::AssertUnwindSafe(|| $e)) {
                            Ok(Ok(v)) => v,
                            Ok(Err(e)) => fail!("search_error", "query {text:?} parsed to {pq:?} but searching fails: {e:?}"),
                            Err(p) => {
                                let msg = p.downcast_ref::<String>().cloned().or_else(|| p.downcast_ref::<&str>().map(|s| s.to_string())).unwrap_or_default();
                                let sig = format!("search_panic:{}", super::c16::slug(&msg));
                                if cx.known_open(&sig) && !cx.replay {
                                    cx.count("queries_skipped_known_search_panic", 1);
                                    continue;
                                }
                                fail!(sig, "query {text:?} parsed to {pq:?}; executing it panicked: {msg}");
                            }
                        }
                    };
                }
                let got_set = guarded_search!(searcher.search(&*pq, &DocSetCollector));
                let got: BTreeSet<u64> = got_set.iter().map(|a| b.uids[a.segment_ord as usize][a.doc_id as usize]).collect();
                if got != expected {
                    let missing: Vec<&u64> = expected.difference(&got).collect();
                    let extra: Vec<&u64> = got.difference(&expected).collect();
                    let show = |u: &u64| format!("{u}: {:?}", c.docs[*u as usize]);
                    let sample = missing.first().or(extra.first()).map(|u| show(u)).unwrap_or_default();
                    fail!(
                        if dup_hazard { "wrong_documents:duplicate_clause_collapse" } else { "wrong_documents" },
                        "query {text:?} (abstract {q:?}, conjunction_by_default={conj}, defaults {}) parsed to {pq:?}: missing uids {missing:?}, unexpected uids {extra:?}; e.g. doc {sample}",
                        c.defaults % 3
                    );
                }
                let count = guarded_search!(searcher.search(&*pq, &Count));
                ensure!(count == got.len(), "count_differs_from_docset", "query {text:?}: Count {count} vs DocSetCollector {}", got.len());
                // lenient entry point: no error and the same documents
                // classified like the totality half (the grammar is the root of such disagreements)
                if !conj {
                    if let Ok(s) = tantivy_query_grammar::parse_query(&text) {
                        let (l, gerrs) = tantivy_query_grammar::parse_query_lenient(&text);
                        if let Some((sig, detail)) = super::c16::grammar_disagreement(&s, &l, &gerrs) {
                            fail!(sig, "well-formed query {text:?}: {detail}");
                        }
                    }
                }
                let (lq, lerrs) = qp.parse_query_lenient(&text);
                if !lerrs.is_empty() {
                    fail!(format!("qp_disagree:lenient_error:{}", super::c16::qp_error_kind(&lerrs[0])), "well-formed query {text:?}: strict accepted, lenient reports {lerrs:?}");
                }
                let lgot: BTreeSet<u64> = guarded_search!(searcher.search(&*lq, &DocSetCollector)).iter().map(|a| b.uids[a.segment_ord as usize][a.doc_id as usize]).collect();
                ensure!(lgot == got, "lenient_query_matches_other_documents", "query {text:?}: strict {pq:?} -> {got:?}, lenient {lq:?} -> {lgot:?}");
                // ---- accounting
                cx.label(if conj { "mode:conjunction" } else { "mode:disjunction" });
                cx.label(if got.is_empty() { "result:empty" } else if got == all { "result:all" } else { "result:partial" });
                if !conj {
                    for f in &sty.feats {
                        cx.label(f);
                    }
                }
                if let Top::Query(n) = &q {
                    let mut m = Mix::default();
                    mix_of(n, &mut m);
                    let kinds = [m.chain, m.signs, m.scope, m.complex_leaf].iter().filter(|x| **x).count();
                    if leaves(n) >= 3 && kinds >= 2 {
                        cx.nontrivial(mix(fp(n), mix(fnv(&qc.style), conj as u64)));
                        cx.label_if(!conj, "nontrivial");
                    }
                }
                if let Top::Exists(_) = &q {
                    cx.label_if(!conj, "exists_query");
                }
            }
            if text.len() < 120 {
                cx.sample(|| json!({"sub":"semantics","text":text,"abstract":format!("{:?}", q)}));
            }
        }
        Ok(())
    }
}
