//! C18, sub-check `process`: the two-state lock model with the writers spread over several PROCESSES that share
//! one MmapDirectory.  Actor 0 lives in the harness process, actors 1 and 2 are child processes
//! (`tvv child c18 <dir>`) driven line by line over stdin/stdout, so every step is synchronous and the verdict
//! does not depend on timing.
use std::io::{BufRead, BufReader, Write};
use std::process::{Child, ChildStdin, ChildStdout, Command, Stdio};

use proptest::prelude::*;
use serde::{Deserialize, Serialize};
use serde_json::json;
use tantivy::collector::Count;
use tantivy::query::TermQuery;
use tantivy::schema::*;
use tantivy::{Index, IndexReader, IndexWriter, ReloadPolicy, TantivyDocument, Term};

use super::c18::{attempt, id_schema, new_tempdir, Att, Bad, How, Spec};
use crate::engine::*;
use crate::{ensure, fail};

const BADS: [Bad; 5] = [Bad::BudgetJustBelowMin, Bad::BudgetAtMax, Bad::ZeroThreads, Bad::SplitBelowMin(3), Bad::BudgetSmall(0)];

/// one participant: an Index handle of the shared directory plus the writers it managed to create
pub struct Actor {
    index: Index,
    id: Field,
    writers: Vec<IndexWriter>,
    reader: Option<IndexReader>,
}
fn one_line(s: String) -> String {
    let mut s: String = s.chars().map(|c| if c == '\n' || c == '\r' { ' ' } else { c }).collect();
    s.truncate(400);
    s
}
impl Actor {
    pub fn open(path: &std::path::Path) -> tantivy::Result<Actor> {
        let index = Index::open_in_dir(path)?;
        let id = index.schema().get_field("id")?;
        Ok(Actor { index, id, writers: vec![], reader: None })
    }
    fn att(&mut self, spec: Spec) -> String {
        match attempt(&self.index, &spec) {
            Att::Ok(w) => {
                self.writers.push(w);
                "ok".into()
            }
            Att::Lock => "lock".into(),
            Att::LockIo(e) => one_line(format!("lockio {e}")),
            Att::Invalid(_) => "invalid".into(),
            Att::Panic(m) => one_line(format!("panic {m}")),
            Att::Other(e) => one_line(format!("err {e}")),
        }
    }
    pub fn exec(&mut self, line: &str) -> String {
        let mut it = line.split_whitespace();
        let cmd = it.next().unwrap_or("");
        let arg: u64 = it.next().and_then(|a| a.parse().ok()).unwrap_or(0);
        match cmd {
            "create" => self.att(Spec::Valid { how: How::Options, threads: arg as u8 }),
            "bad" => self.att(Spec::Bad(BADS[arg as usize % BADS.len()])),
            "rollback" => match self.writers.last_mut() {
                None => "none".into(),
                Some(w) => match w.rollback() {
                    Ok(_) => "ok".into(),
                    Err(e) => one_line(format!("err {e:?}")),
                },
            },
            "drop" => match self.writers.pop() {
                None => "none".into(),
                Some(w) => {
                    drop(w);
                    "ok".into()
                }
            },
            "wait" => match self.writers.pop() {
                None => "none".into(),
                Some(w) => match w.wait_merging_threads() {
                    Ok(()) => "ok".into(),
                    Err(e) => one_line(format!("err {e:?}")),
                },
            },
            "addcommit" => {
                let id_field = self.id;
                match self.writers.last_mut() {
                    None => "none".into(),
                    Some(w) => {
                        let mut d = TantivyDocument::default();
                        d.add_u64(id_field, arg);
                        if let Err(e) = w.add_document(d) {
                            return one_line(format!("err add {e:?}"));
                        }
                        match w.commit() {
                            Ok(_) => "ok".into(),
                            Err(e) => one_line(format!("err commit {e:?}")),
                        }
                    }
                }
            }
            "count" => {
                if self.reader.is_none() {
                    match self.index.reader_builder().reload_policy(ReloadPolicy::Manual).try_into() {
                        Ok(r) => self.reader = Some(r),
                        Err(e) => return one_line(format!("err reader {e:?}")),
                    }
                }
                let r = self.reader.as_ref().unwrap();
                if let Err(e) = r.reload() {
                    return one_line(format!("err reload {e:?}"));
                }
                let q = TermQuery::new(Term::from_field_u64(self.id, arg), IndexRecordOption::Basic);
                match r.searcher().search(&q, &Count) {
                    Ok(n) => format!("{n}"),
                    Err(e) => one_line(format!("err search {e:?}")),
                }
            }
            "writers" => format!("{}", self.writers.len()),
            _ => "err unknown command".into(),
        }
    }
}

/// `tvv child c18 <dir>`: executes one command per stdin line, answers with one stdout line
pub fn child_main(args: &[String]) -> i32 {
    if args.len() < 2 {
        eprintln!("usage: tvv child c18 <index dir>");
        return 2;
    }
    // a panic inside tantivy must not kill the protocol: attempts are guarded, everything else answers `err`
    std::panic::set_hook(Box::new(|_| {}));
    let mut actor = match Actor::open(std::path::Path::new(&args[1])) {
        Ok(a) => a,
        Err(e) => {
            println!("err open {e:?}");
            return 2;
        }
    };
    println!("ready");
    let stdin = std::io::stdin();
    let mut line = String::new();
    loop {
        line.clear();
        match stdin.lock().read_line(&mut line) {
            Ok(0) | Err(_) => return 0,
            Ok(_) => {}
        }
        let l = line.trim();
        if l == "exit" {
            // clean exit: writers are dropped first
            actor.writers.clear();
            println!("bye");
            return 0;
        }
        let resp = match std::panic::catch_unwind(std::panic::AssertUnwindSafe(|| actor.exec(l))) {
            Ok(r) => r,
            Err(_) => "err panic".to_string(),
        };
        println!("{resp}");
        let _ = std::io::stdout().flush();
    }
}

struct Remote {
    child: Child,
    stdin: ChildStdin,
    stdout: BufReader<ChildStdout>,
}
impl Remote {
    fn spawn(path: &std::path::Path) -> Result<Remote, Failure> {
        let exe = std::env::current_exe().or_fail("INFRA:current_exe")?;
        let mut child = Command::new(exe).arg("child").arg("c18").arg(path).stdin(Stdio::piped()).stdout(Stdio::piped()).stderr(Stdio::null()).spawn().or_fail("INFRA:child_spawn")?;
        let stdin = child.stdin.take().unwrap();
        let stdout = BufReader::new(child.stdout.take().unwrap());
        let mut r = Remote { child, stdin, stdout };
        let hello = r.recv()?;
        ensure!(hello == "ready", "INFRA:child_start", "child said {hello:?}");
        Ok(r)
    }
    fn send(&mut self, line: &str) -> CaseResult {
        writeln!(self.stdin, "{line}").or_fail("INFRA:child_io")?;
        self.stdin.flush().or_fail("INFRA:child_io")
    }
    fn recv(&mut self) -> Result<String, Failure> {
        let mut s = String::new();
        let n = self.stdout.read_line(&mut s).or_fail("INFRA:child_io")?;
        ensure!(n > 0, "INFRA:child_io", "child closed its stdout");
        Ok(s.trim().to_string())
    }
}
impl Drop for Remote {
    fn drop(&mut self) {
        let _ = self.child.kill();
        let _ = self.child.wait();
    }
}

enum Slot {
    Local(Actor),
    Remote(Remote),
    Empty,
}

#[derive(Clone, Debug, Serialize, Deserialize)]
pub enum POp {
    Create { threads: u8 },
    Bad { k: u8 },
    Rollback,
    Drop,
    Wait,
    AddCommit,
    /// the actor gives up its writer (if any) and its Index handle; children exit and are started again
    Restart,
    /// all three actors attempt at (about) the same time
    Race,
}
#[derive(Clone, Debug, Serialize, Deserialize)]
pub struct PStep {
    pub actor: u8,
    pub op: POp,
    pub probe: u8,
}
#[derive(Clone, Debug, Serialize, Deserialize)]
pub struct ProcCase {
    pub steps: Vec<PStep>,
}

struct World<'a, 'b> {
    slots: Vec<Slot>,
    holder: Option<usize>,
    holder_ctx: &'static str,
    free_cause: &'static str,
    next_id: u64,
    cx: &'a Ctx<'b>,
    /// declared last: removed after the children were killed
    tmp: tempfile::TempDir,
}
const ACTOR_NAMES: [&str; 3] = ["harness", "child1", "child2"];

impl<'a, 'b> World<'a, 'b> {
    fn ensure_up(&mut self, a: usize) -> CaseResult {
        if let Slot::Empty = self.slots[a] {
            self.slots[a] = if a == 0 { Slot::Local(Actor::open(self.tmp.path()).or_fail("INFRA:open")?) } else { Slot::Remote(Remote::spawn(self.tmp.path())?) };
            self.cx.count(if a == 0 { "handles_opened" } else { "children_spawned" }, 1);
        }
        Ok(())
    }
    fn send(&mut self, a: usize, line: &str) -> CaseResult {
        self.ensure_up(a)?;
        match &mut self.slots[a] {
            Slot::Remote(r) => r.send(line),
            _ => Ok(()),
        }
    }
    /// result of a command sent before with `send` (children) or executed now (harness actor)
    fn recv(&mut self, a: usize, line: &str) -> Result<String, Failure> {
        match &mut self.slots[a] {
            Slot::Remote(r) => r.recv(),
            Slot::Local(act) => Ok(act.exec(line)),
            Slot::Empty => fail!("INFRA:no_actor", ""),
        }
    }
    fn call(&mut self, a: usize, line: &str) -> Result<String, Failure> {
        self.send(a, line)?;
        self.recv(a, line)
    }
    fn rel(&self, a: usize, h: usize) -> String {
        if a == h {
            "same_actor".into()
        } else {
            format!("{}_vs_{}", if a == 0 { "harness" } else { "child" }, if h == 0 { "harness" } else { "child" })
        }
    }
    fn judge_create(&mut self, a: usize, threads: u8, auto: bool) -> CaseResult {
        let resp = self.call(a, &format!("create {}", threads.clamp(1, 3)))?;
        self.cx.evals(if auto { 1 } else { 0 });
        match (self.holder, resp.as_str()) {
            (None, "ok") => {
                self.cx.label(&format!("create_after:{}", self.free_cause));
                self.cx.label(&format!("holder:{}", ACTOR_NAMES[a]));
                self.holder = Some(a);
                self.holder_ctx = "created";
            }
            (None, r) => fail!(
                format!("{}:{}", if r.starts_with("lock") { "create_refused_although_free" } else { "create_failed_although_free" }, self.free_cause),
                "{} could not create a writer ({r}) although no writer exists in any process (free because of {})",
                ACTOR_NAMES[a],
                self.free_cause
            ),
            (Some(h), "ok") => fail!(
                format!("second_writer_created:{}", self.holder_ctx),
                "{} created a writer while {} holds one (state {}) on the same MmapDirectory",
                ACTOR_NAMES[a],
                ACTOR_NAMES[h],
                self.holder_ctx
            ),
            (Some(h), r) if r.starts_with("lock") => {
                self.cx.label(&format!("refused:{}", self.rel(a, h)));
                self.cx.label(&format!("attempt_after:{}", self.holder_ctx));
            }
            (Some(h), r) => fail!("wrong_error_while_held", "{} while {} holds: {r}", ACTOR_NAMES[a], ACTOR_NAMES[h]),
        }
        Ok(())
    }
    fn holder_commit(&mut self, probe: usize, what: &str) -> CaseResult {
        let Some(h) = self.holder else { return Ok(()) };
        self.next_id += 1;
        let id = self.next_id;
        let r = self.call(h, &format!("addcommit {id}"))?;
        ensure!(r == "ok", format!("holder_disturbed:{what}"), "{} (holder, state {}) add+commit: {r}", ACTOR_NAMES[h], self.holder_ctx);
        let p = if probe == h { (probe + 1) % 3 } else { probe };
        let n = self.call(p, &format!("count {id}"))?;
        ensure!(n == "1", format!("holder_commit_not_visible:{what}"), "document {id} committed by {} is seen `{n}` times by {}", ACTOR_NAMES[h], ACTOR_NAMES[p]);
        self.cx.label(&format!("visible:{}", self.rel(p, h)));
        Ok(())
    }
    fn step(&mut self, st: &PStep) -> CaseResult {
        let a = st.actor as usize % 3;
        let probe = st.probe as usize % 3;
        let mine = self.holder == Some(a);
        match &st.op {
            POp::Create { threads } => self.judge_create(a, *threads, false)?,
            POp::Bad { k } => {
                let r = self.call(a, &format!("bad {k}"))?;
                match (self.holder.is_some(), r.as_str()) {
                    (true, "ok") => fail!(format!("second_writer_created:{}", self.holder_ctx), "{} ({:?})", ACTOR_NAMES[a], BADS[*k as usize % BADS.len()]),
                    (false, "ok") => {
                        // not C18's subject which options are invalid: judged as a creation
                        self.cx.label(&format!("documented_invalid_options_accepted:{}", BADS[*k as usize % BADS.len()].name()));
                        self.holder = Some(a);
                        self.holder_ctx = "created";
                    }
                    (false, "invalid") => {
                        self.free_cause = "failed_construction";
                        self.cx.label("bad_while_free");
                    }
                    (true, "invalid") => self.cx.label("bad_while_held:invalid_argument"),
                    (true, r) if r.starts_with("lock") => self.cx.label("bad_while_held:lock_failure"),
                    (false, r) if r.starts_with("lock") => fail!(format!("lock_failure_although_free:{}", self.free_cause), "{}: {r}", ACTOR_NAMES[a]),
                    (_, r) => fail!("bad_options_unexpected_error", "{}: {r}", ACTOR_NAMES[a]),
                }
            }
            POp::Rollback => {
                let r = self.call(a, "rollback")?;
                if mine {
                    ensure!(r == "ok", "rollback_failed", "{}: {r}", ACTOR_NAMES[a]);
                    self.holder_ctx = "rollback";
                    self.cx.label("rollback");
                } else {
                    ensure!(r == "none", "INFRA:model_out_of_sync", "rollback by a non-holder answered {r}");
                }
            }
            POp::Drop | POp::Wait => {
                let wait = matches!(st.op, POp::Wait);
                let r = self.call(a, if wait { "wait" } else { "drop" })?;
                if mine {
                    ensure!(r == "ok", if wait { "wait_merging_threads_failed" } else { "INFRA:model_out_of_sync" }, "{}: {r}", ACTOR_NAMES[a]);
                    self.holder = None;
                    self.free_cause = match (wait, a == 0) {
                        (false, true) => "drop",
                        (false, false) => "child_drop",
                        (true, true) => "wait_merge",
                        (true, false) => "child_wait_merge",
                    };
                } else {
                    ensure!(r == "none", "INFRA:model_out_of_sync", "drop by a non-holder answered {r}");
                }
            }
            POp::AddCommit => {
                if mine {
                    self.holder_commit(probe, "add_commit")?;
                }
            }
            POp::Restart => {
                match std::mem::replace(&mut self.slots[a], Slot::Empty) {
                    Slot::Remote(mut r) => {
                        r.send("exit")?;
                        let bye = r.recv()?;
                        ensure!(bye == "bye", "INFRA:child_io", "exit answered {bye}");
                        let st = r.child.wait().or_fail("INFRA:child_io")?;
                        ensure!(st.success(), "INFRA:child_exit", "{st:?}");
                    }
                    Slot::Local(act) => drop(act),
                    Slot::Empty => {}
                }
                if mine {
                    self.holder = None;
                    self.free_cause = if a == 0 { "handle_closed" } else { "child_exit" };
                }
                self.cx.label("restart");
            }
            POp::Race => {
                for b in 0..3 {
                    self.ensure_up(b)?;
                }
                self.send(1, "create 1")?;
                self.send(2, "create 1")?;
                let r0 = self.recv(0, "create 1")?;
                let r1 = self.recv(1, "create 1")?;
                let r2 = self.recv(2, "create 1")?;
                let rs = [r0, r1, r2];
                self.cx.evals(3);
                for r in &rs {
                    ensure!(r == "ok" || r.starts_with("lock"), "race_unexpected_error", "{rs:?}");
                }
                let winners: Vec<usize> = (0..3).filter(|i| rs[*i] == "ok").collect();
                if let Some(h) = self.holder {
                    ensure!(winners.is_empty(), format!("second_writer_created:race_while_{}", self.holder_ctx), "{} holds; race results {rs:?}", ACTOR_NAMES[h]);
                    self.cx.label("race_held");
                } else {
                    ensure!(winners.len() <= 1, "race_several_winners", "three processes raced: {rs:?}");
                    ensure!(winners.len() == 1, format!("race_no_winner:{}", self.free_cause), "three processes raced on a free lock: {rs:?}");
                    self.holder = Some(winners[0]);
                    self.holder_ctx = "race_won";
                    self.cx.label("race_free");
                    self.cx.label(&format!("race_winner:{}", ACTOR_NAMES[winners[0]]));
                }
            }
        }
        if self.holder.is_some() {
            self.judge_create(probe, 1, true)?;
        }
        Ok(())
    }
    fn finish(&mut self, salt: usize) -> CaseResult {
        if let Some(h) = self.holder {
            self.holder_commit((h + 1) % 3, "final")?;
            let r = self.call(h, "drop")?;
            ensure!(r == "ok", "INFRA:model_out_of_sync", "final drop: {r}");
            self.holder = None;
            self.free_cause = if h == 0 { "drop" } else { "child_drop" };
        }
        for a in 0..3 {
            self.judge_create(a, 1, false)?;
            if a == salt % 3 {
                self.holder_commit((a + 1) % 3, "final")?;
            }
            let r = self.call(a, "drop")?;
            ensure!(r == "ok", "INFRA:model_out_of_sync", "final drop: {r}");
            self.holder = None;
            self.free_cause = if a == 0 { "drop" } else { "child_drop" };
            let n = self.call(a, "writers")?;
            ensure!(n == "0", "INFRA:model_out_of_sync", "{} still owns {n} writers", ACTOR_NAMES[a]);
        }
        Ok(())
    }
}

pub struct Process;
impl Sub for Process {
    type Case = ProcCase;
    fn name(&self) -> &'static str {
        "process"
    }
    fn cases(&self, tier: Tier) -> u32 {
        tier.pick(40, 800)
    }
    fn shards(&self, _tier: Tier) -> usize {
        // one shard on purpose: a fork() made by another shard duplicates the harness actor's lock descriptor
        // until the child's exec() closes it, so a lock just released by a drop can look busy for an instant
        // (observed; an artefact of forking inside a multi-threaded lock holder, not of tantivy)
        1
    }
    fn max_shrink_iters(&self) -> u32 {
        300
    }
    fn strategy(&self, tier: Tier) -> BoxedStrategy<ProcCase> {
        let op = prop_oneof![
            8 => (1u8..=2).prop_map(|threads| POp::Create { threads }),
            2 => (0u8..5).prop_map(|k| POp::Bad { k }),
            3 => Just(POp::Rollback),
            4 => Just(POp::Drop),
            2 => Just(POp::Wait),
            3 => Just(POp::AddCommit),
            2 => Just(POp::Restart),
            2 => Just(POp::Race),
        ];
        // the actor of a holder-only operation is drawn freely; steps addressed to a non-holder are no-ops, so
        // bias towards few actors per case is not needed: 3 actors x ~1/3 hit rate
        let step = (0u8..3, op, 0u8..3).prop_map(|(actor, op, probe)| PStep { actor, op, probe });
        prop::collection::vec(step, 4..tier.pick(22, 36)).prop_map(|steps| ProcCase { steps }).boxed()
    }
    fn mandatory_labels(&self, t: Tier) -> Vec<&'static str> {
        if t == Tier::Quick {
            // 40 cases: only the classes every seed populates by a wide margin
            return vec!["refused:harness_vs_child", "refused:child_vs_harness", "refused:child_vs_child", "refused:same_actor", "attempt_after:rollback", "create_after:child_drop", "visible:child_vs_harness", "visible:harness_vs_child", "race_held", "holder:child1", "holder:child2", "holder:harness"];
        }
        vec![
            "refused:harness_vs_child",
            "refused:child_vs_harness",
            "refused:child_vs_child",
            "refused:same_actor",
            "attempt_after:rollback",
            "create_after:child_drop",
            "create_after:child_exit",
            "create_after:failed_construction",
            "visible:child_vs_harness",
            "visible:harness_vs_child",
            "visible:child_vs_child",
            "race_free",
            "race_held",
            "holder:child1",
            "holder:harness",
        ]
    }
    fn run(&self, c: &ProcCase, cx: &Ctx) -> CaseResult {
        let tmp = new_tempdir()?;
        {
            let (schema, _) = id_schema();
            Index::create_in_dir(tmp.path(), schema).or_fail("INFRA:create")?;
        }
        let mut w = World { tmp, slots: vec![Slot::Empty, Slot::Empty, Slot::Empty], holder: None, holder_ctx: "", free_cause: "initial", next_id: 0, cx };
        for st in &c.steps {
            w.step(st)?;
        }
        w.finish(c.steps.len())?;
        // children are killed and reaped by Remote::drop, then the directory is removed
        w.slots.clear();
        drop(w);
        cx.nontrivial(fp(c));
        cx.sample(|| json!({"sub":"process","steps":c.steps.iter().take(8).collect::<Vec<_>>()}));
        Ok(())
    }
}
