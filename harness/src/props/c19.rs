//! C19 — tokens and snippets always point inside the text, on character boundaries.
//!
//! Sub-checks
//!  * `tokens`   — every built-in tokenizer x generated filter chain x generated UTF-8 text: per-token invariants.
//!  * `snippets` — `SnippetGenerator::{new, create}` + `Snippet::{fragment, highlighted, to_html}` over the same
//!                 analysers/texts with generated term sets, `max_num_chars` and highlight tags.
//! The same oracles are reachable from bytes through `fuzz_one` (libFuzzer target).
use std::cell::{Cell, RefCell};
use std::collections::{BTreeMap, BTreeSet};
use std::ops::Range;

use proptest::prelude::*;
use serde::{Deserialize, Serialize};
use serde_json::json;
use tantivy::query::{BooleanQuery, Occur, PhraseQuery, Query, TermQuery};
use tantivy::schema::{Facet, Field, IndexRecordOption, Schema, TextFieldIndexing, TextOptions};
use tantivy::snippet::{collapse_overlapped_ranges, SnippetGenerator};
use tantivy::tokenizer::{
    AlphaNumOnlyFilter, AsciiFoldingFilter, FacetTokenizer, Language, LowerCaser, NgramTokenizer, PreTokenizedStream, PreTokenizedString, RawTokenizer, RegexTokenizer,
    RemoveLongFilter, SimpleTokenizer, SplitCompoundWords, Stemmer, StopWordFilter, TextAnalyzer, TextAnalyzerBuilder, Token, TokenStream, WhitespaceTokenizer,
};
use tantivy::{Index, TantivyDocument, Term};

use super::c19_gen::*;
use crate::engine::*;
use crate::known::Known;
use crate::{ensure, fail};

pub fn def() -> PropDef {
    PropDef {
        id: "C19",
        level: "exploration",
        rule: "tokens: generated (analyser, texts) pairs: tokenizer in {simple, whitespace, raw, ngram(min 1..30, max-min 0..12, prefix_only), regex(generated pattern grammar: 24 atoms x 11 quantifiers, alternation, optional ^ $ \\b \\B (?i) (?s) (?x)), facet(on the encoded form of a generated path)} x 0..5 filters from {LowerCaser, AsciiFolding, RemoveLong(0..60|max), AlphaNumOnly, StopWords(custom | 18 language lists), Stemmer(18 languages), SplitCompoundWords(generated dictionary)}; texts are 0..12 repeated segments of words from weighted char classes (ASCII, Latin-1, case mappings that change byte length, combining marks, CJK, emoji/ZWJ, controls, other alphanumerics, any char) and a literal pool; 1 in ~400 texts has a >= 1 MiB run of one word; the analyser object is reused for 1..3 texts. non-trivial = a multi-byte char is adjacent to a token boundary or the text has a char whose lower-casing changes its byte length; distinct by (analyser, text). snippets: same analysers (regex without context assertions) and texts (<= ~150 KB) x term sets picked from the analysed tokens (as analysed / lower-cased / raw slice) plus junk terms x max_num_chars {0..7, 8..39, 40..300, >300, u32::MAX} x highlight tags; through SnippetGenerator::new always and through an index + SnippetGenerator::create (+ snippet_from_doc) for a quarter of the cases. non-trivial = >= 2 distinct highlighted ranges; distinct by (case, evaluation).",
        assumptions: vec![
            "`token was not normalised` is decided per token: no Stemmer/SplitCompoundWords in the chain, and LowerCaser / AsciiFoldingFilter (if present) are the identity on the slice (char-wise to_lowercase is the identity; no char from a Unicode block the folding table touches)",
            "SplitCompoundWords dictionaries and stop words are valid UTF-8 strings; facet texts are encoded forms of paths with non-empty segments without NUL",
            "snippets: regex tokenizers are generated without ^ $ \\b \\B so that analysing a highlighted slice on its own is well defined; HTML entities are decoded by an independent decoder (named amp/lt/gt/quot/apos and numeric)",
            "`no longer than the configured number of characters` is counted in chars (tantivy bounds bytes, which is stricter)",
        ],
        subs: vec![Box::new(Tokens), Box::new(Snippets)],
    }
}

const LANGS: [Language; NUM_LANGS as usize] = [
    Language::Arabic,
    Language::Danish,
    Language::Dutch,
    Language::English,
    Language::Finnish,
    Language::French,
    Language::German,
    Language::Greek,
    Language::Hungarian,
    Language::Italian,
    Language::Norwegian,
    Language::Portuguese,
    Language::Romanian,
    Language::Russian,
    Language::Spanish,
    Language::Swedish,
    Language::Tamil,
    Language::Turkish,
];

// signatures of the findings known on the unchanged tree (see KNOWN_FINDINGS.txt)
pub const SIG_FACET_OFFSETS: &str = "token_text_differs_from_slice:facet";
pub const SIG_FRAGMENT_SINGLE_TOKEN: &str = "fragment_longer_than_max:single_token";
pub const SIG_HL_OUTSIDE_NONMONOTONE: &str = "highlight_outside_fragment:offset_to_not_monotone";
pub const SIG_HL_LOWERCASE_ONLY: &str = "highlight_not_query_term:lowercase_only";
pub const SIG_HL_FACET: &str = "highlight_not_query_term:facet_offsets";

pub fn build_analyzer(an: &AnalyzerSpec) -> Result<TextAnalyzer, Failure> {
    let mut b: TextAnalyzerBuilder = match &an.tok {
        TokSpec::Simple => TextAnalyzer::builder(SimpleTokenizer::default()).dynamic(),
        TokSpec::Whitespace => TextAnalyzer::builder(WhitespaceTokenizer::default()).dynamic(),
        TokSpec::Raw => TextAnalyzer::builder(RawTokenizer::default()).dynamic(),
        TokSpec::Ngram { min, max, prefix_only } => {
            TextAnalyzer::builder(NgramTokenizer::new(*min as usize, *max as usize, *prefix_only).or_fail("INFRA:ngram_new")?).dynamic()
        }
        TokSpec::Regex { pattern, .. } => TextAnalyzer::builder(RegexTokenizer::new(pattern).or_fail("INFRA:bad_regex")?).dynamic(),
        TokSpec::Facet => TextAnalyzer::builder(FacetTokenizer::default()).dynamic(),
    };
    for f in &an.filters {
        b = match f {
            FilterSpec::LowerCaser => b.filter_dynamic(LowerCaser),
            FilterSpec::AsciiFolding => b.filter_dynamic(AsciiFoldingFilter),
            FilterSpec::RemoveLong { limit } => b.filter_dynamic(RemoveLongFilter::limit(if *limit == u32::MAX { usize::MAX } else { *limit as usize })),
            FilterSpec::AlphaNumOnly => b.filter_dynamic(AlphaNumOnlyFilter),
            FilterSpec::StopWords { words } => b.filter_dynamic(StopWordFilter::remove(words.iter().cloned())),
            FilterSpec::StopLang { lang } => match StopWordFilter::new(LANGS[*lang as usize % LANGS.len()]) {
                Some(f) => b.filter_dynamic(f),
                None => b,
            },
            FilterSpec::Stemmer { lang } => b.filter_dynamic(Stemmer::new(LANGS[*lang as usize % LANGS.len()])),
            FilterSpec::SplitCompound { dict } => b.filter_dynamic(SplitCompoundWords::from_dictionary(dict.iter().map(|s| s.as_str())).or_fail("INFRA:split_dict")?),
        };
    }
    Ok(b.build())
}

/// The text handed to the analyser. For the facet tokenizer: the encoded form of the path whose steps are the
/// (NUL-free, non-empty) expanded segments.
pub fn case_text(an: &AnalyzerSpec, segs: &[Seg]) -> String {
    if an.tok == TokSpec::Facet {
        let steps: Vec<String> = segs.iter().map(|s| expand(std::slice::from_ref(s)).replace('\0', "")).filter(|s| !s.is_empty()).collect();
        Facet::from_path(steps.iter().map(|s| s.as_str())).encoded_str().to_string()
    } else {
        let mut text = expand(segs);
        // RegexTokenizer restarts the search after every token; with alternations / context assertions one search can
        // scan far beyond the token it returns, so tokenization is quadratic in the text length. Not C19's subject.
        if let TokSpec::Regex { simple: false, .. } = &an.tok {
            if text.len() > REGEX_TEXT_CAP {
                let mut cut = REGEX_TEXT_CAP;
                while !text.is_char_boundary(cut) {
                    cut -= 1;
                }
                text.truncate(cut);
            }
        }
        text
    }
}
pub const REGEX_TEXT_CAP: usize = 2048;

// ------------------------------------------------------------------------------------------------
// "was this token normalised?"
struct Chain {
    lower: bool,
    fold: bool,
    opaque: bool, // stemmer or compound splitter: rewriting cannot be decided from the slice
}
impl Chain {
    fn of(an: &AnalyzerSpec) -> Chain {
        let mut c = Chain { lower: false, fold: false, opaque: false };
        for f in &an.filters {
            match f {
                FilterSpec::LowerCaser => c.lower = true,
                FilterSpec::AsciiFolding => c.fold = true,
                FilterSpec::Stemmer { .. } | FilterSpec::SplitCompound { .. } => c.opaque = true,
                _ => {}
            }
        }
        c
    }
    fn rewrites_nothing(&self) -> bool {
        !self.lower && !self.fold && !self.opaque
    }
    /// true if every text-rewriting filter of the chain is certainly the identity on `slice`
    fn identity_on(&self, slice: &str) -> bool {
        if self.opaque {
            return false;
        }
        if self.rewrites_nothing() {
            return true;
        }
        if slice.is_ascii() {
            return !self.lower || !slice.bytes().any(|b| b.is_ascii_uppercase());
        }
        slice.chars().all(|c| (!self.lower || lower_is_identity(c)) && (!self.fold || fold_is_identity(c)))
    }
}
fn lower_is_identity(c: char) -> bool {
    let mut it = c.to_lowercase();
    it.next() == Some(c) && it.next().is_none()
}
/// The ASCII folding table (Lucene's) only has entries in these Unicode blocks; everything else is copied.
fn fold_is_identity(c: char) -> bool {
    let u = c as u32;
    !(matches!(u, 0x80..=0x2ff | 0x1d00..=0x1eff | 0x2000..=0x21ff | 0x2400..=0x24ff | 0x2700..=0x27ff | 0x2c00..=0x2cff | 0x2e00..=0x2eff | 0xa700..=0xa7ff | 0xfb00..=0xfb4f | 0xff00..=0xffef))
}
fn lower_changes_len(c: char) -> bool {
    c.to_lowercase().map(|l| l.len_utf8()).sum::<usize>() != c.len_utf8()
}

// ------------------------------------------------------------------------------------------------
// token invariants
#[derive(Default)]
pub struct StreamSummary {
    pub n_tokens: u64,
    /// the first `keep` tokens
    pub kept: Vec<Token>,
    pub max_token_bytes: usize,
    /// `offset_to` never decreased along the stream
    pub to_monotone: bool,
    pub multibyte_adjacent: bool,
    pub eq_checked: u64,
    pub eq_skipped_normalised: u64,
    pub empty_tokens: u64,
}

/// Streams `text` through `analyzer` and checks every token. `an` must be the spec `analyzer` was built from.
pub fn check_token_stream(an: &AnalyzerSpec, analyzer: &mut TextAnalyzer, text: &str, keep: usize, cx: &Ctx) -> Result<StreamSummary, Failure> {
    let kind = an.tok.kind();
    let chain = Chain::of(an);
    let facet = an.tok == TokSpec::Facet;
    let mut sm = StreamSummary { to_monotone: true, ..Default::default() };
    let mut prev_pos: Option<usize> = None;
    let mut prev_to = 0usize;
    let mut stream = analyzer.token_stream(text);
    while stream.advance() {
        let t = stream.token();
        let (from, to) = (t.offset_from, t.offset_to);
        let show = |t: &Token| {
            let mut s: String = t.text.chars().take(40).collect();
            if s.len() < t.text.len() {
                s.push('…');
            }
            format!("token #{} {{from {}, to {}, position {}, text {:?}}} text.len()={} analyser={:?}", sm.n_tokens, t.offset_from, t.offset_to, t.position, s, text.len(), an)
        };
        ensure!(from <= to, format!("offset_from_gt_to:{kind}"), "{}", show(t));
        ensure!(to <= text.len(), format!("offset_out_of_bounds:{kind}"), "{}", show(t));
        ensure!(text.is_char_boundary(from) && text.is_char_boundary(to), format!("offset_not_char_boundary:{kind}"), "{}", show(t));
        if let Some(p) = prev_pos {
            ensure!(t.position >= p, format!("position_decreases:{kind}"), "previous position {p}; {}", show(t));
        }
        prev_pos = Some(t.position);
        let slice = &text[from..to];
        if chain.identity_on(slice) {
            if t.text != slice {
                if facet {
                    if !cx.known_open(SIG_FACET_OFFSETS) {
                        fail!(SIG_FACET_OFFSETS, "slice {:?}; {}", slice.chars().take(40).collect::<String>(), show(t));
                    }
                    cx.excluded(SIG_FACET_OFFSETS, 1);
                } else {
                    fail!(format!("token_text_differs_from_slice:{kind}"), "slice {:?}; {}", slice.chars().take(40).collect::<String>(), show(t));
                }
            }
            sm.eq_checked += 1;
        } else {
            sm.eq_skipped_normalised += 1;
        }
        if to < prev_to {
            sm.to_monotone = false;
        }
        prev_to = to;
        sm.max_token_bytes = sm.max_token_bytes.max(to - from);
        if from == to {
            sm.empty_tokens += 1;
        }
        if sm.n_tokens < 2000 && !sm.multibyte_adjacent {
            let before = |p: usize| text[..p].chars().next_back().map(|c| c.len_utf8() > 1).unwrap_or(false);
            let after = |p: usize| text[p..].chars().next().map(|c| c.len_utf8() > 1).unwrap_or(false);
            sm.multibyte_adjacent = before(from) || after(from) || before(to) || after(to);
        }
        if sm.kept.len() < keep {
            sm.kept.push(t.clone());
        }
        sm.n_tokens += 1;
    }
    Ok(sm)
}

struct TextClasses {
    multibyte: bool,
    combining: bool,
    cjk: bool,
    zwj: bool,
    control: bool,
    casemap_len: bool,
    four_byte: bool,
}
fn classify(text: &str) -> TextClasses {
    let mut c = TextClasses { multibyte: false, combining: false, cjk: false, zwj: false, control: false, casemap_len: false, four_byte: false };
    for ch in text.chars().take(100_000) {
        let u = ch as u32;
        if u >= 0x80 {
            c.multibyte = true;
            c.four_byte |= u >= 0x10000;
            c.combining |= matches!(u, 0x300..=0x36f | 0x20d0..=0x20ff | 0xfe00..=0xfe0f | 0x3099..=0x309a);
            c.cjk |= matches!(u, 0x3000..=0x9fff | 0xac00..=0xd7a3 | 0x20000..=0x2ffff);
            c.zwj |= u == 0x200d;
            c.casemap_len |= lower_changes_len(ch);
        }
        c.control |= ch.is_control();
    }
    c
}

#[derive(Clone, Debug, Serialize, Deserialize)]
pub struct TokCase {
    pub an: AnalyzerSpec,
    /// analysed one after the other with the same analyser object
    pub texts: Vec<Vec<Seg>>,
}

pub struct Tokens;
impl Sub for Tokens {
    type Case = TokCase;
    fn name(&self) -> &'static str {
        "tokens"
    }
    fn cases(&self, tier: Tier) -> u32 {
        tier.pick(100_000, 2_000_000)
    }
    fn max_shrink_iters(&self) -> u32 {
        3000
    }
    fn strategy(&self, _tier: Tier) -> BoxedStrategy<TokCase> {
        let texts = prop_oneof![
            5 => text(12, true).prop_map(|t| vec![t]),
            2 => prop::collection::vec(text(8, false), 2..4),
        ];
        (analyzer(true), texts).prop_map(|(an, texts)| TokCase { an, texts }).boxed()
    }
    fn mandatory_labels(&self, _t: Tier) -> Vec<&'static str> {
        vec![
            "tok:simple",
            "tok:whitespace",
            "tok:raw",
            "tok:ngram",
            "tok:regex",
            "tok:facet",
            "ngram:prefix_only",
            "ngram:all",
            "ngram:min=max",
            "ngram:text_shorter_than_min",
            "f:lower",
            "f:asciifold",
            "f:removelong",
            "f:alphanum",
            "f:stopwords",
            "f:stemmer",
            "f:splitcompound",
            "f:none",
            "text:empty",
            "text:multibyte",
            "text:4byte_chars",
            "text:combining",
            "text:cjk",
            "text:emoji_zwj",
            "text:casemap_changes_len",
            "text:control",
            "token>=1MiB",
            "multibyte_adjacent_to_token_boundary",
            "text_equality_checked",
            "text_equality_checked_under_rewriting_chain",
            "token_normalised",
            "analyser_reused",
            "pretokenized_roundtrip",
        ]
    }
    fn run(&self, c: &TokCase, cx: &Ctx) -> CaseResult {
        let mut analyzer = build_analyzer(&c.an)?;
        let chain = Chain::of(&c.an);
        cx.label(&format!("tok:{}", c.an.tok.kind()));
        if let TokSpec::Ngram { min, max, prefix_only } = &c.an.tok {
            cx.label(if *prefix_only { "ngram:prefix_only" } else { "ngram:all" });
            cx.label_if(min == max, "ngram:min=max");
        }
        if c.an.filters.is_empty() {
            cx.label("f:none");
        }
        for f in &c.an.filters {
            cx.label(&format!("f:{}", f.kind()));
        }
        cx.label_if(c.texts.len() > 1, "analyser_reused");
        let an_fp = fp(&c.an);
        for (ti, segs) in c.texts.iter().enumerate() {
            let text = case_text(&c.an, segs);
            if ti > 0 {
                cx.evals(1);
            }
            let sm = check_token_stream(&c.an, &mut analyzer, &text, 3000, cx)?;
            // the pre-tokenized stream must hand the same tokens back (tokenized_string.rs)
            if sm.n_tokens as usize == sm.kept.len() {
                let mut pre = PreTokenizedStream::from(PreTokenizedString { text: text.clone(), tokens: sm.kept.clone() });
                let mut i = 0;
                while pre.advance() {
                    ensure!(i < sm.kept.len() && pre.token() == &sm.kept[i], "pretokenized_stream_differs", "token #{i}: {:?}", pre.token());
                    i += 1;
                }
                ensure!(i == sm.kept.len(), "pretokenized_stream_differs", "{i} tokens instead of {}", sm.kept.len());
                cx.label("pretokenized_roundtrip");
            }
            let cl = classify(&text);
            cx.count("tokens", sm.n_tokens);
            cx.count("tokens_text_equality_checked", sm.eq_checked);
            cx.label_if(text.is_empty(), "text:empty");
            cx.label_if(cl.multibyte, "text:multibyte");
            cx.label_if(cl.four_byte, "text:4byte_chars");
            cx.label_if(cl.combining, "text:combining");
            cx.label_if(cl.cjk, "text:cjk");
            cx.label_if(cl.zwj, "text:emoji_zwj");
            cx.label_if(cl.casemap_len, "text:casemap_changes_len");
            cx.label_if(cl.control, "text:control");
            cx.label_if(text.len() >= 1 << 20, "text>=1MiB");
            cx.label_if(sm.max_token_bytes >= 1 << 20, "token>=1MiB");
            cx.label_if(sm.max_token_bytes >= 65_530, "token>=64KiB");
            cx.label_if(sm.n_tokens == 0, "no_tokens");
            cx.label_if(sm.n_tokens >= 1000, "tokens>=1000");
            cx.label_if(sm.empty_tokens > 0, "empty_token");
            cx.label_if(!sm.to_monotone, "offset_to_not_monotone");
            cx.label_if(sm.multibyte_adjacent, "multibyte_adjacent_to_token_boundary");
            cx.label_if(sm.eq_checked > 0, "text_equality_checked");
            cx.label_if(sm.eq_checked > 0 && !chain.rewrites_nothing(), "text_equality_checked_under_rewriting_chain");
            cx.label_if(sm.eq_skipped_normalised > 0, "token_normalised");
            if let TokSpec::Ngram { min, .. } = &c.an.tok {
                cx.label_if(!text.is_empty() && text.chars().take(40).count() < *min as usize, "ngram:text_shorter_than_min");
            }
            if sm.n_tokens > 0 && (sm.multibyte_adjacent || cl.casemap_len) {
                cx.nontrivial(mix(an_fp, fp(segs)));
            }
        }
        cx.sample(|| json!({"sub":"tokens","analyser":c.an,"texts":c.texts}));
        Ok(())
    }
}

// ------------------------------------------------------------------------------------------------
// snippets

/// independent decoder of the rendering: text outside the tags must be escaped HTML
enum Piece<'a> {
    Text { raw: &'a str, decoded: String },
    Open,
    Close,
}
fn decode_entity(name: &str) -> Option<char> {
    match name {
        "amp" => Some('&'),
        "lt" => Some('<'),
        "gt" => Some('>'),
        "quot" => Some('"'),
        "apos" => Some('\''),
        _ => {
            let n = name.strip_prefix('#')?;
            let v = if let Some(h) = n.strip_prefix(['x', 'X']) { u32::from_str_radix(h, 16).ok()? } else { n.parse::<u32>().ok()? };
            char::from_u32(v)
        }
    }
}
fn parse_html<'a>(html: &'a str, open: &str, close: &str) -> Result<Vec<Piece<'a>>, Failure> {
    let mut pieces = vec![];
    let mut i = 0;
    let mut text_start = 0;
    let mut decoded = String::new();
    let flush = |pieces: &mut Vec<Piece<'a>>, start: usize, end: usize, decoded: &mut String| {
        if end > start {
            pieces.push(Piece::Text { raw: &html[start..end], decoded: std::mem::take(decoded) });
        }
    };
    while i < html.len() {
        let rest = &html[i..];
        if rest.starts_with(close) {
            flush(&mut pieces, text_start, i, &mut decoded);
            pieces.push(Piece::Close);
            i += close.len();
            text_start = i;
        } else if rest.starts_with(open) {
            flush(&mut pieces, text_start, i, &mut decoded);
            pieces.push(Piece::Open);
            i += open.len();
            text_start = i;
        } else {
            let c = rest.chars().next().unwrap();
            match c {
                '<' | '>' => fail!("html_raw_angle_bracket_outside_tags", "at byte {i} of {html:?}"),
                '&' => {
                    let Some(semi) = rest.bytes().take(12).position(|b| b == b';') else { fail!("html_raw_ampersand_outside_tags", "at byte {i} of {html:?}") };
                    let Some(ch) = decode_entity(&rest[1..semi]) else { fail!("html_raw_ampersand_outside_tags", "unknown entity at byte {i} of {html:?}") };
                    decoded.push(ch);
                    i += semi + 1;
                }
                _ => {
                    decoded.push(c);
                    i += c.len_utf8();
                }
            }
        }
    }
    flush(&mut pieces, text_start, i, &mut decoded);
    Ok(pieces)
}
fn coverage(len: usize, ranges: impl Iterator<Item = Range<usize>>) -> Vec<bool> {
    let mut v = vec![false; len];
    for r in ranges {
        for b in v.iter_mut().take(r.end.min(len)).skip(r.start) {
            *b = true;
        }
    }
    v
}

pub struct SnipTarget<'a> {
    pub text: &'a str,
    /// tokens of `text` (possibly truncated) and whether offset_to is monotone over the whole stream
    pub tokens: &'a [Token],
    pub to_monotone: bool,
}

fn known_skip(cx: &Ctx, sig: &str) -> bool {
    if cx.known_open(sig) {
        cx.excluded(sig, 1);
        true
    } else {
        false
    }
}

/// All oracles on one snippet. `terms` = the query terms. Returns the number of distinct highlighted ranges.
pub fn check_snippet(
    gen: &SnippetGenerator,
    from_doc: Option<&TantivyDocument>,
    tg: &SnipTarget,
    terms: &BTreeSet<String>,
    an: &AnalyzerSpec,
    analyzer: &mut TextAnalyzer,
    ev: &SnipEval,
    cx: &Ctx,
) -> Result<usize, Failure> {
    let text = tg.text;
    let max = ev.max_num_chars as usize;
    let mut snippet = match from_doc {
        Some(doc) => gen.snippet_from_doc(doc),
        None => gen.snippet(text),
    };
    let frag = snippet.fragment().to_string();
    let hl: Vec<Range<usize>> = snippet.highlighted().to_vec();
    let ctx_str = || format!("max_num_chars={max} terms={:?} text={:?} analyser={:?}", terms.iter().take(8).collect::<Vec<_>>(), text.chars().take(200).collect::<String>(), an);
    ensure!(snippet.is_empty() == hl.is_empty(), "is_empty_inconsistent", "{}", ctx_str());
    // fragment
    ensure!(text.contains(frag.as_str()), "fragment_not_substring", "fragment {frag:?}; {}", ctx_str());
    let nchars = frag.chars().count();
    if nchars > max {
        let single = tg.tokens.iter().any(|t| text.get(t.offset_from..t.offset_to) == Some(frag.as_str()));
        if single {
            if !known_skip(cx, SIG_FRAGMENT_SINGLE_TOKEN) {
                fail!(SIG_FRAGMENT_SINGLE_TOKEN, "fragment has {nchars} chars: {:?}; {}", frag.chars().take(80).collect::<String>(), ctx_str());
            }
        } else {
            fail!("fragment_longer_than_max", "fragment has {nchars} chars: {:?}; {}", frag.chars().take(80).collect::<String>(), ctx_str());
        }
    }
    // highlighted ranges as returned
    for r in &hl {
        ensure!(r.start <= r.end, "highlight_range_inverted", "{r:?}; {}", ctx_str());
        if r.end > frag.len() {
            if !tg.to_monotone {
                if known_skip(cx, SIG_HL_OUTSIDE_NONMONOTONE) {
                    return Ok(0); // to_html would panic
                }
                fail!(SIG_HL_OUTSIDE_NONMONOTONE, "range {r:?} fragment {frag:?} (len {}); {}", frag.len(), ctx_str());
            }
            fail!("highlight_outside_fragment", "range {r:?} fragment {frag:?} (len {}); {}", frag.len(), ctx_str());
        }
        ensure!(frag.is_char_boundary(r.start) && frag.is_char_boundary(r.end), "highlight_not_char_boundary", "range {r:?} fragment {frag:?}; {}", ctx_str());
    }
    let distinct: BTreeSet<(usize, usize)> = hl.iter().map(|r| (r.start, r.end)).collect();
    // each highlighted slice, analysed on its own, yields a query term
    for (s, e) in distinct.iter().take(64) {
        let slice = &frag[*s..*e];
        let mut exact = false;
        let mut lower = false;
        let mut got: Vec<String> = vec![];
        let mut stream = analyzer.token_stream(slice);
        while stream.advance() {
            let t = &stream.token().text;
            exact |= terms.contains(t);
            lower |= terms.contains(&t.to_lowercase());
            if got.len() < 8 {
                got.push(t.clone());
            }
            if exact {
                break;
            }
        }
        drop(stream);
        if !exact {
            let detail = format!("highlighted slice {slice:?} ({s}..{e} of fragment {frag:?}) analyses to {got:?}; {}", ctx_str());
            if lower {
                if !known_skip(cx, SIG_HL_LOWERCASE_ONLY) {
                    fail!(SIG_HL_LOWERCASE_ONLY, "{detail}");
                }
            } else if an.tok == TokSpec::Facet && cx.known_open(SIG_FACET_OFFSETS) {
                // same defect as SIG_FACET_OFFSETS (tokens all point to text[0..0]), seen through the snippet
                cx.excluded("facet_offsets_seen_through_snippet", 1);
            } else if an.tok == TokSpec::Facet {
                fail!(SIG_HL_FACET, "{detail}");
            } else {
                fail!("highlight_not_query_term", "{detail}");
            }
        }
    }
    // the public collapse function (what to_html renders): sorted, disjoint, same coverage
    let cov = coverage(frag.len(), hl.iter().cloned());
    let collapsed = collapse_overlapped_ranges(&hl);
    for w in collapsed.windows(2) {
        ensure!(w[0].start <= w[1].start && w[0].end <= w[1].start, "collapsed_ranges_not_sorted_disjoint", "{collapsed:?} from {hl:?}");
    }
    ensure!(coverage(frag.len(), collapsed.iter().cloned()) == cov, "collapsed_ranges_cover_differently", "{collapsed:?} from {hl:?}");
    // rendering with the default tags
    let default_tags = !hl.is_empty() || !frag.is_empty();
    let (open, close) = if default_tags { ("<b>", "</b>") } else { ("\u{0}<", "\u{0}>") };
    let html = snippet.to_html();
    let pieces = parse_html(&html, open, close)?;
    let mut decoded = String::new();
    let mut rendered: Vec<Range<usize>> = vec![];
    let mut open_at: Option<usize> = None;
    for p in &pieces {
        match p {
            Piece::Text { decoded: d, .. } => decoded.push_str(d),
            Piece::Open => {
                ensure!(open_at.is_none(), "html_tags_nested", "{html:?}");
                open_at = Some(decoded.len());
            }
            Piece::Close => {
                let Some(s) = open_at.take() else { fail!("html_close_without_open", "{html:?}") };
                rendered.push(s..decoded.len());
            }
        }
    }
    ensure!(open_at.is_none(), "html_tag_unclosed", "{html:?}");
    ensure!(decoded == frag, "html_text_differs_from_fragment", "html {html:?} decodes to {decoded:?}, fragment {frag:?}; {}", ctx_str());
    // rendered ranges are sorted and disjoint by construction of the scan; they must cover what highlighted() covers
    ensure!(coverage(frag.len(), rendered.iter().cloned()) == cov, "html_highlight_coverage_differs", "rendered {rendered:?} highlighted {hl:?} html {html:?}; {}", ctx_str());
    ensure!(rendered.len() >= usize::from(!hl.is_empty()), "html_highlight_missing", "{html:?}");
    // custom tags: the same pieces with the tags substituted verbatim
    if default_tags {
        snippet.set_snippet_prefix_postfix(&ev.prefix, &ev.postfix);
        let html2 = snippet.to_html();
        let mut expect = String::new();
        for p in &pieces {
            match p {
                Piece::Text { raw, .. } => expect.push_str(raw),
                Piece::Open => expect.push_str(&ev.prefix),
                Piece::Close => expect.push_str(&ev.postfix),
            }
        }
        ensure!(html2 == expect, "html_custom_tags_differ", "prefix {:?} postfix {:?}: got {html2:?} expected {expect:?}", ev.prefix, ev.postfix);
        ensure!(snippet.fragment() == frag && snippet.highlighted() == &hl[..], "set_prefix_changed_snippet", "");
    }
    // classification
    cx.count("snippets", 1);
    cx.label_if(hl.is_empty(), "snippet:empty");
    cx.label_if(!hl.is_empty(), "snippet:nonempty");
    cx.label_if(distinct.len() >= 2, "highlights>=2");
    cx.label_if(rendered.len() >= 2, "rendered_highlights>=2");
    cx.label_if(rendered.len() < distinct.len(), "highlights_overlap_collapsed");
    cx.label_if(!hl.is_empty() && !frag.is_ascii(), "fragment:multibyte");
    cx.label_if(!hl.is_empty() && frag.contains(['<', '>', '&', '"', '\'']), "fragment:needs_escaping");
    cx.label_if(!hl.is_empty() && frag.len() < text.len(), "fragment:proper_part_of_text");
    cx.label_if(!hl.is_empty() && !text.starts_with(frag.as_str()), "fragment:not_at_text_start");
    cx.label_if(!hl.is_empty() && (frag.len() == max || frag.len() + 1 == max), "fragment:bytes_at_limit");
    cx.label_if(!hl.is_empty() && frag.len() > max && nchars <= max, "fragment:bytes>max>=chars");
    cx.label_if(!hl.is_empty() && max <= 7, "max_num_chars<=7");
    cx.label_if(!hl.is_empty() && max > 300, "max_num_chars>300");
    cx.label_if(!hl.is_empty() && default_tags && (ev.prefix != "<b>" || ev.postfix != "</b>"), "custom_tags");
    cx.label_if(distinct.iter().any(|(s, e)| s == e), "highlight:empty_range");
    Ok(distinct.len())
}

fn pick_terms(text: &str, tokens: &[Token], ev: &SnipEval) -> BTreeMap<String, f32> {
    let mut m = BTreeMap::new();
    for p in &ev.picks {
        if tokens.is_empty() {
            break;
        }
        let t = &tokens[idx(p.token, tokens.len())];
        let term = match p.mode {
            0 => t.text.clone(),
            1 => t.text.to_lowercase(),
            _ => text.get(t.offset_from..t.offset_to).unwrap_or("").to_string(),
        };
        m.insert(term, SCORES[p.score as usize % SCORES.len()]);
    }
    for j in &ev.junk {
        m.entry(j.clone()).or_insert(1.0);
    }
    m
}

#[derive(Clone, Debug, Serialize, Deserialize)]
pub struct SnipCase {
    pub an: AnalyzerSpec,
    /// values of the text field of the one indexed document; the first one is the text for `snippet(text)`
    pub values: Vec<Vec<Seg>>,
    pub use_index: bool,
    pub evals: Vec<SnipEval>,
}

fn collect_tokens(analyzer: &mut TextAnalyzer, text: &str, keep: usize) -> (Vec<Token>, bool) {
    let mut v = vec![];
    let mut mono = true;
    let mut prev_to = 0;
    let mut stream = analyzer.token_stream(text);
    while stream.advance() {
        let t = stream.token();
        if t.offset_to < prev_to {
            mono = false;
        }
        prev_to = t.offset_to;
        if v.len() < keep {
            v.push(t.clone());
        }
    }
    (v, mono)
}

pub struct Snippets;
impl Sub for Snippets {
    type Case = SnipCase;
    fn name(&self) -> &'static str {
        "snippets"
    }
    fn cases(&self, tier: Tier) -> u32 {
        tier.pick(12_000, 240_000)
    }
    fn max_shrink_iters(&self) -> u32 {
        3000
    }
    fn strategy(&self, _tier: Tier) -> BoxedStrategy<SnipCase> {
        let small_text = || {
            text(10, false).prop_map(|mut segs| {
                for s in segs.iter_mut() {
                    s.n = s.n.min(150);
                }
                segs
            })
        };
        let values = prop_oneof![3 => small_text().prop_map(|t| vec![t]), 1 => prop::collection::vec(small_text(), 2..4)];
        (analyzer(false), values, prop_oneof![3 => Just(false), 1 => Just(true)], prop::collection::vec(snip_eval(), 1..8))
            .prop_map(|(an, values, use_index, evals)| SnipCase { an, values, use_index, evals })
            .boxed()
    }
    fn mandatory_labels(&self, _t: Tier) -> Vec<&'static str> {
        vec![
            "snippet:empty",
            "snippet:nonempty",
            "highlights>=2",
            "rendered_highlights>=2",
            "highlights_overlap_collapsed",
            "fragment:multibyte",
            "fragment:needs_escaping",
            "fragment:proper_part_of_text",
            "fragment:not_at_text_start",
            "fragment:bytes_at_limit",
            "max_num_chars<=7",
            "max_num_chars>300",
            "custom_tags",
            "via:new",
            "via:create",
            "via:create+snippet_from_doc",
            "tok:simple",
            "tok:whitespace",
            "tok:raw",
            "tok:ngram",
            "tok:regex",
            "tok:facet",
            "chain:rewriting",
        ]
    }
    fn run(&self, c: &SnipCase, cx: &Ctx) -> CaseResult {
        let mut analyzer = build_analyzer(&c.an)?;
        let texts: Vec<String> = c.values.iter().map(|v| case_text(&c.an, v)).collect();
        let text0 = texts[0].as_str();
        let (tokens0, mono0) = collect_tokens(&mut analyzer, text0, 100_000);
        cx.label(&format!("tok:{}", c.an.tok.kind()));
        cx.label_if(!Chain::of(&c.an).rewrites_nothing(), "chain:rewriting");
        let case_fp = mix(fp(&c.an), fp(&c.values));
        let field0 = Field::from_field_id(0);

        // optional index (one document holding all values) for SnippetGenerator::create
        struct Ix {
            index: Index,
            field: Field,
            doc: TantivyDocument,
            joined: String,
            joined_tokens: Vec<Token>,
            joined_mono: bool,
        }
        let ix = if c.use_index {
            let mut sb = Schema::builder();
            let opts = TextOptions::default().set_indexing_options(TextFieldIndexing::default().set_tokenizer("c19").set_index_option(IndexRecordOption::WithFreqsAndPositions));
            let field = sb.add_text_field("body", opts);
            let index = Index::create_in_ram(sb.build());
            index.tokenizers().register("c19", analyzer.clone());
            let mut w = crate::util::writer(&index, Default::default()).or_fail("INFRA:writer")?;
            let mut doc = TantivyDocument::default();
            for t in &texts {
                doc.add_text(field, t);
            }
            w.add_document(doc.clone()).or_fail("INFRA:add_document")?;
            w.commit().or_fail("INFRA:commit")?;
            drop(w);
            // what snippet_from_doc documents: the values joined by a space, trimmed
            let mut joined = String::new();
            for t in &texts {
                joined.push(' ');
                joined.push_str(t);
            }
            let joined = joined.trim().to_string();
            let (joined_tokens, joined_mono) = collect_tokens(&mut analyzer, &joined, 100_000);
            Some(Ix { index, field, doc, joined, joined_tokens, joined_mono })
        } else {
            None
        };
        let searcher = match &ix {
            Some(ix) => Some(ix.index.reader().or_fail("INFRA:reader")?.searcher()),
            None => None,
        };

        for (ei, ev) in c.evals.iter().enumerate() {
            if ei > 0 {
                cx.evals(1);
            }
            let term_map = pick_terms(text0, &tokens0, ev);
            let terms: BTreeSet<String> = term_map.keys().cloned().collect();
            // (1) SnippetGenerator::new with an explicit term map
            {
                let gen = SnippetGenerator::new(term_map.clone(), analyzer.clone(), field0, ev.max_num_chars as usize);
                let tg = SnipTarget { text: text0, tokens: &tokens0, to_monotone: mono0 };
                let n = check_snippet(&gen, None, &tg, &terms, &c.an, &mut analyzer, ev, cx)?;
                cx.label("via:new");
                if n >= 2 {
                    cx.nontrivial(mix(case_fp, fp(ev)));
                }
            }
            // (2) through an index and a query
            if let (Some(ix), Some(searcher)) = (&ix, &searcher) {
                let tterms: Vec<Term> = terms.iter().map(|t| Term::from_field_text(ix.field, t)).collect();
                let query: Box<dyn Query> = match (ev.query_shape, tterms.len()) {
                    (_, 0) => Box::new(BooleanQuery::new(vec![])),
                    (1, n) if n >= 2 => Box::new(PhraseQuery::new(tterms.clone())),
                    (2, _) => Box::new(TermQuery::new(tterms[0].clone(), IndexRecordOption::Basic)),
                    _ => Box::new(BooleanQuery::new(
                        tterms.iter().map(|t| (Occur::Should, Box::new(TermQuery::new(t.clone(), IndexRecordOption::WithFreqs)) as Box<dyn Query>)).collect(),
                    )),
                };
                let qterms: BTreeSet<String> = if ev.query_shape == 2 && !tterms.is_empty() { terms.iter().take(1).cloned().collect() } else { terms.clone() };
                let mut gen = SnippetGenerator::create(searcher, &*query, ix.field).or_fail("snippet_generator_create_fails")?;
                gen.set_max_num_chars(ev.max_num_chars as usize);
                cx.evals(1);
                let n = if ev.from_doc {
                    let tg = SnipTarget { text: &ix.joined, tokens: &ix.joined_tokens, to_monotone: ix.joined_mono };
                    let n = check_snippet(&gen, Some(&ix.doc), &tg, &qterms, &c.an, &mut analyzer, ev, cx)?;
                    cx.label("via:create+snippet_from_doc");
                    n
                } else {
                    let tg = SnipTarget { text: text0, tokens: &tokens0, to_monotone: mono0 };
                    check_snippet(&gen, None, &tg, &qterms, &c.an, &mut analyzer, ev, cx)?
                };
                cx.label("via:create");
                if n >= 2 {
                    cx.nontrivial(mix(mix(case_fp, fp(ev)), 1));
                }
            }
        }
        cx.sample(|| json!({"sub":"snippets","analyser":c.an,"values":c.values,"use_index":c.use_index,"evals":c.evals.iter().take(2).collect::<Vec<_>>()}));
        Ok(())
    }
}

// ------------------------------------------------------------------------------------------------
// libFuzzer entry: bytes -> (analyser, snippet parameters, text); token invariants + snippet oracles.
// Layout: [flags][analyser bytes…][eval bytes…][text…]; every byte string decodes to a valid case.
pub fn fuzz_one(data: &[u8]) -> Result<(), Failure> {
    let mut b = Bytes::new(data);
    let flags = b.u8();
    let anchors = flags & 1 != 0;
    let an = decode_analyzer(&mut b, anchors);
    let ev = decode_eval(&mut b);
    let raw = b.rest();
    let text = decode_text(raw, flags & 2 != 0);
    let known = Known::empty();
    let stats = RefCell::new(Stats::default());
    let counting = Cell::new(false);
    let cx = Ctx::new(Tier::Quick, &known, true, &stats, &counting);
    let run = || -> CaseResult {
        let segs = vec![Seg { s: text.clone(), n: 1 }];
        let text = case_text(&an, &segs);
        let mut analyzer = build_analyzer(&an)?;
        let sm = check_token_stream(&an, &mut analyzer, &text, 20_000, &cx)?;
        if !anchors {
            let term_map = pick_terms(&text, &sm.kept, &ev);
            let terms: BTreeSet<String> = term_map.keys().cloned().collect();
            let gen = SnippetGenerator::new(term_map, analyzer.clone(), Field::from_field_id(0), ev.max_num_chars as usize);
            let tg = SnipTarget { text: &text, tokens: &sm.kept, to_monotone: sm.to_monotone };
            check_snippet(&gen, None, &tg, &terms, &an, &mut analyzer, &ev, &cx)?;
        }
        Ok(())
    };
    match std::panic::catch_unwind(std::panic::AssertUnwindSafe(run)) {
        Ok(r) => r,
        Err(p) => {
            let msg = p.downcast_ref::<&str>().map(|s| s.to_string()).or_else(|| p.downcast_ref::<String>().cloned()).unwrap_or_else(|| "<non-string panic>".into());
            Err(Failure::new("panic", format!("{msg}; analyser={an:?} eval={ev:?} text={text:?}")))
        }
    }
}

#[cfg(test)]
mod tests {
    use super::*;

    /// the decoder is total, and on the unchanged tree only the known findings come back
    #[test]
    fn fuzz_one_is_total() {
        let allowed = [SIG_FACET_OFFSETS, SIG_FRAGMENT_SINGLE_TOKEN, SIG_HL_OUTSIDE_NONMONOTONE, SIG_HL_LOWERCASE_ONLY, SIG_HL_FACET];
        let mut x = 0x9E3779B97F4A7C15u64;
        let mut next = || {
            x ^= x << 13;
            x ^= x >> 7;
            x ^= x << 17;
            x
        };
        let (mut ok, mut known) = (0, 0);
        for i in 0..30_000 {
            let len = (next() % 48) as usize;
            let bytes: Vec<u8> = (0..len).map(|_| if i % 3 == 0 { (next() % 128) as u8 } else { next() as u8 }).collect();
            match fuzz_one(&bytes) {
                Ok(()) => ok += 1,
                Err(f) => {
                    assert!(allowed.contains(&f.sig.as_str()), "unexpected failure {} {} for {bytes:?}", f.sig, f.detail);
                    known += 1;
                }
            }
        }
        assert!(fuzz_one(&[]).is_ok());
        eprintln!("fuzz_one: ok={ok} known={known}");
        assert!(ok > 10_000);
    }

    #[test]
    fn regex_grammar_is_valid() {
        for a in RE_ATOMS {
            for q in RE_QUANTS {
                for pre in RE_PRE {
                    for post in RE_POST {
                        let p = format!("{pre}{a}{q}{post}");
                        assert!(RegexTokenizer::new(&p).is_ok(), "{p}");
                        let p = format!("{pre}(?:{a}{q}|ab{a}{q})\\d?{post}");
                        assert!(RegexTokenizer::new(&p).is_ok(), "{p}");
                    }
                }
            }
        }
    }
}
