//! C14 comparator: spec-guided comparison of two aggregation result trees (tantivy's JSON shape).
//!
//! Used in two modes: `Ref` (left = reference evaluator output, right = tantivy) and `Meta` (left and right are both
//! tantivy results of different partitions of the same documents).
use std::collections::BTreeMap;

use serde_json::{Map, Value};

use super::c14_model::*;

#[derive(Clone, Copy, Debug, PartialEq, Eq)]
pub enum Mode {
    Ref,
    Meta,
}

pub struct CmpCx<'a> {
    pub mode: Mode,
    /// equal-order-key runs of terms buckets are compared as multisets (known finding: tie order)
    pub canon_ties: bool,
    /// distinct keys per field over the whole corpus (for "segment_size >= cardinality")
    pub card: &'a BTreeMap<Fld, usize>,
    /// zero-count buckets of a top-level `min_doc_count = 0` terms aggregation are comparable across partitions
    /// (no deletes in the corpus)
    pub zero_terms_top_level: bool,
    pub counters: std::cell::RefCell<BTreeMap<&'static str, u64>>,
}
impl<'a> CmpCx<'a> {
    fn bump(&self, k: &'static str) {
        *self.counters.borrow_mut().entry(k).or_default() += 1;
    }
}

#[derive(Debug, Clone)]
pub struct Diff {
    /// chain of aggregation kinds down to the node that differs, e.g. `terms>histogram>avg`
    pub kinds: String,
    /// class of the difference (`value`, `tie_order`, `shape`, `bound`)
    pub class: &'static str,
    pub msg: String,
}

type R = Result<(), Diff>;

fn diff(kinds: &str, class: &'static str, msg: String) -> Diff {
    Diff { kinds: kinds.to_string(), class, msg }
}

pub fn num_close(a: f64, b: f64, scale: f64) -> bool {
    a == b || (a - b).abs() <= 1e-9 * a.abs().max(b.abs()).max(scale).max(1.0)
}
fn as_num(v: &Value) -> Option<f64> {
    v.as_f64()
}
fn cmp_opt_num(kinds: &str, what: &str, a: Option<&Value>, b: Option<&Value>, scale: f64) -> R {
    let a = a.cloned().unwrap_or(Value::Null);
    let b = b.cloned().unwrap_or(Value::Null);
    match (&a, &b) {
        (Value::Null, Value::Null) => Ok(()),
        (Value::Number(_), Value::Number(_)) => {
            let (x, y) = (as_num(&a).unwrap(), as_num(&b).unwrap());
            if num_close(x, y, scale) {
                Ok(())
            } else {
                Err(diff(kinds, "value", format!("{what}: {x} vs {y}")))
            }
        }
        _ => Err(diff(kinds, "value", format!("{what}: {a} vs {b}"))),
    }
}
fn cmp_exact_u64(kinds: &str, what: &str, a: Option<&Value>, b: Option<&Value>) -> R {
    let x = a.and_then(|v| v.as_f64());
    let y = b.and_then(|v| v.as_f64());
    if x.is_some() && x == y {
        Ok(())
    } else {
        Err(diff(kinds, "value", format!("{what}: {:?} vs {:?}", a, b)))
    }
}
pub fn key_eq(a: &Value, b: &Value) -> bool {
    match (a, b) {
        (Value::Number(_), Value::Number(_)) => a.as_f64() == b.as_f64(),
        (Value::Object(x), Value::Object(y)) => x.len() == y.len() && x.iter().all(|(k, v)| y.get(k).map_or(false, |w| key_eq(v, w))),
        _ => a == b,
    }
}
fn key_sort_cmp(a: &Value, b: &Value) -> std::cmp::Ordering {
    match (a, b) {
        (Value::Number(_), Value::Number(_)) => a.as_f64().partial_cmp(&b.as_f64()).unwrap_or(std::cmp::Ordering::Equal),
        (Value::String(x), Value::String(y)) => x.as_bytes().cmp(y.as_bytes()),
        (Value::Number(_), _) => std::cmp::Ordering::Less,
        (_, Value::Number(_)) => std::cmp::Ordering::Greater,
        _ => a.to_string().cmp(&b.to_string()),
    }
}

pub fn cmp_aggs(cx: &CmpCx, nodes: &[AggNode], depth: usize, a: &Value, b: &Value, kinds: &str) -> R {
    for (i, n) in nodes.iter().enumerate() {
        let name = level_name(depth, i);
        let k2 = if kinds.is_empty() { n.kind.kind_name().to_string() } else { format!("{kinds}>{}", n.kind.kind_name()) };
        let (Some(av), Some(bv)) = (a.get(&name), b.get(&name)) else {
            return Err(diff(&k2, "shape", format!("result `{name}` missing: left {} right {}", a.get(&name).is_some(), b.get(&name).is_some())));
        };
        cmp_node(cx, n, depth, av, bv, &k2)?;
    }
    Ok(())
}

/// bucket list of a result: array, or (keyed) object -> values; None if absent
fn bucket_list(v: &Value) -> Option<Vec<(Option<String>, Value)>> {
    match v.get("buckets")? {
        Value::Array(a) => Some(a.iter().map(|x| (None, x.clone())).collect()),
        Value::Object(o) => Some(o.iter().map(|(k, x)| (Some(k.clone()), x.clone())).collect()),
        _ => None,
    }
}

fn cmp_node(cx: &CmpCx, n: &AggNode, depth: usize, a: &Value, b: &Value, kinds: &str) -> R {
    match &n.kind {
        AggKind::Metric(m) => cmp_metric(cx, m, a, b, kinds),
        AggKind::Filter { .. } => {
            cmp_exact_u64(kinds, "doc_count", a.get("doc_count"), b.get("doc_count"))?;
            cmp_aggs(cx, &n.subs, depth + 1, a, b, kinds)
        }
        AggKind::Range { keyed, field, .. } => {
            let int_field = &field.is_int();
            let (Some(mut la), Some(mut lb)) = (bucket_list(a), bucket_list(b)) else {
                return Err(diff(kinds, "shape", format!("no buckets: {a} vs {b}")));
            };
            if cx.mode == Mode::Meta || *keyed {
                // keyed results are maps: bring both into range order
                let from = |x: &Value| x.get("from").and_then(|f| f.as_f64()).unwrap_or(f64::NEG_INFINITY);
                la.sort_by(|x, y| from(&x.1).partial_cmp(&from(&y.1)).unwrap());
                lb.sort_by(|x, y| from(&x.1).partial_cmp(&from(&y.1)).unwrap());
            }
            // an empty document set may legitimately produce no buckets at all (not documented either way)
            let all_zero = |l: &Vec<(Option<String>, Value)>| l.iter().all(|x| x.1.get("doc_count").and_then(|c| c.as_u64()) == Some(0));
            if la.is_empty() != lb.is_empty() {
                if (la.is_empty() && all_zero(&lb)) || (lb.is_empty() && all_zero(&la)) {
                    cx.bump("range_empty_vs_zero_buckets");
                    return Ok(());
                }
            }
            if la.len() != lb.len() {
                return Err(diff(kinds, "shape", format!("number of range buckets {} vs {}: {a} vs {b}", la.len(), lb.len())));
            }
            for ((ka, x), (kb, y)) in la.iter().zip(lb.iter()) {
                let what = format!("bucket from={:?} to={:?}", x.get("from"), x.get("to"));
                // on integer columns a fractional bound may be reported as the equivalent integral bound (its ceiling)
                let ceil_if_int = |v: Option<&Value>| -> Option<Value> {
                    let v = v?;
                    if *int_field && cx.mode == Mode::Ref {
                        v.as_f64().map(|f| serde_json::json!(f.ceil()))
                    } else {
                        Some(v.clone())
                    }
                };
                let same = |p: Option<&Value>, q: Option<&Value>| cmp_opt_num(kinds, "", p, q, 0.0).is_ok();
                if !same(x.get("from"), y.get("from")) && !same(ceil_if_int(x.get("from")).as_ref(), y.get("from")) {
                    return Err(diff(kinds, "value", format!("{what} from: {:?} vs {:?}", x.get("from"), y.get("from"))));
                }
                if !same(x.get("to"), y.get("to")) && !same(ceil_if_int(x.get("to")).as_ref(), y.get("to")) {
                    return Err(diff(kinds, "value", format!("{what} to: {:?} vs {:?}", x.get("to"), y.get("to"))));
                }
                // rendered default keys are not compared in Ref mode (only custom keys are documented)
                let custom = x.get("__custom_key").and_then(|c| c.as_bool()).unwrap_or(cx.mode == Mode::Meta);
                if custom && x.get("key") != y.get("key") {
                    return Err(diff(kinds, "value", format!("{what} key {:?} vs {:?}", x.get("key"), y.get("key"))));
                }
                if *keyed && cx.mode == Mode::Meta && ka != kb {
                    return Err(diff(kinds, "value", format!("{what} map key {ka:?} vs {kb:?}")));
                }
                if *keyed && kb.as_deref() != y.get("key").and_then(|k| k.as_str()) {
                    return Err(diff(kinds, "shape", format!("{what}: keyed map key {kb:?} differs from the bucket's key {:?}", y.get("key"))));
                }
                cmp_exact_u64(kinds, &format!("{what} doc_count"), x.get("doc_count"), y.get("doc_count"))?;
                cmp_aggs(cx, &n.subs, depth + 1, x, y, kinds)?;
            }
            Ok(())
        }
        AggKind::Histogram { keyed, .. } | AggKind::DateHistogram { keyed, .. } => {
            let (Some(mut la), Some(mut lb)) = (bucket_list(a), bucket_list(b)) else {
                return Err(diff(kinds, "shape", format!("no buckets: {a} vs {b}")));
            };
            if *keyed {
                let key = |x: &Value| x.get("key").and_then(|f| f.as_f64()).unwrap_or(f64::NEG_INFINITY);
                la.sort_by(|x, y| key(&x.1).partial_cmp(&key(&y.1)).unwrap());
                lb.sort_by(|x, y| key(&x.1).partial_cmp(&key(&y.1)).unwrap());
            }
            if la.len() != lb.len() {
                let ks = |l: &Vec<(Option<String>, Value)>| l.iter().map(|x| format!("{}:{}", x.1["key"], x.1["doc_count"])).collect::<Vec<_>>().join(" ");
                return Err(diff(kinds, "shape", format!("number of histogram buckets {} vs {}: [{}] vs [{}]", la.len(), lb.len(), ks(&la), ks(&lb))));
            }
            for ((_, x), (_, y)) in la.iter().zip(lb.iter()) {
                let what = format!("bucket key={}", x["key"]);
                cmp_opt_num(kinds, &format!("{what} key"), x.get("key"), y.get("key"), 0.0)?;
                if x.get("key_as_string") != y.get("key_as_string") {
                    return Err(diff(kinds, "value", format!("{what} key_as_string {:?} vs {:?}", x.get("key_as_string"), y.get("key_as_string"))));
                }
                cmp_exact_u64(kinds, &format!("{what} doc_count"), x.get("doc_count"), y.get("doc_count"))?;
                cmp_aggs(cx, &n.subs, depth + 1, x, y, kinds)?;
            }
            Ok(())
        }
        AggKind::Terms { field, size, segment_size, order, min_doc_count, missing, .. } => {
            let eo = eff_order(order, *field, &n.subs, depth);
            let card = cx.card.get(field).copied().unwrap_or(0) + missing.is_some() as usize;
            let exact = eff_segment_size(*size, *segment_size) >= card;
            let (Some(la), Some(lb)) = (bucket_list(a), bucket_list(b)) else {
                return Err(diff(kinds, "shape", format!("no buckets: {a} vs {b}")));
            };
            let la: Vec<Value> = la.into_iter().map(|x| x.1).collect();
            let lb: Vec<Value> = lb.into_iter().map(|x| x.1).collect();
            if !exact {
                cx.bump("terms_inexact_nodes");
                if cx.mode == Mode::Meta {
                    return Ok(()); // rustdoc: results are approximate when segment_size cuts
                }
                return cmp_terms_inexact(cx, &eo, *size, min_doc_count.map(|m| m as u64).unwrap_or(1), a, b, &lb, kinds);
            }
            if min_doc_count == &Some(0) && (cx.mode == Mode::Ref || !(cx.zero_terms_top_level && depth == 0)) {
                // rustdoc: "When set to 0, this will return all terms in the field" (also terms of documents that do not
                // match): only the buckets with doc_count > 0 are compared with the reference
                cx.bump("terms_min_doc_count_0_ref_partial");
                let nz: Vec<Value> = lb.iter().filter(|x| x["doc_count"].as_u64() != Some(0)).cloned().collect();
                let nza: Vec<Value> = la.iter().filter(|x| x["doc_count"].as_u64() != Some(0)).cloned().collect();
                return cmp_terms_buckets(cx, n, depth, &eo, &nza, &nz, kinds, true);
            }
            cmp_terms_buckets(cx, n, depth, &eo, &la, &lb, kinds, false)?;
            let check_other = cx.mode == Mode::Meta || a.get("__sum_other_checked").and_then(|c| c.as_bool()).unwrap_or(true);
            if check_other {
                cmp_exact_u64(kinds, "sum_other_doc_count", a.get("sum_other_doc_count"), b.get("sum_other_doc_count"))?;
            }
            match (a.get("doc_count_error_upper_bound"), b.get("doc_count_error_upper_bound")) {
                (None, None) => {}
                (x, y) => cmp_exact_u64(kinds, "doc_count_error_upper_bound", x, y)?,
            }
            Ok(())
        }
        AggKind::Composite { .. } => {
            let (Some(la), Some(lb)) = (bucket_list(a), bucket_list(b)) else {
                return Err(diff(kinds, "shape", format!("no buckets: {a} vs {b}")));
            };
            if la.len() != lb.len() {
                let ks = |l: &Vec<(Option<String>, Value)>| l.iter().map(|x| format!("{}:{}", x.1["key"], x.1["doc_count"])).collect::<Vec<_>>().join(" ");
                return Err(diff(kinds, "shape", format!("number of composite buckets {} vs {}: [{}] vs [{}]", la.len(), lb.len(), ks(&la), ks(&lb))));
            }
            for ((_, x), (_, y)) in la.iter().zip(lb.iter()) {
                if !key_eq(&x["key"], &y["key"]) {
                    return Err(diff(kinds, "value", format!("composite key {} vs {}", x["key"], y["key"])));
                }
                cmp_exact_u64(kinds, &format!("bucket {} doc_count", x["key"]), x.get("doc_count"), y.get("doc_count"))?;
                cmp_aggs(cx, &n.subs, depth + 1, x, y, kinds)?;
            }
            match (a.get("after_key"), b.get("after_key")) {
                (None, None) => {}
                (Some(x), Some(y)) => {
                    // rustdoc AfterKey: "<type>:<value>"; which numeric type tag an integral value of an f64 column
                    // gets is not documented: numeric tags are compared by value
                    let norm = |v: &Value| -> Value {
                        match v {
                            Value::Object(o) => Value::Object(
                                o.iter()
                                    .map(|(k, e)| {
                                        let e2 = match e.as_str().and_then(|s| s.split_once(':')) {
                                            Some((t, val)) if cx.mode == Mode::Ref && ["i64", "u64", "f64"].contains(&t) => {
                                                serde_json::json!(format!("num:{}", val.parse::<f64>().unwrap_or(f64::NAN)))
                                            }
                                            _ => e.clone(),
                                        };
                                        (k.clone(), e2)
                                    })
                                    .collect(),
                            ),
                            _ => v.clone(),
                        }
                    };
                    if norm(x) != norm(y) {
                        return Err(diff(kinds, "value", format!("after_key {x} vs {y}")));
                    }
                }
                (x, y) => return Err(diff(kinds, "shape", format!("after_key {x:?} vs {y:?}"))),
            }
            Ok(())
        }
    }
}

fn order_key(eo: &EffOrder, bucket: &Value) -> f64 {
    match eo {
        EffOrder::Count { .. } => bucket["doc_count"].as_f64().unwrap_or(-1.0),
        EffOrder::Key { .. } => 0.0,
        EffOrder::Sub { target, .. } => sub_value(bucket, target).unwrap_or(f64::MIN),
    }
}

/// sorts every maximal run of adjacent buckets with (nearly) equal order key by bucket key
fn canon_runs(eo: &EffOrder, l: &[Value]) -> Vec<Value> {
    if matches!(eo, EffOrder::Key { .. }) {
        return l.to_vec();
    }
    let mut out: Vec<Value> = vec![];
    let mut i = 0;
    while i < l.len() {
        let mut j = i + 1;
        while j < l.len() && close_f(order_key(eo, &l[j - 1]), order_key(eo, &l[j])) {
            j += 1;
        }
        let mut run: Vec<Value> = l[i..j].to_vec();
        run.sort_by(|x, y| key_sort_cmp(&x["key"], &y["key"]));
        out.extend(run);
        i = j;
    }
    out
}

#[allow(clippy::too_many_arguments)]
fn cmp_terms_buckets(cx: &CmpCx, n: &AggNode, depth: usize, eo: &EffOrder, la: &[Value], lb: &[Value], kinds: &str, _partial: bool) -> R {
    let show = |l: &[Value]| l.iter().map(|x| format!("{}:{}", x["key"], x["doc_count"])).collect::<Vec<_>>().join(" ");
    if la.len() != lb.len() {
        return Err(diff(kinds, "shape", format!("number of terms buckets {} vs {}: [{}] vs [{}]", la.len(), lb.len(), show(la), show(lb))));
    }
    // is the right side ordered at all?
    if cx.mode == Mode::Ref {
        for w in lb.windows(2) {
            let (x, y) = (order_key(eo, &w[0]), order_key(eo, &w[1]));
            let bad = match eo {
                EffOrder::Key { asc } => {
                    let o = key_sort_cmp(&w[0]["key"], &w[1]["key"]);
                    if *asc {
                        o != std::cmp::Ordering::Less
                    } else {
                        o != std::cmp::Ordering::Greater
                    }
                }
                EffOrder::Count { asc } | EffOrder::Sub { asc, .. } => {
                    if close_f(x, y) {
                        false
                    } else if *asc {
                        x > y
                    } else {
                        x < y
                    }
                }
            };
            if bad {
                return Err(diff(kinds, "value", format!("terms buckets not in the requested order {eo:?}: [{}]", show(lb))));
            }
        }
    }
    let (ca, cb) = if cx.canon_ties || cx.mode == Mode::Ref { (canon_runs(eo, la), canon_runs(eo, lb)) } else { (la.to_vec(), lb.to_vec()) };
    for (x, y) in ca.iter().zip(cb.iter()) {
        if !key_eq(&x["key"], &y["key"]) {
            // same multiset in another order = the tie-order finding; anything else is a value difference
            let mut sa: Vec<&Value> = la.iter().map(|v| &v["key"]).collect();
            let mut sb: Vec<&Value> = lb.iter().map(|v| &v["key"]).collect();
            sa.sort_by(|p, q| key_sort_cmp(p, q));
            sb.sort_by(|p, q| key_sort_cmp(p, q));
            let same_set = sa.len() == sb.len() && sa.iter().zip(sb.iter()).all(|(p, q)| key_eq(p, q));
            let only_ties = same_set && {
                let ra = canon_runs(eo, la);
                let rb = canon_runs(eo, lb);
                ra.iter().zip(rb.iter()).all(|(p, q)| key_eq(&p["key"], &q["key"]))
            };
            let class = if only_ties { "tie_order" } else { "value" };
            return Err(diff(kinds, class, format!("terms buckets differ ({eo:?}): [{}] vs [{}]", show(la), show(lb))));
        }
        cmp_exact_u64(kinds, &format!("bucket {} doc_count", x["key"]), x.get("doc_count"), y.get("doc_count"))?;
        if x.get("key_as_string").is_some() && y.get("key_as_string").is_some() && x.get("key_as_string") != y.get("key_as_string") {
            return Err(diff(kinds, "value", format!("key_as_string {:?} vs {:?}", x.get("key_as_string"), y.get("key_as_string"))));
        }
        cmp_aggs(cx, &n.subs, depth + 1, x, y, kinds)?;
    }
    Ok(())
}

/// rustdoc "Document count error": with a segment cut the counts are approximate; what is documented:
/// returned counts never exceed the true counts, `doc_count_error_upper_bound` bounds the error per term (count desc),
/// `sum_other_doc_count` is what did not make it into the result
#[allow(clippy::too_many_arguments)]
fn cmp_terms_inexact(cx: &CmpCx, eo: &EffOrder, size: Option<u8>, mdc: u64, a: &Value, b: &Value, lb: &[Value], kinds: &str) -> R {
    let all = a.get("__all").and_then(|x| x.as_array()).cloned().unwrap_or_default();
    let total = a.get("__total").and_then(|x| x.as_u64()).unwrap_or(0);
    if lb.len() > eff_size(size) {
        return Err(diff(kinds, "bound", format!("{} buckets returned for size {}", lb.len(), eff_size(size))));
    }
    let err = b.get("doc_count_error_upper_bound").and_then(|x| x.as_u64());
    let mut shown = 0u64;
    for y in lb {
        let got = y["doc_count"].as_u64().unwrap_or(0);
        shown += got;
        let truth = all.iter().find(|t| key_eq(&t["key"], &y["key"])).and_then(|t| t["doc_count"].as_u64());
        // __all only lists keys passing min_doc_count in the reference: a key below it cannot be returned
        let Some(truth) = truth else {
            return Err(diff(kinds, "bound", format!("bucket {} (count {got}) does not exist in the reference / is below min_doc_count", y["key"])));
        };
        if got > truth {
            return Err(diff(kinds, "bound", format!("bucket {}: returned count {got} exceeds the true count {truth}", y["key"])));
        }
        if let (Some(err), EffOrder::Count { asc: false }) = (err, eo) {
            if truth - got > err {
                return Err(diff(kinds, "bound", format!("bucket {}: true {truth} - returned {got} > doc_count_error_upper_bound {err}", y["key"])));
            }
        }
    }
    if mdc <= 1 {
        let other = b.get("sum_other_doc_count").and_then(|x| x.as_u64()).unwrap_or(u64::MAX);
        if shown + other != total {
            return Err(diff(kinds, "bound", format!("sum of returned counts {shown} + sum_other_doc_count {other} != number of term occurrences {total}")));
        }
    }
    cx.bump("terms_inexact_checked");
    Ok(())
}

fn cmp_metric(cx: &CmpCx, m: &MetricSpec, a: &Value, b: &Value, kinds: &str) -> R {
    match &m.kind {
        MetricKind::Avg | MetricKind::Sum | MetricKind::Min | MetricKind::Max | MetricKind::Count => cmp_opt_num(kinds, "value", a.get("value"), b.get("value"), 0.0),
        MetricKind::Cardinality => {
            let (Some(x), Some(y)) = (a.get("value").and_then(|v| v.as_f64()), b.get("value").and_then(|v| v.as_f64())) else {
                return Err(diff(kinds, "value", format!("cardinality {a} vs {b}")));
            };
            // exact up to 100 distinct values; beyond: HLL (2^11 registers, "~2.3% relative error"), 4 sigma
            let ok = if x.min(y) <= 100.0 { x == y } else { (x - y).abs() <= 0.10 * x.max(y) };
            if ok {
                Ok(())
            } else {
                Err(diff(kinds, "value", format!("cardinality {x} vs {y}")))
            }
        }
        MetricKind::Stats => {
            cmp_exact_u64(kinds, "count", a.get("count"), b.get("count"))?;
            for f in ["sum", "min", "max", "avg"] {
                cmp_opt_num(kinds, f, a.get(f), b.get(f), 0.0)?;
            }
            Ok(())
        }
        MetricKind::ExtStats { .. } => {
            cmp_exact_u64(kinds, "count", a.get("count"), b.get("count"))?;
            // variance-like quantities lose absolute precision proportional to sum_of_squares / count
            let count = a.get("count").and_then(|c| c.as_f64()).unwrap_or(1.0).max(1.0);
            let sq = a.get("sum_of_squares").and_then(|c| c.as_f64()).unwrap_or(0.0);
            let vscale = sq / count;
            for f in ["sum", "min", "max", "avg", "sum_of_squares"] {
                cmp_opt_num(kinds, f, a.get(f), b.get(f), 0.0)?;
            }
            for f in ["variance", "variance_population", "variance_sampling"] {
                cmp_opt_num(kinds, f, a.get(f), b.get(f), vscale * 10.0)?;
            }
            // sqrt amplifies absolute errors near zero: compare the squares
            for f in ["std_deviation", "std_deviation_population", "std_deviation_sampling"] {
                let sqv = |v: Option<&Value>| v.and_then(|x| x.as_f64()).map(|x| serde_json::json!(x * x));
                match (a.get(f).map_or(true, |v| v.is_null()), b.get(f).map_or(true, |v| v.is_null())) {
                    (true, true) => {}
                    (false, false) => cmp_opt_num(kinds, f, sqv(a.get(f)).as_ref(), sqv(b.get(f)).as_ref(), vscale * 10.0)?,
                    _ => return Err(diff(kinds, "value", format!("{f}: {:?} vs {:?}", a.get(f), b.get(f)))),
                }
            }
            let (ba, bb) = (a.get("std_deviation_bounds").cloned().unwrap_or(Value::Null), b.get("std_deviation_bounds").cloned().unwrap_or(Value::Null));
            match (ba.is_null(), bb.is_null()) {
                (true, true) => Ok(()),
                (false, false) => {
                    for f in ["upper", "lower", "upper_sampling", "lower_sampling", "upper_population", "lower_population"] {
                        // |d sqrt(v)| can be large when v ~ 0: tolerance via sqrt of the variance tolerance
                        let tol_scale = (1e-9f64 * vscale.max(1.0) * 10.0).sqrt() * 8.0 / 1e-9;
                        cmp_opt_num(kinds, &format!("std_deviation_bounds.{f}"), ba.get(f), bb.get(f), tol_scale)?;
                    }
                    Ok(())
                }
                _ => Err(diff(kinds, "value", format!("std_deviation_bounds {ba} vs {bb}"))),
            }
        }
        MetricKind::Percentiles { keyed, .. } => {
            let entries = |v: &Value| -> Vec<(String, Value)> {
                match v.get("values") {
                    Some(Value::Object(o)) => o.iter().map(|(k, x)| (k.clone(), x.clone())).collect(),
                    Some(Value::Array(arr)) => arr.iter().map(|e| (e["key"].to_string(), e["value"].clone())).collect(),
                    _ => vec![],
                }
            };
            let (ea, eb) = (entries(a), entries(b));
            if ea.len() != eb.len() || ea.is_empty() {
                return Err(diff(kinds, "shape", format!("percentile entries {a} vs {b} (keyed {keyed})")));
            }
            let lookup = |l: &Vec<(String, Value)>, k: &str| -> Option<Value> {
                l.iter().find(|(kk, _)| kk == k || kk.parse::<f64>().ok() == k.parse::<f64>().ok()).map(|x| x.1.clone())
            };
            for (k, x) in &ea {
                let Some(y) = lookup(&eb, k) else {
                    return Err(diff(kinds, "shape", format!("percentile {k} missing on the right: {b}")));
                };
                if let (Some(lo), Some(hi)) = (x.get("__lo").and_then(|v| v.as_f64()), x.get("__hi").and_then(|v| v.as_f64())) {
                    // DDSketch (sketches-ddsketch Config::defaults): relative accuracy 1 % on the value at the rank
                    let Some(est) = y.as_f64() else {
                        return Err(diff(kinds, "bound", format!("percentile {k}: expected a value in [{lo}, {hi}], got {y}")));
                    };
                    let tol = 0.0101 * lo.abs().max(hi.abs()) + 1e-9;
                    if est < lo - tol || est > hi + tol {
                        return Err(diff(kinds, "bound", format!("percentile {k}: {est} outside [{lo}, {hi}] +- 1%")));
                    }
                } else if x.is_null() || y.is_null() {
                    if x.is_null() != y.is_null() {
                        return Err(diff(kinds, "value", format!("percentile {k}: {x} vs {y}")));
                    }
                } else {
                    // both are sketch answers over the same multiset of values: DDSketch merging adds bucket counts,
                    // so the answers agree (tolerance for the min/max clamping arithmetic)
                    cmp_opt_num(kinds, &format!("percentile {k}"), Some(x), Some(&y), 0.0)?;
                }
            }
            Ok(())
        }
        MetricKind::TopHits { .. } => {
            let (ha, hb) = (a.get("hits").and_then(|h| h.as_array()), b.get("hits").and_then(|h| h.as_array()));
            let (Some(ha), Some(hb)) = (ha, hb) else {
                return Err(diff(kinds, "shape", format!("hits {a} vs {b}")));
            };
            if ha.len() != hb.len() {
                return Err(diff(kinds, "value", format!("number of hits {} vs {}: {a} vs {b}", ha.len(), hb.len())));
            }
            for (x, y) in ha.iter().zip(hb.iter()) {
                if !json_num_eq(x, y) {
                    return Err(diff(kinds, "value", format!("hit {x} vs {y} in {a} vs {b}")));
                }
            }
            let _ = cx;
            Ok(())
        }
    }
}

/// structural equality with numbers compared numerically (1 == 1.0)
pub fn json_num_eq(a: &Value, b: &Value) -> bool {
    match (a, b) {
        (Value::Number(_), Value::Number(_)) => a.as_f64() == b.as_f64(),
        (Value::Array(x), Value::Array(y)) => x.len() == y.len() && x.iter().zip(y.iter()).all(|(p, q)| json_num_eq(p, q)),
        (Value::Object(x), Value::Object(y)) => x.len() == y.len() && x.iter().all(|(k, v)| y.get(k).map_or(false, |w| json_num_eq(v, w))),
        _ => a == b,
    }
}

/// number of buckets in a final result (the quantity `bucket_limit` is documented to bound: "Limits the maximum number
/// of buckets returned from an aggregation request")
pub fn count_buckets(nodes: &[AggNode], depth: usize, v: &Value) -> u64 {
    let mut total = 0;
    for (i, n) in nodes.iter().enumerate() {
        let Some(r) = v.get(level_name(depth, i)) else { continue };
        match &n.kind {
            AggKind::Metric(_) => {}
            AggKind::Filter { .. } => total += count_buckets(&n.subs, depth + 1, r),
            _ => {
                if let Some(l) = bucket_list(r) {
                    for (_, b) in l {
                        total += 1 + count_buckets(&n.subs, depth + 1, &b);
                    }
                }
            }
        }
    }
    total
}

pub fn strip_private(v: &Value) -> Value {
    match v {
        Value::Object(o) => {
            let mut m = Map::new();
            for (k, x) in o {
                if !k.starts_with("__") {
                    m.insert(k.clone(), strip_private(x));
                }
            }
            Value::Object(m)
        }
        Value::Array(a) => Value::Array(a.iter().map(strip_private).collect()),
        _ => v.clone(),
    }
}
