//! C19 — case types, proptest strategies and the byte decoder of the fuzz target.
//!
//! Everything here is *generation only*; the oracles live in `c19.rs`.
use proptest::prelude::*;
use proptest::sample::select;
use serde::{Deserialize, Serialize};

use crate::engine::idx;

/// A piece of text: `s` repeated `n` times. Keeps megabyte-long tokens small in replay files.
#[derive(Clone, Debug, Serialize, Deserialize, PartialEq)]
pub struct Seg {
    pub s: String,
    pub n: u32,
}
pub fn expand(segs: &[Seg]) -> String {
    let total: usize = segs.iter().map(|s| s.s.len() * s.n as usize).sum();
    let mut out = String::with_capacity(total);
    for s in segs {
        for _ in 0..s.n {
            out.push_str(&s.s);
        }
    }
    out
}

#[derive(Clone, Debug, Serialize, Deserialize, PartialEq)]
pub enum TokSpec {
    Simple,
    Whitespace,
    Raw,
    Ngram { min: u8, max: u8, prefix_only: bool },
    /// `simple` = one sequence of quantified atoms without alternation or context assertions (linear-time tokenization)
    Regex {
        pattern: String,
        #[serde(default)]
        simple: bool,
    },
    /// the text is turned into a valid facet path first (see `c19::facet_text`)
    Facet,
}
impl TokSpec {
    pub fn kind(&self) -> &'static str {
        match self {
            TokSpec::Simple => "simple",
            TokSpec::Whitespace => "whitespace",
            TokSpec::Raw => "raw",
            TokSpec::Ngram { .. } => "ngram",
            TokSpec::Regex { .. } => "regex",
            TokSpec::Facet => "facet",
        }
    }
}

#[derive(Clone, Debug, Serialize, Deserialize, PartialEq)]
pub enum FilterSpec {
    LowerCaser,
    AsciiFolding,
    RemoveLong { limit: u32 },
    AlphaNumOnly,
    StopWords { words: Vec<String> },
    /// built-in stop word list of a language (index into `LANGS`); languages without a list add no filter
    StopLang { lang: u8 },
    Stemmer { lang: u8 },
    SplitCompound { dict: Vec<String> },
}
impl FilterSpec {
    pub fn kind(&self) -> &'static str {
        match self {
            FilterSpec::LowerCaser => "lower",
            FilterSpec::AsciiFolding => "asciifold",
            FilterSpec::RemoveLong { .. } => "removelong",
            FilterSpec::AlphaNumOnly => "alphanum",
            FilterSpec::StopWords { .. } | FilterSpec::StopLang { .. } => "stopwords",
            FilterSpec::Stemmer { .. } => "stemmer",
            FilterSpec::SplitCompound { .. } => "splitcompound",
        }
    }
}
pub const NUM_LANGS: u8 = 18;

#[derive(Clone, Debug, Serialize, Deserialize, PartialEq)]
pub struct AnalyzerSpec {
    pub tok: TokSpec,
    pub filters: Vec<FilterSpec>,
}

// ------------------------------------------------------------------------------------------------
// character classes

const LATIN1: &[char] = &['é', 'É', 'ü', 'Ü', 'ñ', 'ç', 'Æ', 'ø', 'Å', 'à', 'ÿ', 'Ÿ', 'þ', 'Ð', 'µ', 'ª', '¿', '×', '\u{a0}', '\u{ad}', 'œ', 'Œ', 'ł'];
/// characters whose lower/upper-case mapping changes the byte length or is context dependent
const CASEMAP: &[char] = &[
    'İ', 'ı', 'ß', 'ẞ', 'ǅ', 'Ǆ', 'ǆ', 'Σ', 'σ', 'ς', '\u{212a}', /* KELVIN */ '\u{212b}', /* ANGSTROM */ 'ſ', 'ﬁ', 'ﬃ', 'ŉ', 'ǰ', 'ΐ', 'Ⱥ', 'ⱥ', 'Ȿ', 'ɐ', 'Ɐ', 'ᾼ', 'Ω', '\u{2126}', /* OHM */
    'Ⓐ', 'Ａ', 'ａ', 'Ꙁ', '𐐀', /* DESERET, 4 bytes, has lower case */ '𐐨',
];
const COMBINING: &[char] = &['\u{301}', '\u{308}', '\u{303}', '\u{327}', '\u{345}', '\u{20dd}', '\u{fe0f}', '\u{fe0e}', '\u{200d}', '\u{307}', '\u{3099}', '\u{1f3fd}'];
const CJK: &[char] = &['日', '本', '語', '中', '文', 'の', 'は', 'カ', 'ｶ', '한', '글', '々', '〇', '㈱', '𠀋', '　', '。', '、', '「', '１', '漢'];
const EMOJI: &[char] = &['😀', '👨', '👩', '👧', '👍', '❤', '🇩', '🇪', '🏳', '🌈', '1', '\u{20e3}', '©', '™', '☃'];
const CONTROLS: &[char] = &['\u{0}', '\u{1}', '\u{7}', '\u{8}', '\u{b}', '\u{c}', '\r', '\u{1b}', '\u{7f}', '\u{85}', '\u{feff}', '\u{200b}', '\u{200e}', '\u{202e}', '\u{2028}', '\u{2029}', '\u{fffd}', '\u{10ffff}', '\u{e000}'];
const PUNCT: &[char] = &[' ', ' ', ' ', '\t', '\n', ',', '.', '-', '_', '/', '<', '>', '&', '"', '\'', ';', '!', '(', ')', '+', '@', '#', '\\', '=', '|', '~', '^', '*', '?', ':', '[', ']', '{', '}', '$', '%', '`'];
const OTHER_ALNUM: &[char] = &['٣', '²', 'Ⅷ', '½', '٠', '৩', 'א', 'ب', 'я', 'Я', 'ж', 'λ', 'Λ', 'ğ', 'ş', 'ா', 'த', 'ก', 'ำ'];

/// literal words: repeated vocabulary (so that query terms occur several times), words for stemmers / stop word
/// lists / the compound splitter, and fixed sequences (ZWJ family, flags, keycaps, final sigma).
pub const POOL: &[&str] = &[
    "a", "ab", "abc", "hello", "Hello", "HELLO", "the", "The", "and", "is", "running", "runs", "dogs", "Dogs", "happiness", "foobar", "foo", "bar", "barfoo", "dampfschiff",
    "Dampfschiff", "dampf", "schiff", "abab", "x", "I", "İstanbul", "ISTANBUL", "ıi", "straße", "STRASSE", "Straße", "ǅemal", "ΟΔΟΣ", "οδός", "Σίσυφος", "ΣΑΣ", "Kelvin\u{212a}", "Å\u{212b}",
    "café", "cafe\u{301}", "CAFÉ", "naïve", "Häuser", "häuser", "fleuves", "Fleuves", "impassibles", "бегущий", "Бегущий", "книги", "çalışıyorum", "τρέχοντας", "كتابة", "الكتاب", "ஓடுகிறது", "日本", "日本語",
    "東京都", "ﬁnal", "ﬃ", "Ａｂｃ", "ⓐⓑ", "👨\u{200d}👩\u{200d}👧", "🇩🇪", "👍🏽", "❤\u{fe0f}", "1\u{fe0f}\u{20e3}", "🏳\u{fe0f}\u{200d}🌈", "e\u{301}\u{308}\u{303}", "a\u{20dd}", "<b>", "</b>", "&amp;", "a<b", "x>y",
    "AT&T", "\"q\"", "it's", "<script>", "&", "<", ">", "a1", "42", "3.14", "foo_bar", "foo-bar", "ǆ", "ß", "ẞ", "ſ", "ı", "K",
];
const SEPS: &[&str] = &[" ", " ", " ", " ", "  ", "\t", "\n", "\r\n", ", ", ". ", "-", "/", "\u{a0}", "\u{3000}", "\u{2028}", "\u{200b}", " & ", " < ", "> ", "\" ", "' ", "\u{0}", "\u{85}", ";", "_"];

fn ch() -> impl Strategy<Value = char> {
    prop_oneof![
        24 => (b'a'..=b'z').prop_map(|b| b as char),
        4 => (b'a'..=b'd').prop_map(|b| b as char),
        6 => (b'A'..=b'Z').prop_map(|b| b as char),
        4 => (b'0'..=b'9').prop_map(|b| b as char),
        8 => select(LATIN1),
        8 => select(CASEMAP),
        6 => select(COMBINING),
        7 => select(CJK),
        5 => select(EMOJI),
        4 => select(CONTROLS),
        6 => select(PUNCT),
        4 => select(OTHER_ALNUM),
        2 => any::<char>(),
    ]
}
fn word() -> impl Strategy<Value = String> {
    prop_oneof![
        5 => select(POOL).prop_map(|s| s.to_string()),
        4 => prop::collection::vec(ch(), 1..8).prop_map(|v| v.into_iter().collect::<String>()),
        1 => prop::collection::vec(ch(), 8..40).prop_map(|v| v.into_iter().collect::<String>()),
    ]
}
/// one segment: a few words / separators glued together, repeated `n` times
fn seg() -> impl Strategy<Value = Seg> {
    let piece = prop_oneof![5 => word(), 4 => select(SEPS).prop_map(|s| s.to_string())];
    let s = prop::collection::vec(piece, 1..4).prop_map(|v| v.concat());
    // repetition: mostly 1, sometimes a run (long single tokens when `s` has no separator)
    let n = prop_oneof![
        600 => Just(1u32),
        60 => 2u32..6,
        20 => 6u32..80,
        5 => 80u32..3000,
    ];
    (s, n).prop_map(|(s, n)| {
        let max_n = (400_000 / s.len().max(1)).max(1) as u32;
        Seg { s, n: n.min(max_n) }
    })
}
/// a run of one word that is at least 1 MiB long (a megabyte-long single token for most tokenizers)
fn huge_seg() -> impl Strategy<Value = Seg> {
    (word(), 0u32..1000).prop_map(|(s, extra)| {
        let n = (1_048_576 / s.len().max(1)) as u32 + 1 + extra;
        Seg { s, n }
    })
}
pub fn text(max_segs: usize, allow_huge: bool) -> BoxedStrategy<Vec<Seg>> {
    let normal = prop::collection::vec(seg(), 0..max_segs);
    if allow_huge {
        prop_oneof![
            4 => Just(vec![]),
            400 => normal,
            1 => (prop::collection::vec(seg(), 0..3), huge_seg(), prop::collection::vec(seg(), 0..3)).prop_map(|(mut a, h, b)| {
                a.push(h);
                a.extend(b);
                a
            }),
        ]
        .boxed()
    } else {
        prop_oneof![1 => Just(vec![]), 60 => normal].boxed()
    }
}

// ------------------------------------------------------------------------------------------------
// regex patterns (always valid for the `regex` crate; checked once at start-up by `c19::self_check`)
pub const RE_ATOMS: &[&str] = &[
    r"\w", r"[a-z]", r"[A-Za-z0-9]", r"\S", r"[^\s,;.]", r".", r"\pL", r"\p{Han}", r"[\p{L}\p{M}]", r"\d", r"\p{Lu}\p{Ll}", r"[^\x00-\x7f]", r"(?i:[a-zß])", r"\pN", r"[\p{Emoji}\x{200d}\x{fe0f}]",
    r"(?s:.)", r"[^a]", r"ab", r"(?:\pL\pM*)", r"(?i:straße|hello|σ)", r"\p{Greek}", r"[\x{0}-\x{1f}]", r"(?-u:[a-z])", r"\PL",
];
pub const RE_QUANTS: &[&str] = &["+", "+", "+", "*", "{1,3}", "{2}", "?", "", "+?", "{2,}", "*?"];
pub const RE_PRE: &[&str] = &["", "", "", "", r"\b", "^", "(?i)", "(?s)", r"\B", "(?x) "];
pub const RE_POST: &[&str] = &["", "", "", "", r"\b", "$", r"\B"];

/// (atom index, quantifier index) sequences joined by `|`; optional context-sensitive prefix/suffix
pub fn render_regex(alts: &[Vec<(u16, u16)>], pre: u16, post: u16, anchors: bool) -> String {
    let mut out = String::new();
    if anchors {
        out.push_str(RE_PRE[idx(pre, RE_PRE.len())]);
    }
    let mut body = String::new();
    for (i, seq) in alts.iter().enumerate() {
        if i > 0 {
            body.push('|');
        }
        for (a, q) in seq {
            body.push_str(RE_ATOMS[idx(*a, RE_ATOMS.len())]);
            body.push_str(RE_QUANTS[idx(*q, RE_QUANTS.len())]);
        }
    }
    if alts.len() > 1 {
        out.push_str("(?:");
        out.push_str(&body);
        out.push(')');
    } else {
        out.push_str(&body);
    }
    if anchors {
        out.push_str(RE_POST[idx(post, RE_POST.len())]);
    }
    out
}
/// pattern and whether it is "simple" (no alternation, no context assertion)
pub fn regex_spec(alts: &[Vec<(u16, u16)>], pre: u16, post: u16, anchors: bool) -> TokSpec {
    let pattern = render_regex(alts, pre, post, anchors);
    let no_ctx = !anchors || (RE_PRE[idx(pre, RE_PRE.len())].is_empty() && RE_POST[idx(post, RE_POST.len())].is_empty());
    TokSpec::Regex { pattern, simple: alts.len() == 1 && no_ctx }
}
fn regex_tok(anchors: bool) -> impl Strategy<Value = TokSpec> {
    let seq = prop::collection::vec((any::<u16>(), any::<u16>()), 1..4);
    let alts = prop_oneof![2 => prop::collection::vec(seq.clone(), 1..2), 1 => prop::collection::vec(seq, 2..4)];
    (alts, any::<u16>(), any::<u16>()).prop_map(move |(alts, pre, post)| regex_spec(&alts, pre, post, anchors))
}

// ------------------------------------------------------------------------------------------------
// analyzers
fn tok(anchors: bool) -> impl Strategy<Value = TokSpec> {
    let ngram = (
        prop_oneof![6 => 1u8..4, 2 => 4u8..8, 1 => 8u8..30],
        prop_oneof![4 => 0u8..4, 1 => 4u8..12, 1 => Just(0u8)],
        any::<bool>(),
    )
        .prop_map(|(min, extra, prefix_only)| TokSpec::Ngram { min, max: min.saturating_add(extra), prefix_only });
    prop_oneof![
        5 => Just(TokSpec::Simple),
        3 => Just(TokSpec::Whitespace),
        2 => Just(TokSpec::Raw),
        6 => ngram,
        4 => regex_tok(anchors),
        2 => Just(TokSpec::Facet),
    ]
}
const DICT: &[&str] = &["foo", "bar", "dampf", "schiff", "a", "ab", "b", "é", "日", "本", "語", "hello", "straße", "strasse", "i", "\u{307}", "ss", "s", "haus", "er", "c", "😀", "run", "ning", ""];
fn filter() -> impl Strategy<Value = FilterSpec> {
    let stop_word = prop_oneof![
        4 => select(POOL).prop_map(|s| s.to_string()),
        2 => select(POOL).prop_map(|s| s.to_lowercase()),
        1 => prop::collection::vec(ch(), 0..4).prop_map(|v| v.into_iter().collect::<String>()),
    ];
    let dict_word = prop_oneof![
        5 => select(DICT).prop_map(|s| s.to_string()),
        2 => select(POOL).prop_map(|s| s.to_string()),
        1 => prop::collection::vec(ch(), 1..3).prop_map(|v| v.into_iter().collect::<String>()),
    ];
    prop_oneof![
        5 => Just(FilterSpec::LowerCaser),
        4 => Just(FilterSpec::AsciiFolding),
        4 => prop_oneof![4 => 0u32..12, 2 => 12u32..60, 1 => Just(u32::MAX)].prop_map(|limit| FilterSpec::RemoveLong { limit }),
        3 => Just(FilterSpec::AlphaNumOnly),
        3 => prop::collection::vec(stop_word, 0..6).prop_map(|words| FilterSpec::StopWords { words }),
        2 => (0u8..NUM_LANGS).prop_map(|lang| FilterSpec::StopLang { lang }),
        5 => (0u8..NUM_LANGS).prop_map(|lang| FilterSpec::Stemmer { lang }),
        4 => prop::collection::vec(dict_word, 1..7).prop_map(|dict| FilterSpec::SplitCompound { dict }),
    ]
}
pub fn analyzer(anchors: bool) -> impl Strategy<Value = AnalyzerSpec> {
    let filters = prop_oneof![
        3 => Just(vec![]),
        6 => prop::collection::vec(filter(), 1..3),
        3 => prop::collection::vec(filter(), 3..6),
    ];
    (tok(anchors), filters).prop_map(|(tok, filters)| AnalyzerSpec { tok, filters })
}

// ------------------------------------------------------------------------------------------------
// snippet parameters
#[derive(Clone, Debug, Serialize, Deserialize, PartialEq)]
pub struct TermPick {
    /// index (fraction) into the token list of the analysed text
    pub token: u16,
    /// 0 = the analysed token text, 1 = its `to_lowercase()`, 2 = the raw slice of the text it points to
    pub mode: u8,
    /// index into `SCORES` (only used with `SnippetGenerator::new`)
    pub score: u8,
}
pub const SCORES: &[f32] = &[1.0, 1.0, 1.0, 0.5, 0.25, 3.0, 1e-30, 1e30, 0.0, -1.0, f32::INFINITY, f32::NAN];

#[derive(Clone, Debug, Serialize, Deserialize, PartialEq)]
pub struct SnipEval {
    pub picks: Vec<TermPick>,
    /// terms that need not occur in the text
    pub junk: Vec<String>,
    pub max_num_chars: u32,
    pub prefix: String,
    pub postfix: String,
    /// index mode only: 0 = boolean of term queries, 1 = phrase query (if >= 2 terms), 2 = single term query
    pub query_shape: u8,
    /// index mode only: use `snippet_from_doc` instead of `snippet(text)`
    pub from_doc: bool,
}
fn tag() -> impl Strategy<Value = String> {
    prop_oneof![
        3 => select(&["<em>", "</em>", "<span class=\"hl\">", "</span>", "[", "]", "**", "", "&", "<", ">", "\u{1}", "«", "»", "<b>", "</b>", "&lt;", "😀"][..]).prop_map(|s| s.to_string()),
        1 => prop::collection::vec(ch(), 0..5).prop_map(|v| v.into_iter().collect::<String>()),
    ]
}
pub fn snip_eval() -> impl Strategy<Value = SnipEval> {
    let pick = (any::<u16>(), prop_oneof![6 => Just(0u8), 2 => Just(1u8), 1 => Just(2u8)], prop_oneof![8 => 0u8..3, 2 => 0u8..(SCORES.len() as u8)])
        .prop_map(|(token, mode, score)| TermPick { token, mode, score });
    let max = prop_oneof![
        4 => 0u32..8,
        6 => 8u32..40,
        5 => 40u32..301,
        1 => Just(150u32),
        1 => prop_oneof![Just(u32::MAX), Just(1u32 << 20), 301u32..5000],
    ];
    (
        prop::collection::vec(pick, 0..6),
        prop::collection::vec(select(POOL).prop_map(|s| s.to_string()), 0..3),
        max,
        tag(),
        tag(),
        0u8..3,
        any::<bool>(),
    )
        .prop_map(|(picks, junk, max_num_chars, prefix, postfix, query_shape, from_doc)| SnipEval { picks, junk, max_num_chars, prefix, postfix, query_shape, from_doc })
}

// ------------------------------------------------------------------------------------------------
// byte decoder for the fuzz target: total (every byte string is some case)
pub struct Bytes<'a> {
    data: &'a [u8],
    pos: usize,
}
impl<'a> Bytes<'a> {
    pub fn new(data: &'a [u8]) -> Self {
        Bytes { data, pos: 0 }
    }
    pub fn u8(&mut self) -> u8 {
        let b = self.data.get(self.pos).copied().unwrap_or(0);
        self.pos += 1;
        b
    }
    pub fn u16(&mut self) -> u16 {
        (self.u8() as u16) << 8 | self.u8() as u16
    }
    pub fn rest(&mut self) -> &'a [u8] {
        let r = if self.pos < self.data.len() { &self.data[self.pos..] } else { &[] };
        self.pos = self.data.len();
        r
    }
    pub fn take(&mut self, n: usize) -> &'a [u8] {
        let start = self.pos.min(self.data.len());
        let end = (start + n).min(self.data.len());
        self.pos = end;
        &self.data[start..end]
    }
}
/// high bytes select "interesting" characters so that libFuzzer reaches them with single-byte mutations
fn table_char(b: u8) -> char {
    let tables: [&[char]; 8] = [LATIN1, CASEMAP, COMBINING, CJK, EMOJI, CONTROLS, OTHER_ALNUM, PUNCT];
    let t = tables[((b >> 4) & 7) as usize];
    t[(b & 15) as usize % t.len()]
}
pub fn decode_text(bytes: &[u8], lossy_utf8: bool) -> String {
    if lossy_utf8 {
        String::from_utf8_lossy(bytes).into_owned()
    } else {
        bytes.iter().map(|&b| if b < 0x80 { b as char } else { table_char(b) }).collect()
    }
}
pub fn decode_analyzer(b: &mut Bytes, anchors: bool) -> AnalyzerSpec {
    let sel = b.u8();
    let tok = match sel % 8 {
        0 | 6 => TokSpec::Simple,
        1 => TokSpec::Whitespace,
        2 => TokSpec::Raw,
        3 | 7 => {
            let p = b.u8();
            let min = 1 + (p & 7);
            TokSpec::Ngram { min, max: min + ((p >> 3) & 7), prefix_only: p & 0x40 != 0 }
        }
        4 => {
            let n_alt = 1 + (b.u8() % 3) as usize;
            let mut alts = vec![];
            for _ in 0..n_alt {
                let n_seq = 1 + (b.u8() % 3) as usize;
                alts.push((0..n_seq).map(|_| ((b.u8() as u16) << 8, (b.u8() as u16) << 8)).collect::<Vec<_>>());
            }
            let pre = (b.u8() as u16) << 8;
            let post = (b.u8() as u16) << 8;
            regex_spec(&alts, pre, post, anchors)
        }
        _ => TokSpec::Facet,
    };
    let nf = (sel >> 3) as usize % 5;
    let mut filters = vec![];
    for _ in 0..nf {
        let f = b.u8();
        let arg = b.u8();
        filters.push(match f % 8 {
            0 => FilterSpec::LowerCaser,
            1 => FilterSpec::AsciiFolding,
            2 => FilterSpec::RemoveLong { limit: arg as u32 % 64 },
            3 => FilterSpec::AlphaNumOnly,
            4 => FilterSpec::StopWords { words: (0..(arg % 4)).map(|i| POOL[(arg as usize * 7 + i as usize * 13) % POOL.len()].to_string()).collect() },
            5 => FilterSpec::StopLang { lang: arg % NUM_LANGS },
            6 => FilterSpec::Stemmer { lang: arg % NUM_LANGS },
            _ => FilterSpec::SplitCompound { dict: (0..1 + (arg % 5)).map(|i| DICT[(arg as usize / 5 + i as usize * 3) % DICT.len()].to_string()).collect() },
        });
    }
    AnalyzerSpec { tok, filters }
}
pub fn decode_eval(b: &mut Bytes) -> SnipEval {
    let n = (b.u8() % 5) as usize;
    let picks = (0..n)
        .map(|_| {
            let token = b.u16();
            let m = b.u8();
            TermPick { token, mode: [0, 0, 0, 1, 2][(m % 5) as usize], score: (m >> 4) % SCORES.len() as u8 }
        })
        .collect();
    let m = b.u16() as u32;
    let max_num_chars = if m >= 0xff00 { u32::MAX } else { m % 320 };
    let tags = ["<b>", "</b>", "<em>", "</em>", "[", "]", "", "&", "<", ">", "«", "😀"];
    let t = b.u8();
    SnipEval { picks, junk: vec![], max_num_chars, prefix: tags[(t & 15) as usize % tags.len()].to_string(), postfix: tags[(t >> 4) as usize % tags.len()].to_string(), query_shape: 0, from_doc: false }
}
