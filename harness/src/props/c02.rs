//! C02 — a commit publishes exactly the sequential effect of the operations before it.
use proptest::prelude::*;
use serde::{Deserialize, Serialize};
use serde_json::json;

use crate::engine::*;
use crate::hist::*;

pub fn def() -> PropDef {
    PropDef {
        id: "C02",
        level: "exploration",
        rule: "seq: generated histories (<= 60 ops over add, delete_term(uid|group), delete_query(range|boolean), run(batch), delete_all, commit, prepare+payload+commit, prepare+abort, rollback, merge(subset), wait_merging_threads, drop+reopen writer, reopen Index, gc) x configuration (1..8 threads, flush-every-N hook, merge policy, sorted/unsorted, Ram/Mmap/Sim directory), executed against tantivy and a pure sequential model; after EVERY commit/abort/rollback/merge/reopen a fresh searcher must equal the model (every uid once; stored, fast and inverted fields intact) and the opstamp laws must hold. Non-trivial = the history has a delete hitting a document added in the same transaction, or a rollback/abort after uncommitted work, or >= 2 commits with a merge between them, or >= 2 threads producing >= 2 segments in one transaction; distinct by hash(history, cfg). producers: 2-4 threads share &IndexWriter with disjoint uid/group spaces, each producer's final content must equal the sequential replay of its own program. shared_keys: 2-4 producers add to and delete by the SAME three group terms (single calls and run() batches, incl. delete-then-add upserts), held at the stamped/before-send pause points; intervals on a logical clock; the committed content must satisfy the necessary conditions of linearizability per key (a document whose add returned before a delete was called is gone; a missing document has a delete not entirely before its add; no survivor precedes a dead document of the same key), opstamps unique and ordered like real time, batch opstamps contiguous. late_delete: rounds of (a few adds cut into several segments under an aggressive merge policy, prepare_commit + commit_future, a delete_term stamped while the commit is still queued behind merge bookkeeping, wait), then wait_merging_threads: the delete belongs to the NEXT transaction, so the document stays visible until the next commit whatever merge was scheduled in between; non-trivial = a late delete hit a live document while >= 2 segments were uncommitted. late_push: a delete_term is held between drawing its opstamp and entering the delete queue (pause point) while another thread adds documents of the same term, which are cut into their own segments; after the commit the documents stamped after the delete are alive, those stamped before it are gone.",
        assumptions: vec![
            "worker / updater / merge thread interleavings are those the OS produces, steered by the flush-every-N hook; the verdict never depends on them",
            "documents: uid (u64 fast+indexed+stored), group (raw string), body (text), num (i64 fast+indexed+stored)",
        ],
        subs: vec![Box::new(Seq), Box::new(Producers), Box::new(super::c02_shared::Shared), Box::new(LateDelete), Box::new(LatePush)],
    }
}

#[derive(Clone, Debug, Serialize, Deserialize)]
pub struct SeqCase {
    pub cfg: HistCfg,
    pub ops: Vec<Op>,
}
pub struct Seq;
impl Sub for Seq {
    type Case = SeqCase;
    fn name(&self) -> &'static str {
        "seq"
    }
    fn cases(&self, tier: Tier) -> u32 {
        tier.pick(2400, 30000)
    }
    fn max_shrink_iters(&self) -> u32 {
        1500
    }
    fn strategy(&self, _tier: Tier) -> BoxedStrategy<SeqCase> {
        static DIRS: [DirKind; 4] = [DirKind::Ram, DirKind::Ram, DirKind::Mmap, DirKind::Sim];
        (cfg_strategy(&DIRS), prop::collection::vec(op_strategy(true), 1..60)).prop_map(|(cfg, ops)| SeqCase { cfg, ops }).boxed()
    }
    fn mandatory_labels(&self, _t: Tier) -> Vec<&'static str> {
        vec!["same_txn_delete_hit", "rollback_with_work", "abort_with_work", "merge_between_commits", "threads>=2", "segments>=3", "flush_every", "sorted", "dir:Mmap", "dir:Sim", "reopen", "delete_all", "memory_budget_cut"]
    }
    fn run(&self, c: &SeqCase, cx: &Ctx) -> CaseResult {
        let mut env = Env::new(c.cfg.clone())?;
        env.check_quiescence = false; // the no-orphan predicate belongs to C10 (same histories, props/c10.rs)
        env.allow_big = true;
        for op in &c.ops {
            env.apply(op, cx)?;
        }
        env.finish(cx)?;
        let st = &env.stats;
        cx.label_if(st.same_txn_delete_hits > 0, "same_txn_delete_hit");
        cx.label_if(st.rollbacks_with_work > 0, "rollback_with_work");
        cx.label_if(st.aborts_with_work > 0, "abort_with_work");
        cx.label_if(st.merges_between_commits > 0, "merge_between_commits");
        cx.label_if(st.merges > 0, "merge");
        cx.label_if(c.cfg.threads >= 2, "threads>=2");
        cx.label_if(st.max_segments >= 3, "segments>=3");
        cx.label_if(c.cfg.flush_every > 0, "flush_every");
        cx.label_if(c.cfg.sorted.is_some(), "sorted");
        cx.label(&format!("dir:{:?}", c.cfg.dir));
        cx.label(&format!("policy:{:?}", match c.cfg.policy { Policy::LogSmall(_) => "LogSmall".to_string(), p => format!("{p:?}") }));
        cx.label_if(st.reopen > 0, "reopen");
        cx.label_if(st.delete_all > 0, "delete_all");
        cx.label_if(st.big_runs > 0, "memory_budget_cut");
        cx.label_if(st.commits_during_merge_end > 0, "commit_held_while_merge_ends");
        cx.label_if(c.cfg.codec_switch && st.reopen > 0, "codec_switched");
        cx.count("commits_verified", st.commits as u64);
        let nontrivial = st.same_txn_delete_hits > 0
            || st.rollbacks_with_work > 0
            || st.aborts_with_work > 0
            || (st.commits >= 2 && st.merges > 0)
            || (c.cfg.threads >= 2 && st.max_segments >= 2);
        if nontrivial {
            cx.nontrivial(fp(c));
        }
        cx.sample(|| json!({"sub": "seq", "cfg": c.cfg, "ops": c.ops}));
        Ok(())
    }
}

// ------------------------------------------------------------------------------------------------
#[derive(Clone, Debug, Serialize, Deserialize)]
pub enum POp {
    Add(AddSpec),
    /// delete one of this producer's own earlier documents
    DelOwn(u16),
    /// delete this producer's own group term
    DelOwnGroup,
    Batch(Vec<(bool, AddSpec)>),
}
#[derive(Clone, Debug, Serialize, Deserialize)]
pub struct ProducersCase {
    pub cfg: HistCfg,
    pub programs: Vec<Vec<POp>>,
    /// commit after each round of the controller (number of rounds the programs are split into)
    pub rounds: u8,
}
pub struct Producers;
impl Sub for Producers {
    type Case = ProducersCase;
    fn name(&self) -> &'static str {
        "producers"
    }
    fn cases(&self, tier: Tier) -> u32 {
        tier.pick(320, 4000)
    }
    fn shards(&self, _t: Tier) -> usize {
        8
    }
    fn max_shrink_iters(&self) -> u32 {
        300
    }
    fn strategy(&self, _tier: Tier) -> BoxedStrategy<ProducersCase> {
        static DIRS: [DirKind; 2] = [DirKind::Ram, DirKind::Sim];
        let pop = prop_oneof![
            6 => add_strategy().prop_map(POp::Add),
            2 => any::<u16>().prop_map(POp::DelOwn),
            1 => Just(POp::DelOwnGroup),
            2 => prop::collection::vec((any::<bool>(), add_strategy()), 0..5).prop_map(POp::Batch),
        ];
        (cfg_strategy(&DIRS), prop::collection::vec(prop::collection::vec(pop, 1..40), 2..5), 1u8..4)
            .prop_map(|(cfg, programs, rounds)| ProducersCase { cfg, programs, rounds })
            .boxed()
    }
    fn run(&self, c: &ProducersCase, cx: &Ctx) -> CaseResult {
        crate::props::c02_producers::run(c, cx)
    }
}

// ------------------------------------------------------------------------------------------------
/// Rounds of (adds; prepare_commit + commit_future; delete_term stamped while the commit task is still queued; wait),
/// under an aggressive merge policy: a merge of still-uncommitted segments scheduled between the prepared opstamp and
/// the execution of the commit task must not publish the late delete together with this commit.
#[derive(Clone, Debug, Serialize, Deserialize)]
pub struct LateDeleteCase {
    pub cfg: HistCfg,
    /// per round: the adds, the raw selector of the late delete, whether merges are awaited after the round
    pub rounds: Vec<(Vec<AddSpec>, u16, bool)>,
}
pub struct LateDelete;
impl Sub for LateDelete {
    type Case = LateDeleteCase;
    fn name(&self) -> &'static str {
        "late_delete"
    }
    fn cases(&self, tier: Tier) -> u32 {
        tier.pick(640, 12000)
    }
    fn shards(&self, _t: Tier) -> usize {
        8
    }
    fn max_shrink_iters(&self) -> u32 {
        200
    }
    fn strategy(&self, _tier: Tier) -> BoxedStrategy<LateDeleteCase> {
        let round = (prop::collection::vec(add_strategy(), 2..9), any::<u16>(), prop::bool::weighted(0.5));
        (2u8..=4, 1u16..=2, 2u8..4, prop::sample::select(&[DirKind::Ram, DirKind::Sim][..]), prop::collection::vec(round, 2..9))
            .prop_map(|(threads, flush_every, min_segs, dir, rounds)| LateDeleteCase {
                cfg: HistCfg { threads, flush_every, policy: Policy::LogSmall(min_segs), sorted: None, dir, tiny_blocks: false, short_writes: false, codec_switch: false, jitter: 0 },
                rounds,
            })
            .boxed()
    }
    fn mandatory_labels(&self, _t: Tier) -> Vec<&'static str> {
        vec!["late_delete_hit", "merge", "segments>=3"]
    }
    fn run(&self, c: &LateDeleteCase, cx: &Ctx) -> CaseResult {
        let mut env = Env::new(c.cfg.clone())?;
        env.check_quiescence = false;
        let mut hits = 0;
        for (adds, raw, wait) in &c.rounds {
            for a in adds {
                env.apply(&Op::Add(a.clone()), cx)?;
            }
            let before = env.pending_len();
            env.apply(&Op::CommitThenDelete(*raw), cx)?;
            if env.pending_len() < before {
                hits += 1;
            }
            if *wait {
                // the merges in flight end here; their outcome is verified against the model
                env.apply(&Op::WaitMerges, cx)?;
            }
        }
        env.apply(&Op::WaitMerges, cx)?;
        env.finish(cx)?;
        let merged = env.largest_committed_segment()? > c.cfg.flush_every as u32;
        let st = &env.stats;
        cx.label_if(hits > 0, "late_delete_hit");
        cx.label_if(merged, "merge");
        cx.label_if(st.max_segments >= 3, "segments>=3");
        if hits > 0 && merged {
            cx.nontrivial(crate::engine::fnv(&serde_json::to_vec(c).unwrap()));
        }
        cx.sample(|| json!({"sub": "late_delete", "cfg": c.cfg, "rounds": c.rounds.len(), "late_delete_hits": hits, "policy_merged": merged}));
        Ok(())
    }
}

// ------------------------------------------------------------------------------------------------
/// A delete that has drawn its opstamp but is not in the delete queue yet (the producer thread is held at the
/// `delete_query:stamped` point) while another producer adds documents of the same term, which are cut into their own
/// segment before the delete arrives: "a delete removes only documents that were added before it" - the documents stamped
/// after the delete stay, those stamped before it go.
pub struct LatePushState {
    reached: std::sync::atomic::AtomicBool,
    release: std::sync::atomic::AtomicBool,
}
thread_local! {
    static LATE_PUSH: std::cell::RefCell<Option<std::sync::Arc<LatePushState>>> = const { std::cell::RefCell::new(None) };
}
pub fn late_push_point(name: &'static str) {
    if name != "delete_query:stamped" {
        return;
    }
    LATE_PUSH.with(|l| {
        if let Some(st) = l.borrow().as_ref() {
            st.reached.store(true, std::sync::atomic::Ordering::SeqCst);
            let deadline = std::time::Instant::now() + std::time::Duration::from_millis(150);
            while !st.release.load(std::sync::atomic::Ordering::SeqCst) && std::time::Instant::now() < deadline {
                std::thread::yield_now();
            }
        }
    });
}
#[derive(Clone, Debug, Serialize, Deserialize)]
pub struct LatePushCase {
    pub before: u8,
    pub after: u8,
    pub threads: u8,
}
pub struct LatePush;
impl Sub for LatePush {
    type Case = LatePushCase;
    fn name(&self) -> &'static str {
        "late_push"
    }
    fn cases(&self, tier: Tier) -> u32 {
        tier.pick(48, 600)
    }
    fn shards(&self, _t: Tier) -> usize {
        8
    }
    fn strategy(&self, _tier: Tier) -> BoxedStrategy<LatePushCase> {
        (1u8..4, 1u8..4, 1u8..3).prop_map(|(before, after, threads)| LatePushCase { before, after, threads }).boxed()
    }
    fn mandatory_labels(&self, _t: Tier) -> Vec<&'static str> {
        vec!["delete_held_between_stamp_and_queue"]
    }
    fn run(&self, c: &LatePushCase, cx: &Ctx) -> CaseResult {
        use std::sync::atomic::Ordering;
        crate::props::c02_producers::install_callback();
        let cfg = HistCfg { threads: c.threads, flush_every: 1, policy: Policy::NoMerge, sorted: None, dir: DirKind::Ram, tiny_blocks: false, short_writes: false, codec_switch: false, jitter: 0 };
        let mut env = Env::new(cfg)?;
        env.check_quiescence = false;
        // documents of group 0 added (and returned) before the delete is called
        for k in 0..c.before {
            env.apply(&Op::Add(AddSpec { grp: 0, words: vec![k % NUM_WORDS], num: k as i16 }), cx)?;
        }
        let st = std::sync::Arc::new(LatePushState { reached: Default::default(), release: Default::default() });
        let grp_field = env.f.grp;
        let (f_uid, f_grp, f_body, f_num) = (env.f.uid, env.f.grp, env.f.body, env.f.num);
        let mut added: Vec<(u64, u64, DocRec)> = vec![];
        let mut reached = false;
        let delete_opstamp: u64 = std::thread::scope(|scope| -> Result<u64, Failure> {
            let w = env.writer.as_ref().unwrap();
            let st2 = st.clone();
            let deleter = std::thread::Builder::new()
                .name("late-deleter".into())
                .spawn_scoped(scope, move || {
                    LATE_PUSH.with(|l| *l.borrow_mut() = Some(st2));
                    let o = w.delete_term(tantivy::Term::from_field_text(grp_field, "g0"));
                    LATE_PUSH.with(|l| *l.borrow_mut() = None);
                    o
                })
                .expect("spawn");
            let t0 = std::time::Instant::now();
            while !st.reached.load(Ordering::SeqCst) && t0.elapsed() < std::time::Duration::from_millis(500) {
                std::thread::yield_now();
            }
            reached = st.reached.load(Ordering::SeqCst);
            // the delete has its opstamp; these documents get later ones, and their segments are cut at once
            for k in 0..c.after {
                let uid = 9_000_000 + k as u64;
                let rec = DocRec { grp: 0, words: vec![k % NUM_WORDS, 1], num: 100 + k as i64 };
                let mut d = tantivy::TantivyDocument::new();
                d.add_u64(f_uid, uid);
                d.add_text(f_grp, "g0");
                d.add_text(f_body, rec.body());
                d.add_i64(f_num, rec.num);
                let o = w.add_document(d).or_fail("add_failed")?;
                added.push((uid, o, rec));
            }
            std::thread::sleep(std::time::Duration::from_millis(25));
            st.release.store(true, Ordering::SeqCst);
            deleter.join().map_err(|_| Failure::new("panic:deleter", ""))
        })?;
        cx.label_if(reached, "delete_held_between_stamp_and_queue");
        // model: the delete removes what was added before it, nothing stamped after it
        let gone: Vec<u64> = env.pending.iter().filter(|(_, r)| r.grp == 0).map(|(u, _)| *u).collect();
        for u in gone {
            env.pending.remove(&u);
        }
        let mut later = 0;
        for (uid, o, rec) in added {
            if o > delete_opstamp {
                env.pending.insert(uid, rec);
                later += 1;
            }
            env.all_uids.push(uid);
        }
        cx.label_if(later > 0, "documents_stamped_after_the_held_delete");
        env.last_opstamp = None;
        env.dirty = true;
        env.apply(&Op::Commit, cx).map_err(|fl| {
            if fl.sig.starts_with("content_") {
                Failure::new("delete_removed_document_stamped_after_it", format!("delete_term(g0) drew opstamp {delete_opstamp} and reached the delete queue after documents with later opstamps had been cut into their segments: {}", fl.detail))
            } else {
                fl
            }
        })?;
        if reached && later > 0 {
            cx.nontrivial(crate::engine::fnv(&serde_json::to_vec(c).unwrap()));
        }
        cx.sample(|| json!({"sub": "late_push", "before": c.before, "after": c.after, "threads": c.threads}));
        Ok(())
    }
}
