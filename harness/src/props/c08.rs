//! C08 — fast fields return exactly the values that were indexed.
//!
//! Two layers (DESIGN §3 C08):
//!  * `columnar`  (c08_columnar.rs): the columnar crate directly — ColumnarWriter -> serialize ->
//!    ColumnarReader -> merge_columnar (Stack / Shuffled with alive bitsets) against a Vec model;
//!  * `tantivy`   (c08_tantivy.rs): schema fast fields through IndexWriter -> SegmentReader::fast_fields()
//!    after indexing and after IndexWriter::merge with deletes (optionally in a sorted index).
//!
//! This file holds what both layers share: the deterministic value generator, the frozen
//! order-preserving encodings and the generic column-vs-model comparison.
use std::fmt::Debug;
use std::net::Ipv6Addr;
use std::ops::RangeInclusive;

use serde::{Deserialize, Serialize};
use tantivy_columnar::{BytesColumn, Cardinality, Column, ColumnBlockAccessor, ColumnIndex, DynamicColumn};

use crate::engine::*;
use crate::{ensure, fail};

pub fn def() -> PropDef {
    PropDef {
        id: "C08",
        level: "exploration",
        rule: "columnar: 1-5 generated tables (row counts 0,1,63-65,511-513,1023-1025,5119-5300 (sparse/dense switch of the optional index),65535-65537,131073; 1-5 columns of kinds i64/u64/f64/mixed-numeric/bool/date/ip/bytes/str; presence patterns full/bernoulli 1e-5..1/evenly spread exact counts/prefix/suffix/all-but-one/explicit rows/runs; 1..n values per row; value profiles constant/linear/linear+noise/piecewise-linear per 512 values/gcd-structured/small range/full range/clusters/extremes) written through ColumnarWriter (optionally with a row permutation at serialisation and forced column types), read back through ColumnarReader and compared row by row with the model; value-range lookups over generated value and doc ranges against brute force; then merged with merge_columnar by Stack or by a generated Shuffle (permutation + deletions, alive bitsets present or None) and compared with the rearranged model. tantivy: generated documents over a schema with u64/i64/f64/bool/date(precision)/ip/bytes/raw str/tokenised text/JSON fast fields, 1-4 segments, compared per stored uid with SegmentReader::fast_fields() after indexing and after deletes + IndexWriter::merge, optionally in an index sorted by a fast field. non-trivial = some column crosses a 64/512/65536 row (or 512-value) boundary, or is optional/multivalued with 0 < density < 1, or a merge removed rows; distinct by case fingerprint.",
        assumptions: vec![
            "which numeric column type the writer or the merge picks after coercion is not asserted, only that it holds every added value exactly; integers that an f64 column cannot hold are the known finding `numeric_coercion_inexact`: while it is open such columns are compared modulo IEEE round-to-nearest (`as f64`) and counted in excluded_by_construction",
            "f64 values are NaN-free; value-range lookups whose bound is a zero of the other sign than a stored zero are skipped (numeric vs. bit order of +-0.0 is not fixed by the property) and counted",
            "str/bytes columns written with sort_values_within_row (the facet mode) are expected sorted by term within a row; all other multi-valued columns in insertion order",
            "date fast fields of a schema with a precision are expected truncated towards zero to that precision (DateTime::truncate)",
            "min_value/max_value are only required to bound the values, not to be attained",
        ],
        subs: vec![Box::new(super::c08_columnar::Columnar), Box::new(super::c08_tantivy::Through)],
    }
}

// ------------------------------------------------------------------------------------------------
// deterministic generator (splitmix64): values of large tables are a pure function of the case
#[derive(Clone, Debug)]
pub struct Sm64(pub u64);
impl Sm64 {
    pub fn new(seed: u64) -> Sm64 {
        Sm64(seed ^ 0x9E37_79B9_7F4A_7C15)
    }
    pub fn next(&mut self) -> u64 {
        self.0 = self.0.wrapping_add(0x9E37_79B9_7F4A_7C15);
        let mut z = self.0;
        z = (z ^ (z >> 30)).wrapping_mul(0xBF58_476D_1CE4_E5B9);
        z = (z ^ (z >> 27)).wrapping_mul(0x94D0_49BB_1331_11EB);
        z ^ (z >> 31)
    }
    /// uniform in 0..n (n = 0 -> 0)
    pub fn below(&mut self, n: u64) -> u64 {
        ((self.next() as u128 * n as u128) >> 64) as u64
    }
    pub fn ppm(&mut self, p: u32) -> bool {
        p > 0 && self.below(1_000_000) < p as u64
    }
}

pub const SIGN: u64 = 1u64 << 63;

// ------------------------------------------------------------------------------------------------
// frozen order-preserving encodings (the on-disk contract; re-implemented, DESIGN §2.6)
pub fn key_i64(x: i64) -> u128 {
    ((x as u64) ^ SIGN) as u128
}
pub fn inv_key_i64(k: u128) -> i64 {
    ((k as u64) ^ SIGN) as i64
}
pub fn key_f64_bits(bits: u64) -> u128 {
    (if bits & SIGN != 0 { !bits } else { bits | SIGN }) as u128
}
pub fn inv_key_f64(k: u128) -> f64 {
    let k = k as u64;
    f64::from_bits(if k & SIGN != 0 { k & !SIGN } else { !k })
}

/// A value of the model.  `F` holds the bit pattern (so that -0.0 != 0.0 and equality is bit equality).
#[derive(Clone, Debug, PartialEq, Eq, PartialOrd, Ord)]
pub enum Val {
    I(i64),
    U(u64),
    F(u64),
    B(bool),
    D(i64),
    Ip(u128),
    /// bytes and str terms
    Bin(Vec<u8>),
}

/// type category of a column (columns of one name and one category are one logical column)
#[derive(Clone, Copy, Debug, PartialEq, Eq, PartialOrd, Ord, Hash, Serialize, Deserialize)]
pub enum Cat {
    Num,
    Bytes,
    Str,
    Bool,
    Ip,
    Date,
}
pub fn cat_of_dynamic(c: &DynamicColumn) -> Cat {
    match c {
        DynamicColumn::I64(_) | DynamicColumn::U64(_) | DynamicColumn::F64(_) => Cat::Num,
        DynamicColumn::Bool(_) => Cat::Bool,
        DynamicColumn::IpAddr(_) => Cat::Ip,
        DynamicColumn::DateTime(_) => Cat::Date,
        DynamicColumn::Bytes(_) => Cat::Bytes,
        DynamicColumn::Str(_) => Cat::Str,
    }
}

/// flat model of one logical column: row r holds vals[offsets[r]..offsets[r+1]]
#[derive(Clone, Debug, Default)]
pub struct ColModel {
    pub offsets: Vec<u32>,
    pub vals: Vec<Val>,
}
impl ColModel {
    pub fn empty(rows: u32) -> ColModel {
        ColModel { offsets: vec![0; rows as usize + 1], vals: vec![] }
    }
    pub fn new() -> ColModel {
        ColModel { offsets: vec![0], vals: vec![] }
    }
    pub fn rows(&self) -> u32 {
        self.offsets.len() as u32 - 1
    }
    pub fn row(&self, r: u32) -> &[Val] {
        &self.vals[self.offsets[r as usize] as usize..self.offsets[r as usize + 1] as usize]
    }
    pub fn push_row(&mut self, vals: impl IntoIterator<Item = Val>) {
        self.vals.extend(vals);
        self.offsets.push(self.vals.len() as u32);
    }
    pub fn num_vals(&self) -> usize {
        self.vals.len()
    }
}

/// model converted to order-preserving keys in the domain of the column that was actually found
pub struct Exp {
    pub rows: u32,
    pub offsets: Vec<u32>,
    pub keys: Vec<u128>,
}
impl Exp {
    pub fn row(&self, r: u32) -> &[u128] {
        &self.keys[self.offsets[r as usize] as usize..self.offsets[r as usize + 1] as usize]
    }
}

#[derive(Clone, Copy, Debug, PartialEq, Eq)]
pub enum NumTy {
    I64,
    U64,
    F64,
}

/// key of a numeric model value in a column of type `ty`; Err if that type cannot hold the value
pub fn num_key(v: &Val, ty: NumTy, inexact: &mut u64) -> Result<u128, String> {
    match (ty, v) {
        (NumTy::I64, Val::I(x)) => Ok(key_i64(*x)),
        (NumTy::I64, Val::U(x)) if *x <= i64::MAX as u64 => Ok(key_i64(*x as i64)),
        (NumTy::U64, Val::U(x)) => Ok(*x as u128),
        (NumTy::U64, Val::I(x)) if *x >= 0 => Ok(*x as u128),
        (NumTy::F64, Val::F(b)) => Ok(key_f64_bits(*b)),
        (NumTy::F64, Val::I(x)) => {
            let f = *x as f64;
            if f as i128 != *x as i128 {
                *inexact += 1;
            }
            Ok(key_f64_bits(f.to_bits()))
        }
        (NumTy::F64, Val::U(x)) => {
            let f = *x as f64;
            if f as u128 != *x as u128 {
                *inexact += 1;
            }
            Ok(key_f64_bits(f.to_bits()))
        }
        _ => Err(format!("a {ty:?} column cannot represent the added value {v:?}")),
    }
}

/// One value-range lookup, positions are fractions (1/65536) so that the case is table independent.
#[derive(Clone, Debug, Serialize, Deserialize)]
pub struct RangeQ {
    /// 0 between two stored values, 1 point, 2 whole domain, 3 stored..domain max, 4 domain min..stored,
    /// 5 inverted (empty), 6 just above one stored value .. just below another (boundaries excluded)
    pub mode: u8,
    pub lo: u16,
    pub hi: u16,
    /// doc range: 0 = all rows, 1 = generated sub range, 2 = sub range snapped to block boundaries
    pub dmode: u8,
    pub d0: u16,
    pub d1: u16,
}

pub fn doc_range(q: &RangeQ, rows: u32) -> (u32, u32) {
    let n = rows as usize + 1;
    match q.dmode {
        0 => (0, rows),
        1 => {
            let a = idx(q.d0, n) as u32;
            let b = idx(q.d1, n) as u32;
            (a.min(b), a.max(b))
        }
        _ => {
            let cands: Vec<u32> = [0u32, 1, 63, 64, 65, 511, 512, 513, 1024, 5120, 65535, 65536, 65537, 131072, rows.saturating_sub(1), rows]
                .into_iter()
                .filter(|c| *c <= rows)
                .collect();
            let a = cands[idx(q.d0, cands.len())];
            let b = cands[idx(q.d1, cands.len())];
            (a.min(b), a.max(b))
        }
    }
}

pub struct TypedOps<'a, T> {
    pub to_key: &'a dyn Fn(T) -> u128,
    pub from_key: &'a dyn Fn(u128) -> T,
    pub dom: (u128, u128),
    pub is_f64: bool,
}

/// The generic oracle: a typed column against the expected keys.
/// `sig` prefixes every failure signature with the layer / phase, `what` goes into the detail.
pub fn check_typed<T>(col: &Column<T>, exp: &Exp, ops: &TypedOps<T>, queries: &[RangeQ], cx: &Ctx, sig: &str, what: &str) -> CaseResult
where T: PartialOrd + Copy + Debug + Send + Sync + 'static {
    let rows = exp.rows;
    ensure!(col.num_docs() == rows, format!("{sig}:num_docs"), "{what}: column.num_docs() = {} but the table has {rows} rows", col.num_docs());
    let nvals = exp.keys.len();
    ensure!(
        col.values.num_vals() as usize == nvals,
        format!("{sig}:num_vals"),
        "{what}: values.num_vals() = {} but {nvals} values were added (cardinality {:?})",
        col.values.num_vals(),
        col.get_cardinality()
    );
    // cardinality must be sound for the content
    let card = col.get_cardinality();
    let max_per_row = (0..rows).map(|r| exp.row(r).len()).max().unwrap_or(0);
    let min_per_row = (0..rows).map(|r| exp.row(r).len()).min().unwrap_or(1);
    match card {
        Cardinality::Full => ensure!(
            rows == 0 || (max_per_row == 1 && min_per_row == 1),
            format!("{sig}:cardinality_inconsistent"),
            "{what}: cardinality Full but rows hold between {min_per_row} and {max_per_row} values"
        ),
        Cardinality::Optional => {
            ensure!(max_per_row <= 1, format!("{sig}:cardinality_inconsistent"), "{what}: cardinality Optional but a row holds {max_per_row} values")
        }
        Cardinality::Multivalued => {}
    }
    match &col.index {
        ColumnIndex::Optional(o) => {
            ensure!(o.num_docs() == rows, format!("{sig}:index_len"), "{what}: optional index num_docs {} != {rows}", o.num_docs());
            ensure!(o.num_non_nulls() as usize == nvals, format!("{sig}:index_len"), "{what}: optional index num_non_nulls {} != {nvals}", o.num_non_nulls());
        }
        ColumnIndex::Multivalued(m) => {
            ensure!(m.num_docs() == rows, format!("{sig}:index_len"), "{what}: multivalued index num_docs {} != {rows}", m.num_docs());
        }
        ColumnIndex::Empty { num_docs } => {
            ensure!(*num_docs == rows, format!("{sig}:index_len"), "{what}: empty index num_docs {num_docs} != {rows}");
        }
        ColumnIndex::Full => {}
    }
    // every row, bit for bit, in insertion order
    let mut got: Vec<u128> = Vec::with_capacity(8);
    for r in 0..rows {
        got.clear();
        got.extend(col.values_for_doc(r).map(|v| (ops.to_key)(v)));
        let e = exp.row(r);
        if got.as_slice() != e {
            let g: Vec<T> = col.values_for_doc(r).collect();
            let ev: Vec<T> = e.iter().map(|k| (ops.from_key)(*k)).collect();
            let kind = if got.len() != e.len() {
                "row_value_count"
            } else {
                let mut a = got.clone();
                let mut b = e.to_vec();
                a.sort();
                b.sort();
                if a == b {
                    "row_value_order"
                } else {
                    "row_values"
                }
            };
            fail!(format!("{sig}:{kind}"), "{what}: row {r} of {rows}: got {g:?} expected {ev:?} (cardinality {card:?})");
        }
        let f = col.first(r).map(|v| (ops.to_key)(v));
        ensure!(f == e.first().copied(), format!("{sig}:first"), "{what}: row {r}: first() = {:?}, expected {:?}", col.first(r), e.first().map(|k| (ops.from_key)(*k)));
        ensure!(col.index.has_value(r) == !e.is_empty(), format!("{sig}:has_value"), "{what}: row {r}: has_value = {}", col.index.has_value(r));
    }
    // beyond the last row: nothing
    if !matches!(col.index, ColumnIndex::Full) {
        // (a Full index maps doc -> doc and leaves the bound to the value reader)
    }
    // min / max bound all values
    if nvals > 0 {
        let (mn, mx) = (col.min_value(), col.max_value());
        for k in exp.keys.iter() {
            let v = (ops.from_key)(*k);
            ensure!(v >= mn && v <= mx, format!("{sig}:min_max_do_not_bound"), "{what}: value {v:?} outside of [min_value {mn:?}, max_value {mx:?}]");
        }
    }
    // first_vals over a strided doc list
    {
        let stride = (rows / 700).max(1) as usize;
        let docs: Vec<u32> = (0..rows).step_by(stride).collect();
        let mut out: Vec<Option<T>> = vec![None; docs.len()];
        col.first_vals(&docs, &mut out);
        for (d, o) in docs.iter().zip(out.iter()) {
            ensure!(
                o.map(|v| (ops.to_key)(v)) == exp.row(*d).first().copied(),
                format!("{sig}:first_vals"),
                "{what}: first_vals doc {d}: {o:?}, expected {:?}",
                exp.row(*d).first().map(|k| (ops.from_key)(*k))
            );
        }
    }
    // value-range lookups against brute force
    let mut out: Vec<u32> = vec![];
    for q in queries {
        let (lo, hi) = match pick_bounds(q, exp, ops.dom) {
            Some(b) => b,
            None => continue,
        };
        if ops.is_f64 && (lo == key_f64_bits(0.0f64.to_bits()) || hi == key_f64_bits((-0.0f64).to_bits())) {
            cx.count("range_zero_sign_ambiguous_skipped", 1);
            continue;
        }
        let (d0, d1) = doc_range(q, rows);
        let mut expect: Vec<u32> = vec![];
        for r in d0..d1 {
            if exp.row(r).iter().any(|k| *k >= lo && *k <= hi) {
                expect.push(r);
            }
        }
        out.clear();
        let range: RangeInclusive<T> = (ops.from_key)(lo)..=(ops.from_key)(hi);
        col.get_docids_for_value_range(range.clone(), d0..d1, &mut out);
        cx.evals(1);
        cx.count("range_lookups", 1);
        if out != expect {
            let missing: Vec<u32> = expect.iter().filter(|d| !out.contains(d)).take(5).copied().collect();
            let extra: Vec<u32> = out.iter().filter(|d| !expect.contains(d)).take(5).copied().collect();
            let kind = if lo > hi { "range_lookup_inverted" } else { "range_lookup" };
            fail!(
                format!("{sig}:{kind}"),
                "{what}: get_docids_for_value_range({range:?}, {d0}..{d1}) returned {} docs, brute force {} (cardinality {card:?}, rows {rows}); missing e.g. {missing:?}, unexpected e.g. {extra:?}",
                out.len(),
                expect.len()
            );
        }
        cx.label(if expect.is_empty() { "range:empty_result" } else { "range:nonempty_result" });
        cx.label_if(q.dmode != 0 && d1 > d0, "range:sub_docrange");
        cx.label_if(lo > hi, "range:inverted");
    }
    Ok(())
}

fn pick_bounds(q: &RangeQ, exp: &Exp, dom: (u128, u128)) -> Option<(u128, u128)> {
    let n = exp.keys.len();
    let stored = |sel: u16| -> Option<u128> { if n == 0 { None } else { Some(exp.keys[idx(sel, n)]) } };
    Some(match q.mode {
        0 => {
            let (a, b) = (stored(q.lo)?, stored(q.hi)?);
            (a.min(b), a.max(b))
        }
        1 => {
            let a = stored(q.lo)?;
            (a, a)
        }
        2 => dom,
        3 => (stored(q.lo)?, dom.1),
        4 => (dom.0, stored(q.hi)?),
        5 => {
            let (a, b) = (stored(q.lo)?, stored(q.hi)?);
            if a == b {
                if a == dom.0 {
                    return None;
                }
                (a, a - 1)
            } else {
                (a.max(b), a.min(b))
            }
        }
        _ => {
            let (a, b) = (stored(q.lo)?, stored(q.hi)?);
            let (a, b) = (a.min(b), a.max(b));
            if b - a < 2 {
                return None;
            }
            (a + 1, b - 1)
        }
    })
}

/// block accessor path (aggregations read through it); only for types with `Default`
pub fn check_block_accessor<T>(col: &Column<T>, exp: &Exp, to_key: &dyn Fn(T) -> u128, sig: &str, what: &str) -> CaseResult
where T: PartialOrd + Copy + Debug + Send + Sync + Default + 'static {
    let rows = exp.rows;
    if rows == 0 {
        return Ok(());
    }
    let mut acc: ColumnBlockAccessor<T> = ColumnBlockAccessor::default();
    // contiguous blocks of 64 docs (a few) and one strided block
    let starts: Vec<u32> = [0u32, rows / 2, rows.saturating_sub(64), 448, 65500].into_iter().filter(|s| *s < rows).collect();
    let mut blocks: Vec<Vec<u32>> = starts.iter().map(|s| (*s..(*s + 64).min(rows)).collect()).collect();
    blocks.push((0..rows).step_by((rows as usize / 50).max(2)).collect());
    for docs in blocks {
        acc.fetch_block(&docs, col);
        let got: Vec<(u32, u128)> = if col.get_cardinality().is_full() {
            docs.iter().copied().zip(acc.iter_vals().map(|v| to_key(v))).collect()
        } else {
            acc.iter_docid_vals(&docs, col).map(|(d, v)| (d, to_key(v))).collect()
        };
        let mut e: Vec<(u32, u128)> = vec![];
        for d in &docs {
            for k in exp.row(*d) {
                e.push((*d, *k));
            }
        }
        ensure!(got == e, format!("{sig}:block_accessor"), "{what}: ColumnBlockAccessor over docs {:?}.. returned {} (doc, value) pairs, expected {}", &docs[..docs.len().min(4)], got.len(), e.len());
    }
    Ok(())
}

/// Reads the whole dictionary of a bytes/str column, checks order and the ord <-> term bijection,
/// returns the terms in ordinal order.
pub fn read_dictionary(col: &BytesColumn, sig: &str, what: &str) -> Result<Vec<Vec<u8>>, Failure> {
    let dict = col.dictionary();
    let n = dict.num_terms();
    let mut terms: Vec<Vec<u8>> = Vec::with_capacity(n);
    let mut stream = dict.stream().or_fail(&format!("{sig}:dictionary_stream"))?;
    while stream.advance() {
        let k = stream.key().to_vec();
        ensure!(stream.term_ord() as usize == terms.len(), format!("{sig}:dictionary_ord"), "{what}: stream ordinal {} at position {}", stream.term_ord(), terms.len());
        if let Some(p) = terms.last() {
            ensure!(*p < k, format!("{sig}:dictionary_not_sorted"), "{what}: dictionary term {:?} after {:?}", k, p);
        }
        terms.push(k);
    }
    ensure!(terms.len() == n, format!("{sig}:dictionary_len"), "{what}: num_terms() = {n} but the stream yields {}", terms.len());
    // ord -> term and term -> ord on a strided sample (all of them for small dictionaries)
    let stride = (n / 300).max(1);
    let mut buf = Vec::new();
    for ord in (0..n).step_by(stride).chain(n.saturating_sub(1)..n) {
        buf.clear();
        let found = col.ord_to_bytes(ord as u64, &mut buf).or_fail(&format!("{sig}:ord_to_bytes"))?;
        ensure!(found && buf == terms[ord], format!("{sig}:ord_to_term"), "{what}: ord_to_bytes({ord}) = ({found}, {:?}) but the dictionary stream has {:?}", buf, terms[ord]);
        let back = dict.term_ord(&terms[ord]).or_fail(&format!("{sig}:term_ord"))?;
        ensure!(back == Some(ord as u64), format!("{sig}:term_to_ord"), "{what}: term_ord({:?}) = {back:?}, expected {ord}", terms[ord]);
    }
    buf.clear();
    let beyond = col.ord_to_bytes(n as u64, &mut buf).or_fail(&format!("{sig}:ord_to_bytes"))?;
    ensure!(!beyond, format!("{sig}:ord_beyond_dictionary"), "{what}: ord_to_bytes(num_terms) found a term");
    Ok(terms)
}

pub fn ip_of(x: u128) -> Ipv6Addr {
    Ipv6Addr::from(x)
}
